#!/bin/bash
# patchall.sh <diff> [tier] [ids...]: apply any patch to /repo, run the given (default: all) checks, undo it.
# Prints one line per check; used for benign-variant (false alarm) and seed sweeps.
p="$1"; tier="${2:-quick}"; shift 2 2>/dev/null
cd /repo || exit 2
git diff --quiet || { echo "repo dirty"; exit 2; }
git apply "$p" || { echo "PATCH DOES NOT APPLY: $p"; exit 3; }
cd /verif
ids="$*"
[ -z "$ids" ] && ids=$(python3 -c "import json;print(' '.join(c['property_id'] for c in json.load(open('MANIFEST.json'))['checks']))")
for id in $ids; do
  out=$(./run.sh "$id" "$tier" 2>&1); rc=$?
  echo "$(basename $p) $id rc=$rc $(echo "$out" | grep -a 'rule=' | sed 's/.*rule=//' | cut -c1-150 | sort | uniq | head -4 | tr '\n' '|')"
done
git -C /repo checkout -- . ; git -C /repo status --short
git -C /verif checkout -- evidence 2>/dev/null
