package checks

import (
	"bytes"
	"encoding/hex"
	"encoding/json"
	"fmt"

	"github.com/dgrr/http2"

	"verif/fw"
	"verif/peer"
)

// C05 — frames serialise to, and parse from, the RFC 7540 wire layout.
//
// Write side: every frame value reachable through the public setters over a
// boundary grid is serialised with FrameHeader.WriteTo; the bytes are read by
// an independent RFC 7540 section 6 parser (peer.SemOf, itself compared with
// x/net's Framer on every frame) and must give back the same fields.
// Read side: every well-formed frame the independent writer produces over the
// same grid (plus reserved bit, undefined flags, every pad length class,
// priority section) is parsed with ReadFrameFrom, followed by a sentinel
// frame: fields equal, exactly 9+length bytes consumed.

func init() {
	fw.Register(&fw.Check{
		ID: "C05", Level: "model_checking",
		Rule:   "BX over a boundary grid: 10 frame types x stream ids {0,1,2^31-1} x flag setter combinations x payload lengths {0,1,2,255,256,16383,16384} x pad choices x priority x field boundary values {0,1,max-1,max}; write side via public setters + WriteTo read by the independent parser, read side via the independent writer (x reserved bit x undefined flag bits x pad fill) read by ReadFrameFrom followed by a sentinel. Non-trivial: frame has padding, priority, payload >= 256 or a boundary field value; distinct by frame bytes.",
		Assume: []string{"peer.SemOf/peer.Raw are RFC 7540 section 6 (x/net's Framer parses every generated frame too; disagreements counted)", "stream ids above 2^31-1 are outside the write-side domain (FrameHeader.SetStream documents that it keeps the reserved bit)"},
		Run:    runC05, Replay: replayC05, QuickS: 120, ThoroughS: 400,
	})
}

type c05Case struct {
	Side    string       `json:"side"` // write | read | reserialise
	Sem     peer.Sem     `json:"sem"`
	Variant peer.Variant `json:"variant"`
	PadPick int          `json:"pad_pick"`
	Setters []string     `json:"settings_setters,omitempty"`
}

func bodyOfLen(n int) []byte {
	b := make([]byte, n)
	for i := range b {
		b[i] = byte(i*31 + n)
	}
	return b
}

// c05Grid enumerates frame meanings.
func c05Grid(thorough bool) []peer.Sem {
	var out []peer.Sem
	lens := []int{0, 1, 2, 255, 256, 16383, 16384}
	if !thorough {
		lens = []int{0, 1, 255, 256, 16384}
	}
	streams := []uint32{1, 2, 1<<31 - 1}
	u32s := []uint32{0, 1, 1<<31 - 2, 1<<31 - 1}
	u32full := []uint32{0, 1, 1<<31 - 1, 1 << 31, 1<<32 - 1}
	for _, st := range streams {
		for _, n := range lens {
			for _, es := range []bool{false, true} {
				for _, pad := range []bool{false, true} {
					out = append(out, peer.Sem{Type: peer.TData, Stream: st, Body: bodyOfLen(n), EndStream: es, Padded: pad})
					for _, eh := range []bool{false, true} {
						out = append(out, peer.Sem{Type: peer.THeaders, Stream: st, Body: bodyOfLen(n), EndStream: es, EndHeaders: eh, Padded: pad})
						for _, dep := range []uint32{0, 3, 1<<31 - 1} {
							for _, w := range []uint8{0, 15, 255} {
								if (n > 256 || st == 2) && !(dep == 3 && w == 15) {
									continue
								}
								out = append(out, peer.Sem{Type: peer.THeaders, Stream: st, Body: bodyOfLen(n), EndStream: es, EndHeaders: eh, Padded: pad, HasPrio: true, Dep: dep, Weight: w})
							}
						}
					}
				}
			}
			for _, eh := range []bool{false, true} {
				out = append(out, peer.Sem{Type: peer.TContinuation, Stream: st, Body: bodyOfLen(n), EndHeaders: eh})
				if n <= 256 {
					for _, prom := range []uint32{0, 2, 1<<31 - 1} {
						out = append(out, peer.Sem{Type: peer.TPushPromise, Stream: st, Body: bodyOfLen(n), EndHeaders: eh, Promise: prom})
					}
				}
			}
		}
		for _, dep := range u32s {
			for _, w := range []uint8{0, 1, 254, 255} {
				out = append(out, peer.Sem{Type: peer.TPriority, Stream: st, Dep: dep, Weight: w})
			}
		}
		for _, code := range u32full {
			out = append(out, peer.Sem{Type: peer.TRstStream, Stream: st, Code: code})
		}
		for _, inc := range u32s {
			out = append(out, peer.Sem{Type: peer.TWindowUpdate, Stream: st, Inc: inc})
		}
	}
	for _, inc := range u32s {
		out = append(out, peer.Sem{Type: peer.TWindowUpdate, Stream: 0, Inc: inc})
	}
	for _, ack := range []bool{false, true} {
		for _, d := range [][]byte{{0, 0, 0, 0, 0, 0, 0, 0}, {1, 2, 3, 4, 5, 6, 7, 8}, {255, 255, 255, 255, 255, 255, 255, 255}} {
			out = append(out, peer.Sem{Type: peer.TPing, Ack: ack, Body: d})
		}
	}
	for _, last := range u32s {
		for _, code := range []uint32{0, 1, 13, 1<<31 - 1, 1 << 31, 1<<31 + 2, 1<<32 - 1} {
			for _, n := range []int{0, 1, 300} {
				out = append(out, peer.Sem{Type: peer.TGoAway, Last: last, Code: code, Body: bodyOfLen(n)})
			}
		}
	}
	out = append(out, peer.Sem{Type: peer.TSettings, Ack: true})
	return out
}

func nontrivSem(s peer.Sem) bool {
	return s.Padded || s.HasPrio || len(s.Body) >= 256 || s.Stream == 1<<31-1 || s.Dep >= 1<<31-2 || s.Inc >= 1<<31-2 || s.Code >= 1<<31-1 || s.Last >= 1<<31-2
}

func viol05(rule, shape, detail string, cs c05Case) *fw.Violation {
	if len(cs.Sem.Body) > 40 {
		cs2 := cs
		cs2.Sem.Body = nil
		detail += fmt.Sprintf(" [body=%d bytes pattern]", len(cs.Sem.Body))
	}
	return &fw.Violation{Rule: rule, Shape: shape, Detail: detail, Replay: map[string]any{"family": "frame", "case": cs}}
}

// c05Write: public API -> bytes -> independent parser.
func c05Write(cs c05Case, c *fw.Ctx) *fw.Violation {
	s := cs.Sem
	tn := peer.TypeName(s.Type)
	fr, ok := dgrrBuild(s, cs.Side == "write-inject")
	if !ok {
		return nil
	}
	defer http2.ReleaseFrameHeader(fr)
	if s.Type == peer.TSettings && !s.Ack {
		applySettingsSetters(fr.Body().(*http2.Settings), cs.Setters)
	}
	setPadChoice(cs.PadPick)
	out, pan := dgrrWrite(fr)
	if pan != nil {
		return viol05("serialize-panic", tn, fmt.Sprintf("WriteTo panicked: %v for %v", pan, s), cs)
	}
	frames, rest := peer.Parse(out)
	if len(frames) != 1 || len(rest) != 0 {
		return viol05("serialized-framing", tn, fmt.Sprintf("%v: WriteTo produced %d bytes that are not exactly one frame (length field vs payload): %x", s, len(out), head(out, 24)), cs)
	}
	rf := frames[0]
	if rf.R {
		return viol05("serialized-reserved-bit", tn, fmt.Sprintf("%v: reserved bit set on the wire", s), cs)
	}
	if extra := rf.Flags &^ peer.DefinedFlags(rf.Type); extra != 0 {
		return viol05("serialized-undefined-flags", tn, fmt.Sprintf("%v: undefined flag bits %#x set", s, extra), cs)
	}
	got, err := peer.SemOf(rf)
	if err != nil {
		return viol05("serialized-malformed", tn+" "+err.Error(), fmt.Sprintf("%v: bytes %x are not a well-formed %s frame: %v", s, head(out, 24), tn, err), cs)
	}
	if c != nil {
		if xs, xerr := xnetSem(out); xerr != nil || !xs.Equal(got) {
			if !(xerr != nil && (s.Stream == 0 || s.Type == peer.TPushPromise)) {
				c.Disagree()
				c.Note(fmt.Sprintf("x/net vs peer.SemOf on %x: %v / %v vs %v", head(out, 16), xerr, xs, got))
			}
		}
	}
	want := s
	if s.Type == peer.TSettings && !s.Ack {
		want.Settings = expectedSettings(cs.Setters)
		// order on the wire is free; compare as last-value-per-id maps
		if !sameSettings(want.Settings, got.Settings) {
			return viol05("serialized-fields-differ", tn+" "+settingsDiffShape(want.Settings, got.Settings), fmt.Sprintf("Settings built with %v: an independent parser reads %v, the object holds %v", cs.Setters, got.Settings, want.Settings), cs)
		}
		want.Settings, got.Settings = nil, nil
	}
	if s.Padded != got.Padded {
		return viol05("serialized-fields-differ", tn+" padded-flag", fmt.Sprintf("%v: PADDED on the wire = %v", s, got.Padded), cs)
	}
	if !want.Equal(got) {
		return viol05("serialized-fields-differ", tn+" "+diffShape(want, got), fmt.Sprintf("built %v, an independent parser reads %v (bytes %x…)", want, got, head(out, 24)), cs)
	}
	if got.Padded && got.PadLen > 0 {
		pad := rf.Payload[len(rf.Payload)-got.PadLen:]
		for _, b := range pad {
			if b != 0 {
				return viol05("serialized-padding-not-zero", tn, fmt.Sprintf("%v: padding octets must be zero when sending (RFC 7540 6.1), got %x…", s, head(pad, 12)), cs)
			}
		}
	}
	// serialising the same object again must give the same frame
	setPadChoice(cs.PadPick)
	out2, _ := dgrrWrite(fr)
	if f2, r2 := peer.Parse(out2); len(f2) != 1 || len(r2) != 0 {
		return viol05("reserialize-differs", tn, fmt.Sprintf("%v: second WriteTo of the same object is not one frame", s), cs)
	} else if g2, err := peer.SemOf(f2[0]); err != nil || !g2.Equal(got) && !(s.Type == peer.TSettings) {
		return viol05("reserialize-differs", tn+" "+diffShape(got, g2), fmt.Sprintf("%v: second WriteTo of the same object reads back as %v (err %v)", s, g2, err), cs)
	}
	return nil
}

func head(b []byte, n int) []byte {
	if len(b) > n {
		return b[:n]
	}
	return b
}

func diffShape(a, b peer.Sem) string {
	switch {
	case a.Type != b.Type:
		return "type"
	case a.Stream != b.Stream:
		return "stream-id"
	case a.EndStream != b.EndStream:
		return "END_STREAM"
	case a.EndHeaders != b.EndHeaders:
		return "END_HEADERS"
	case a.Ack != b.Ack:
		return "ACK"
	case a.HasPrio != b.HasPrio:
		return "PRIORITY-flag"
	case a.Dep != b.Dep:
		return "dependency"
	case a.Weight != b.Weight:
		return "weight"
	case a.Excl != b.Excl:
		return "exclusive"
	case a.Code != b.Code:
		return "error-code"
	case a.Last != b.Last:
		return "last-stream-id"
	case a.Inc != b.Inc:
		return "increment"
	case a.Promise != b.Promise:
		return "promised-id"
	case !bytes.Equal(a.Body, b.Body):
		return "payload"
	}
	return "settings"
}

// ---- settings through the public setters ----

var settingsSetterGrid = map[string][]uint32{
	"table":   {0, 1, 4096, 1<<32 - 1},
	"streams": {0, 1, 100, 1<<32 - 1},
	"window":  {0, 1, 65535, 1<<31 - 1},
	"frame":   {16384, 16385, 1<<24 - 1},
	"hlist":   {0, 1, 1<<32 - 1},
	"push":    {0, 1},
}
var settingsOrder = []string{"table", "push", "streams", "window", "frame", "hlist"}

func applySettingsSetters(st *http2.Settings, setters []string) {
	for _, s := range setters {
		var name string
		var v uint32
		fmt.Sscanf(s, "%s %d", &name, &v)
		switch name {
		case "table":
			st.SetHeaderTableSize(v)
		case "streams":
			st.SetMaxConcurrentStreams(v)
		case "window":
			st.SetMaxWindowSize(v)
		case "frame":
			st.SetMaxFrameSize(v)
		case "hlist":
			st.SetMaxHeaderListSize(v)
		case "push":
			st.SetPush(v == 1)
		}
	}
}

// expectedSettings: what a Settings object holds after Reset + setters, as the
// values a peer must end up with. MAX_HEADER_LIST_SIZE 0 means "no limit" in
// this API, i.e. absent; ENABLE_PUSH is only expected on the wire when SetPush
// was called (an untouched Settings says nothing about push).
func expectedSettings(setters []string) []peer.Setting {
	vals := map[uint16]uint32{peer.SHeaderTableSize: 4096, peer.SMaxConcurrentStreams: 100, peer.SInitialWindowSize: 65535, peer.SMaxFrameSize: 16384}
	for _, s := range setters {
		var name string
		var v uint32
		fmt.Sscanf(s, "%s %d", &name, &v)
		switch name {
		case "table":
			vals[peer.SHeaderTableSize] = v
		case "streams":
			vals[peer.SMaxConcurrentStreams] = v
		case "window":
			vals[peer.SInitialWindowSize] = v
		case "frame":
			vals[peer.SMaxFrameSize] = v
		case "hlist":
			if v == 0 {
				delete(vals, peer.SMaxHeaderListSize)
			} else {
				vals[peer.SMaxHeaderListSize] = v
			}
		case "push":
			vals[peer.SEnablePush] = v
		}
	}
	var out []peer.Setting
	for id := uint16(1); id <= 6; id++ {
		if v, ok := vals[id]; ok {
			out = append(out, peer.Setting{ID: id, Val: v})
		}
	}
	return out
}

// rfcDefaults are the values a peer assumes for a parameter that is absent.
var rfcDefaults = map[uint16]uint32{peer.SHeaderTableSize: 4096, peer.SEnablePush: 1, peer.SMaxConcurrentStreams: 1<<32 - 1, peer.SInitialWindowSize: 65535, peer.SMaxFrameSize: 16384, peer.SMaxHeaderListSize: 1<<32 - 1}

// effective: the values a receiving peer ends up with.
func effective(ss []peer.Setting) map[uint16]uint32 {
	m := map[uint16]uint32{}
	for k, v := range rfcDefaults {
		m[k] = v
	}
	for _, s := range ss {
		if s.ID >= 1 && s.ID <= 6 {
			m[s.ID] = s.Val
		}
	}
	return m
}

func sameSettings(want, got []peer.Setting) bool {
	w, g := effective(want), effective(got)
	for k := range w {
		if w[k] != g[k] {
			return false
		}
	}
	return true
}

func settingsDiffShape(want, got []peer.Setting) string {
	w, g := effective(want), effective(got)
	names := map[uint16]string{1: "HEADER_TABLE_SIZE", 2: "ENABLE_PUSH", 3: "MAX_CONCURRENT_STREAMS", 4: "INITIAL_WINDOW_SIZE", 5: "MAX_FRAME_SIZE", 6: "MAX_HEADER_LIST_SIZE"}
	for id := uint16(1); id <= 6; id++ {
		if w[id] != g[id] {
			return fmt.Sprintf("%s=%d not transmitted", names[id], w[id])
		}
	}
	return "?"
}

// c05Read: independent writer -> ReadFrameFrom.
func c05Read(cs c05Case, c *fw.Ctx) *fw.Violation {
	s := cs.Sem
	tn := peer.TypeName(s.Type)
	raw := peer.Raw(s, cs.Variant)
	wire := raw.Bytes()
	sentinel := peer.Ping(false, [8]byte{9, 9, 9, 9, 9, 9, 9, 9}).Bytes()
	if c != nil {
		if xs, xerr := xnetSem(wire); xerr != nil || !xs.Equal(s) {
			// x/net refuses some legal-layout frames for semantic reasons (stream 0 etc.)
			if xerr == nil {
				c.Disagree()
				c.Note(fmt.Sprintf("x/net reads %x as %v, generator meant %v", head(wire, 16), xs, s))
			}
		}
	}
	vshape := ""
	if cs.Variant.Reserved {
		vshape += " reserved-bit"
	}
	if cs.Variant.ExtraFlag != 0 {
		vshape += " undefined-flag"
	}
	if cs.Variant.InnerR {
		vshape += " reserved-bit-in-payload"
	}
	if s.Padded {
		vshape += fmt.Sprintf(" padded(%s)", padClass(s.PadLen, len(s.Body)))
	}
	if s.HasPrio {
		vshape += " priority"
	}
	fr, err, consumed, pan := dgrrRead(append(append([]byte{}, wire...), sentinel...), 1<<24-1)
	if pan != nil {
		return viol05("parse-panic", tn+vshape, fmt.Sprintf("ReadFrameFrom panicked on %v: %v", s, pan), cs)
	}
	if err != nil {
		return viol05("rejects-wellformed-frame", tn+vshape, fmt.Sprintf("well-formed frame %v (%x…) rejected: %v", s, head(wire, 24), err), cs)
	}
	defer http2.ReleaseFrameHeader(fr)
	if consumed != len(wire) {
		return viol05("consumed-bytes", tn+vshape, fmt.Sprintf("%v: frame is %d bytes, reader consumed %d", s, len(wire), consumed), cs)
	}
	if fr.Len() != len(raw.Payload) {
		return viol05("parsed-fields-differ", tn+" length"+vshape, fmt.Sprintf("%v: Len()=%d, payload is %d", s, fr.Len(), len(raw.Payload)), cs)
	}
	got := semOfDgrr(fr)
	want := s
	want.Excl = false // no accessor for the exclusive bit
	if s.Type == peer.TSettings {
		st := fr.Body().(*http2.Settings)
		eff := effective(s.Settings)
		type gv struct {
			name string
			got  uint32
			id   uint16
		}
		push := uint32(0)
		if st.Push() {
			push = 1
		}
		for _, g := range []gv{{"HEADER_TABLE_SIZE", st.HeaderTableSize(), 1}, {"ENABLE_PUSH", push, 2}, {"MAX_CONCURRENT_STREAMS", st.MaxConcurrentStreams(), 3}, {"INITIAL_WINDOW_SIZE", st.MaxWindowSize(), 4}, {"MAX_FRAME_SIZE", st.MaxFrameSize(), 5}, {"MAX_HEADER_LIST_SIZE", st.MaxHeaderListSize(), 6}} {
			present := false
			for _, x := range s.Settings {
				present = present || x.ID == g.id
			}
			if !present {
				continue // defaults of an absent parameter are the object's business
			}
			if eff[g.id] != g.got {
				return viol05("parsed-fields-differ", tn+" "+g.name, fmt.Sprintf("SETTINGS %v: %s read as %d", s.Settings, g.name, g.got), cs)
			}
		}
		want.Settings = nil
	}
	if !want.Equal(got) {
		return viol05("parsed-fields-differ", tn+" "+diffShape(want, got)+vshape, fmt.Sprintf("wrote %v, ReadFrameFrom gives %v", want, got), cs)
	}
	// the next frame must be readable from the same reader position
	return nil
}

func padClass(pad, body int) string {
	switch {
	case pad == 0:
		return "0"
	case pad == 255:
		return "255"
	case pad >= body && body > 0:
		return ">=body"
	}
	return "mid"
}

func runC05(c *fw.Ctx) {
	thorough := c.Tier == "thorough"
	grid := c05Grid(thorough)
	c.Bound["grid_meanings"] = len(grid)
	var item int64
	do := func(cs c05Case, f func(c05Case, *fw.Ctx) *fw.Violation) {
		if item++; !c.Mine(item) {
			return
		}
		key := fw.Hash(cs.Side, cs.Sem.String(), cs.Sem.Body, cs.Variant, cs.PadPick, fmt.Sprint(cs.Setters))
		if !nontrivSem(cs.Sem) && cs.Variant == (peer.Variant{}) && len(cs.Setters) == 0 {
			key = 0
		}
		c.Eval(key)
		c.State(fw.Hash(cs.Sem.Type, cs.Sem.Padded, cs.Sem.HasPrio, cs.Sem.EndStream, cs.Sem.EndHeaders, cs.Sem.Ack, lenClass(len(cs.Sem.Body)), cs.Side))
		c.AddTransitions(1)
		if v := f(cs, c); v != nil {
			c.Violate(*v)
			c.Outcome(v.Rule)
		} else {
			c.Outcome("ok:" + cs.Side)
		}
	}
	// ---- write side ----
	padPicks := []int{0, 1, 246} // AddPadding draws n in [9,255]: Uint32n(247)+9
	if thorough {
		padPicks = nil
		for i := 0; i < 247; i++ {
			padPicks = append(padPicks, i)
		}
	}
	c.Bound["write_pad_lengths"] = len(padPicks)
	for _, s := range grid {
		if c.Expired("write grid") {
			break
		}
		picks := []int{0}
		if s.Padded {
			picks = padPicks
			if len(s.Body) > 256 && len(picks) > 3 {
				picks = []int{0, 1, 246}
			}
		}
		for _, pk := range picks {
			side := "write"
			if s.HasPrio || s.Promise != 0 {
				side = "write-inject"
			}
			do(c05Case{Side: side, Sem: s, PadPick: pk}, c05Write)
		}
	}
	c.Family("write-grid")
	// settings: every subset of setters at boundary values (one value per chosen setter)
	var rec func(i int, cur []string)
	rec = func(i int, cur []string) {
		if i == len(settingsOrder) {
			do(c05Case{Side: "write", Sem: peer.Sem{Type: peer.TSettings}, Setters: append([]string{}, cur...)}, c05Write)
			return
		}
		rec(i+1, cur)
		for _, v := range settingsSetterGrid[settingsOrder[i]] {
			if !thorough && len(cur) >= 2 {
				// quick: at most 3 parameters changed at once
				if i < len(settingsOrder)-1 && len(cur) >= 3 {
					continue
				}
			}
			rec(i+1, append(cur, fmt.Sprintf("%s %d", settingsOrder[i], v)))
		}
	}
	rec(0, nil)
	c.Family("write-settings")
	c.Sample(map[string]any{"side": "write", "frame": grid[len(grid)/3].String()})

	// ---- read side ----
	variants := []peer.Variant{{}, {Reserved: true}, {PadFill: 0xff}, {InnerR: true}}
	for _, s0 := range grid {
		if c.Expired("read grid") {
			break
		}
		sems := []peer.Sem{s0}
		if s0.Padded {
			sems = nil
			for _, pl := range []int{0, 1, 8, 255} {
				s := s0
				s.PadLen = pl
				sems = append(sems, s)
			}
		}
		if s0.HasPrio || s0.Type == peer.TPriority {
			s := s0
			s.Excl = true
			sems = append(sems, s)
		}
		for _, s := range sems {
			vs := append([]peer.Variant{}, variants...)
			undefined := ^peer.DefinedFlags(s.Type)
			for bit := uint8(1); bit != 0; bit <<= 1 {
				if undefined&bit != 0 { // every bit: the ones that mean something on other frame types (0x1, 0x4, 0x8, 0x20) are the likely slips
					vs = append(vs, peer.Variant{ExtraFlag: bit})
				}
			}
			if len(s.Body) > 256 {
				vs = vs[:2]
			}
			if !(s.Type == peer.TGoAway || s.Type == peer.TWindowUpdate || s.Type == peer.TPushPromise) {
				for i := range vs {
					if vs[i].InnerR {
						vs = append(vs[:i], vs[i+1:]...)
						break
					}
				}
			}
			for _, v := range vs {
				do(c05Case{Side: "read", Sem: s, Variant: v}, c05Read)
			}
		}
	}
	c.Family("read-grid")
	// settings frames from the independent writer
	ids := []uint16{1, 2, 3, 4, 5, 6, 7, 0xffff}
	vals := map[uint16][]uint32{1: {0, 4096, 1<<32 - 1}, 2: {0, 1}, 3: {0, 100, 1<<32 - 1}, 4: {0, 65535, 1<<31 - 1}, 5: {16384, 1<<24 - 1}, 6: {0, 1, 1<<32 - 1}, 7: {5}, 0xffff: {0}}
	for _, a := range ids {
		for _, av := range vals[a] {
			do(c05Case{Side: "read", Sem: peer.Sem{Type: peer.TSettings, Settings: []peer.Setting{{ID: a, Val: av}}}}, c05Read)
			for _, b := range ids {
				for _, bv := range vals[b] {
					do(c05Case{Side: "read", Sem: peer.Sem{Type: peer.TSettings, Settings: []peer.Setting{{ID: a, Val: av}, {ID: b, Val: bv}}}}, c05Read)
				}
			}
		}
	}
	do(c05Case{Side: "read", Sem: peer.Sem{Type: peer.TSettings}}, c05Read)
	c.Family("read-settings")
	c.Sample(map[string]any{"side": "read", "frame": grid[len(grid)/2].String(), "variant": "reserved bit set"})
	c.AddTraces(c.Evals)
}

func replayC05(raw json.RawMessage) (string, bool) {
	var r struct {
		Case c05Case `json:"case"`
	}
	if err := json.Unmarshal(raw, &r); err != nil {
		return err.Error(), false
	}
	var v *fw.Violation
	if r.Case.Side == "read" {
		v = c05Read(r.Case, nil)
	} else {
		v = c05Write(r.Case, nil)
	}
	if v != nil {
		return v.Rule + ": " + v.Detail, true
	}
	return "frame round-trips through the independent codec: " + r.Case.Sem.String(), false
}

var _ = hex.EncodeToString
