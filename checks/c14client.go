package checks

import (
	"encoding/json"

	"verif/fw"
)

// client half of C14: filled in with the client harness.
var runC14Client = func(c *fw.Ctx) {}

var replayC14Client = func(raw json.RawMessage) (string, bool) { return "client half not built", false }
