package checks

import (
	"encoding/json"
	"fmt"
	"strings"

	"verif/fw"
	"verif/harness"
	"verif/peer"
	"verif/ref"
)

// Client half of C14: the scripted server is the conforming sender; the real
// client must hand credit back for every pattern of DATA it is sent.

type c14cCase struct {
	Class string `json:"class"`
	Chunk int    `json:"chunk"`
	Pad   int    `json:"pad"`
}

var c14cClasses = []string{"long-download-after-covering-goaway", "download", "padded-download", "padding-only-frames", "empty-data-frames", "timed-out-request-data-in-flight", "reset-by-server-mid-body", "two-streams-interleaved", "data-only-for-abandoned-requests"}

// csender is the scripted server's send-side ledger towards the client.
type csender struct {
	h      *harness.Client
	srv    *harness.SrvConn
	conn   int64
	init   int64
	strm   map[uint32]int64
	wuSeen int
	sent   int64
	peak   int64
	speak  map[uint32]int64
}

func (s *csender) absorb() (string, string) {
	for ; s.wuSeen < len(s.srv.WindowUps); s.wuSeen++ {
		w := s.srv.WindowUps[s.wuSeen]
		if w.Inc == 0 {
			return "zero-increment", fmt.Sprintf("WINDOW_UPDATE with increment 0 on stream %d", w.Stream)
		}
		if w.Stream == 0 {
			s.conn += int64(w.Inc)
			if s.conn > 1<<31-1 {
				return "window-above-maximum connection", fmt.Sprintf("connection window pushed to %d", s.conn)
			}
			if s.peak != 0 && s.conn < s.peak {
				return "credit-leak connection", fmt.Sprintf("after WINDOW_UPDATE(+%d) the connection window is %d; after the previous refill it was %d: %d bytes of DATA were never credited back (sent %d)", w.Inc, s.conn, s.peak, s.peak-s.conn, s.sent)
			}
			s.peak = s.conn
		} else if _, ok := s.strm[w.Stream]; ok {
			s.strm[w.Stream] += int64(w.Inc)
			if s.strm[w.Stream] > 1<<31-1 {
				return "window-above-maximum stream", fmt.Sprintf("stream %d window pushed to %d", w.Stream, s.strm[w.Stream])
			}
		}
	}
	return "", ""
}

func (s *csender) send(id uint32, data []byte, es bool, pad int) (string, string) {
	n := int64(len(data))
	if pad >= 0 {
		n += int64(pad) + 1
	}
	if r, d := s.absorb(); r != "" {
		return r, d
	}
	if n > 0 && (s.conn < n || s.strm[id] < n) {
		which := "connection"
		if s.strm[id] < n && s.conn >= n {
			which = "stream"
		}
		return "sender-starved " + which, fmt.Sprintf("server wants to send %d flow-controlled bytes on stream %d: connection window %d, stream window %d, client quiescent (sent %d)", n, id, s.conn, s.strm[id], s.sent)
	}
	s.conn -= n
	s.strm[id] -= n
	s.sent += n
	s.h.Send(s.srv.Idx, peer.Data(id, data, es, pad))
	return "", ""
}

func c14cExec(cs c14cCase) (*fw.Violation, *harness.Client, int64) {
	h := harness.NewClient(harness.ClientOpts{MaxResponseTime: 1000000000})
	mk := func(rule, detail string) *fw.Violation {
		ev := h.EventLog
		if len(ev) > 10 {
			ev = append([]string{fmt.Sprintf("…%d earlier events…", len(ev)-10)}, ev[len(ev)-10:]...)
		}
		parts := strings.SplitN(rule, " ", 2)
		shape := "client " + cs.Class
		if len(parts) > 1 {
			shape += " " + parts[1]
		}
		return &fw.Violation{Rule: parts[0], Shape: shape, Detail: detail + "\n    last events: " + strings.Join(ev, " ; "), Replay: map[string]any{"family": "c14client", "case": cs}}
	}
	var s *csender
	reqN := 0
	open := func() (*harness.CCall, uint32, string) {
		reqN++
		call := h.Go(harness.ReqSpec{Tag: fmt.Sprint("d", reqN), Path: fmt.Sprint("/d", reqN)})
		if len(h.Conns) == 0 {
			return call, 0, "no connection"
		}
		srv := h.Conns[len(h.Conns)-1]
		if s == nil || s.srv != srv {
			s = &csender{h: h, srv: srv, conn: 65535, init: 65535, strm: map[uint32]int64{}}
			for _, st := range srv.Settings {
				for _, p := range st {
					if p.ID == peer.SInitialWindowSize {
						s.init = int64(p.Val)
					}
				}
			}
		}
		if len(srv.Order) == 0 {
			return call, 0, "request not sent"
		}
		id := srv.Order[len(srv.Order)-1]
		s.strm[id] = s.init
		h.Send(srv.Idx, srv.RespFrames(id, []ref.Field{{Name: ":status", Value: "200"}}, nil, nil, [][]byte{nil}, -1)[0])
		return call, id, ""
	}
	chunk := []byte(valOfLen(cs.Chunk))
	// enough volume for the client to refill its 1 MiB connection window at least twice
	var target int64 = 3 << 20
	if cs.Chunk < 1000 {
		target = 1200000
	}
	guard := 0
	for s == nil || s.sent < target {
		guard++
		if guard > 6000 {
			return mk("harness-horizon", "pattern did not reach the target volume"), h, 0
		}
		switch cs.Class {
		case "download", "padded-download":
			call, id, e := open()
			if e != "" {
				return mk("harness", e), h, 0
			}
			for i := 0; i < 40; i++ {
				if r, d := s.send(id, chunk, i == 39, cs.Pad); r != "" {
					return mk(r, d), h, s.sent
				}
			}
			if !call.Done || call.Err != nil || len(call.Body) != 40*len(chunk) {
				return mk("download-corrupted", fmt.Sprintf("download of %d bytes: done=%v err=%v got %d bytes", 40*len(chunk), call.Done, call.Err, len(call.Body))), h, s.sent
			}
		case "long-download-after-covering-goaway":
			// graceful shutdown: GOAWAY(NO_ERROR) covers the request in flight, whose (long) response the server
			// then delivers: connection and stream credit must keep coming until it is done
			call, id, e := open()
			if e != "" {
				return mk("harness", e), h, 0
			}
			for i := 0; i < 3; i++ {
				if r, d := s.send(id, chunk, false, cs.Pad); r != "" {
					return mk(r, d), h, s.sent
				}
			}
			h.Send(s.srv.Idx, peer.GoAway(id, 0, ""))
			n := 3
			for s.sent < target {
				if r, d := s.send(id, chunk, false, cs.Pad); r != "" {
					return mk(r+" after-goaway", d), h, s.sent
				}
				n++
			}
			if r, d := s.send(id, chunk, true, cs.Pad); r != "" {
				return mk(r+" after-goaway", d), h, s.sent
			}
			n++
			if !call.Done || call.Err != nil || len(call.Body) != n*len(chunk) {
				return mk("download-corrupted", fmt.Sprintf("download of %d bytes promised by GOAWAY(last-stream-id=%d): done=%v err=%v got %d bytes", n*len(chunk), id, call.Done, call.Err, len(call.Body))), h, s.sent
			}
			if len(h.S.Panics) > 0 {
				return mk("process-would-crash", strings.Join(h.S.Panics, "; ")), h, s.sent
			}
			return nil, h, s.sent
		case "padding-only-frames":
			call, id, e := open()
			if e != "" {
				return mk("harness", e), h, 0
			}
			// more padding on ONE stream than its window holds: it has to come back
			for i := 0; int64(i)*256 < 2*s.init+65536; i++ {
				if r, d := s.send(id, nil, false, 255); r != "" {
					return mk(r, d), h, s.sent
				}
			}
			if r, d := s.send(id, []byte("x"), true, cs.Pad); r != "" {
				return mk(r, d), h, s.sent
			}
			if !call.Done || call.Err != nil {
				return mk("download-corrupted", fmt.Sprintf("done=%v err=%v", call.Done, call.Err)), h, s.sent
			}
		case "empty-data-frames":
			_, id, e := open()
			if e != "" {
				return mk("harness", e), h, 0
			}
			for i := 0; i < 20; i++ {
				if r, d := s.send(id, nil, false, -1); r != "" {
					return mk(r, d), h, s.sent
				}
				if r, d := s.send(id, chunk, false, cs.Pad); r != "" {
					return mk(r, d), h, s.sent
				}
			}
			if r, d := s.send(id, nil, true, -1); r != "" {
				return mk(r, d), h, s.sent
			}
		case "timed-out-request-data-in-flight":
			call, id, e := open()
			if e != "" {
				return mk("harness", e), h, 0
			}
			for i := 0; i < 5; i++ {
				if r, d := s.send(id, chunk, false, cs.Pad); r != "" {
					return mk(r, d), h, s.sent
				}
			}
			h.FireTimer("client.go") // the request's MaxResponseTime
			if !call.Done {
				return mk("request-never-resolved", "request did not end when its timeout fired"), h, s.sent
			}
			// DATA that was already on its way when the client gave up
			for i := 0; i < 20; i++ {
				if len(s.srv.Streams[id].Rst) > 0 && i > 10 {
					break
				}
				if r, d := s.send(id, chunk, false, cs.Pad); r != "" {
					if strings.HasPrefix(r, "sender-starved stream") {
						break // the stream is gone for the client; only the connection window must recover
					}
					return mk(r, d), h, s.sent
				}
			}
		case "data-only-for-abandoned-requests":
			// every request is given up before its first DATA frame arrives: all the DATA the client ever sees
			// is for requests that have gone, and the connection window still has to come back
			call, id, e := open()
			if e != "" {
				return mk("harness", e), h, 0
			}
			h.FireTimer("client.go")
			if !call.Done {
				return mk("request-never-resolved", "request did not end when its timeout fired"), h, s.sent
			}
			for i := 0; i < 3; i++ {
				if r, d := s.send(id, chunk, false, cs.Pad); r != "" {
					if strings.HasPrefix(r, "sender-starved stream") {
						break
					}
					return mk(r, d), h, s.sent
				}
			}
		case "reset-by-server-mid-body":
			_, id, e := open()
			if e != "" {
				return mk("harness", e), h, 0
			}
			for i := 0; i < 10; i++ {
				if r, d := s.send(id, chunk, false, cs.Pad); r != "" {
					return mk(r, d), h, s.sent
				}
			}
			h.Send(s.srv.Idx, peer.RstStream(id, 2))
		case "two-streams-interleaved":
			c1, id1, e := open()
			if e != "" {
				return mk("harness", e), h, 0
			}
			c2, id2, e := open()
			if e != "" {
				return mk("harness", e), h, 0
			}
			for i := 0; i < 30; i++ {
				if r, d := s.send(id1, chunk, i == 29, cs.Pad); r != "" {
					return mk(r, d), h, s.sent
				}
				if r, d := s.send(id2, chunk, i == 29, -1); r != "" {
					return mk(r, d), h, s.sent
				}
			}
			if !c1.Done || !c2.Done || c1.Err != nil || c2.Err != nil {
				return mk("download-corrupted", fmt.Sprintf("done=%v/%v err=%v/%v", c1.Done, c2.Done, c1.Err, c2.Err)), h, s.sent
			}
		}
		if s.srv.C.Closed() || len(s.srv.GoAways) > 0 {
			return mk("client-dropped-connection", fmt.Sprintf("conforming download traffic made the client close the connection (GOAWAY %v)", s.srv.GoAways)), h, s.sent
		}
	}
	if r, d := s.absorb(); r != "" {
		return mk(r, d), h, s.sent
	}
	if len(h.S.Panics) > 0 {
		return mk("process-would-crash", strings.Join(h.S.Panics, "; ")), h, s.sent
	}
	return nil, h, s.sent
}

func init() {
	runC14Client = func(c *fw.Ctx) {
		var item int64 = 1000
		chunks := []int{1000, 16384}
		pads := []int{-1, 255}
		if c.Tier == "thorough" {
			chunks = []int{100, 1000, 16383, 16384}
			pads = []int{-1, 0, 1, 255}
		}
		for _, cl := range c14cClasses {
			for _, ch := range chunks {
				for _, pad := range pads {
					if cl == "download" && pad >= 0 || cl == "padded-download" && pad < 0 {
						continue
					}
					if pad >= 0 && ch+pad+1 > 16384 {
						continue
					}
					if item++; !c.Mine(item) {
						continue
					}
					if c.Expired("C14 client") {
						return
					}
					cs := c14cCase{Class: cl, Chunk: ch, Pad: pad}
					v, h, sent := c14cExec(cs)
					js, _ := json.Marshal(cs)
					c.Eval(nt(true, append([]byte("client"), js...)))
					c.AddTransitions(int64(h.Events))
					c.AddTraces(1)
					c.State(fw.Hash("c14c", cs, sent))
					if v != nil {
						c.Violate(*v)
						c.Outcome(v.Rule)
					} else {
						c.Outcome("never-starved:" + cs.Class)
					}
					h.Close()
				}
			}
		}
		c.Family("client-receiver")
	}
	replayC14Client = func(raw json.RawMessage) (string, bool) {
		var cs c14cCase
		json.Unmarshal(raw, &cs)
		v, h, sent := c14cExec(cs)
		defer h.Close()
		if v != nil {
			return v.Rule + " [" + v.Shape + "]: " + v.Detail, true
		}
		return fmt.Sprintf("server never starved over %d bytes", sent), false
	}
}
