package checks

import (
	"encoding/json"
	"fmt"
	"strings"

	"verif/fw"
	"verif/harness"
	"verif/peer"
	"verif/ref"
	"verif/vsched"
)

// C07, family "history": the mirror image of C06's. One client connection carries a long run of uploads (sizes
// around every boundary, buffered and streamed) to a scripted server that keeps the authoritative ledger of the
// windows it has granted, hands credit back in one of several rhythms and changes SETTINGS_INITIAL_WINDOW_SIZE
// every few requests (below what open streams have used, up again). Oracle at every quiescent state: C07's own —
// no DATA beyond either window, no frame above 16384, an upload with bytes left and both windows positive is
// being sent, END_STREAM arrives exactly once and the body is the one the caller gave.

type c07HistCase struct {
	N       int    `json:"uploads"`
	InitWin uint32 `json:"init_window"`
	Grant   string `json:"grant_rhythm"`
	Retune  int    `json:"settings_change_every"`
	Two     bool   `json:"two_at_a_time"`
}

func c07HistRun(cs c07HistCase) (*fw.Violation, *harness.Client) {
	h := harness.NewClient(harness.ClientOpts{ServerSettings: []peer.Setting{{ID: peer.SInitialWindowSize, Val: cs.InitWin}}})
	l := newLedger(cs.InitWin)
	seen := 0
	mk := func(rule, shape, detail string) *fw.Violation {
		ev := h.EventLog
		if len(ev) > 10 {
			ev = append([]string{fmt.Sprintf("…%d events…", len(ev)-10)}, ev[len(ev)-10:]...)
		}
		return &fw.Violation{Rule: rule, Shape: "history " + shape, Detail: detail + "\n    events: " + strings.Join(ev, " ; "), Replay: map[string]any{"family": "c07hist", "case": cs}}
	}
	var srv *harness.SrvConn
	account := func() *fw.Violation {
		if srv == nil {
			return nil
		}
		for ; seen < len(srv.Out); seen++ {
			f := srv.Out[seen]
			if f.Type != peer.TData {
				continue
			}
			n := int64(len(f.Payload))
			if n > 16384 {
				return mk("frame-above-max-frame-size", "frame", fmt.Sprintf("DATA frame of %d bytes on stream %d", n, f.Stream))
			}
			sw, ok := l.stream[f.Stream]
			if !ok {
				continue
			}
			if n > 0 && (sw < n || l.conn < n) {
				which := "stream"
				if l.conn < n {
					which = "connection"
				}
				return mk("window-exceeded", which, fmt.Sprintf("DATA of %d bytes on stream %d with stream window %d and connection window %d", n, f.Stream, sw, l.conn))
			}
			l.stream[f.Stream] -= n
			l.conn -= n
			l.sent[f.Stream] += int(n)
		}
		return nil
	}
	w := int(cs.InitWin)
	sizes := []int{1, 100, 16384, 16385, max(w-1, 1), w, w + 1, 2*w + 7, 40000, 3}
	wins := []uint32{cs.InitWin, cs.InitWin / 2, 0, cs.InitWin * 2, 1, cs.InitWin}
	retunes := 0
	per := 1
	if cs.Two {
		per = 2
	}
	opened := 0
	for i := 0; i < cs.N; i += per {
		type up struct {
			id   uint32
			body []byte
			call *harness.CCall
		}
		var ups []up
		for k := 0; k < per && i+k < cs.N; k++ {
			body := c01UploadBody(i+k, sizes[(i+k)%len(sizes)])
			spec := harness.ReqSpec{Tag: fmt.Sprint("u", i+k), Method: "POST", Path: fmt.Sprint("/u/", i+k), Body: body}
			switch (i + k) % 4 {
			case 1:
				spec.Body, spec.Stream, spec.Declared = nil, [][]byte{body[:len(body)/2], body[len(body)/2:]}, len(body)
			case 2:
				spec.Body, spec.Stream, spec.Declared = nil, [][]byte{body}, -1
			case 3:
				spec.Body, spec.Stream, spec.Declared, spec.EOFWithLast = nil, [][]byte{body[:len(body)/3], body[len(body)/3:]}, -1, true
			}
			call := h.Go(spec)
			if len(h.Conns) != 1 {
				return mk("unexpected-dials", "setup", fmt.Sprintf("upload %d: %d connections", i+k, len(h.Conns))), h
			}
			srv = h.Conns[0]
			if len(srv.Order) != opened+1 {
				return mk("request-not-sent", "setup", fmt.Sprintf("upload %d: the server has seen %d streams (closed=%v goaway=%v)", i+k, len(srv.Order), srv.C.Closed(), srv.GoAways)), h
			}
			id := srv.Order[opened]
			opened++
			l.open(id)
			ups = append(ups, up{id, body, call})
		}
		if v := account(); v != nil {
			return v, h
		}
		if cs.Retune > 0 && (i/per)%cs.Retune == cs.Retune-1 {
			retunes++
			v := wins[retunes%len(wins)]
			h.Send(0, peer.Settings(peer.Setting{ID: peer.SInitialWindowSize, Val: v}))
			l.settings(v)
		}
		for guard := 0; ; guard++ {
			if v := account(); v != nil {
				return v, h
			}
			if srv.C.Closed() || len(srv.GoAways) > 0 {
				return mk("client-dropped-connection", "conn", fmt.Sprintf("upload %d: the client ended the connection (GOAWAY %v)", i, srv.GoAways)), h
			}
			pending := false
			for _, u := range ups {
				st := srv.Streams[u.id]
				left := len(u.body) - l.sent[u.id]
				ended := st != nil && st.EndStream > 0
				if ended && st.EndStream > 1 {
					return mk("end-stream-twice", "end", fmt.Sprintf("stream %d: END_STREAM %d times", u.id, st.EndStream)), h
				}
				if ended && (left != 0 || string(st.Data) != string(u.body)) {
					return mk("request-not-intact", "body", fmt.Sprintf("stream %d ended after %d of %d bytes (or with other bytes)", u.id, l.sent[u.id], len(u.body))), h
				}
				if ended {
					continue
				}
				pending = true
				if left > 0 && l.stream[u.id] > 0 && l.conn > 0 {
					return mk("stuck-with-open-windows", "stuck", fmt.Sprintf("upload %d: stream %d has %d unsent bytes, stream window %d, connection window %d, and nothing more is sent", i, u.id, left, l.stream[u.id], l.conn)), h
				}
				if left == 0 {
					return mk("stuck-with-open-windows", "end-stream-missing", fmt.Sprintf("upload %d: all %d bytes of stream %d sent but END_STREAM never arrived", i, len(u.body), u.id)), h
				}
				need := int64(left)
				sNeed, cNeed := need-l.stream[u.id], need-l.conn
				switch cs.Grant {
				case "small":
					sNeed, cNeed = min(sNeed, 1000), min(cNeed, 700)
				case "stream-first":
					if sNeed > 0 {
						cNeed = 0
					}
				case "connection-ahead":
					if cNeed > 0 {
						cNeed += 100000
					}
				}
				if sNeed > 0 {
					h.Send(0, peer.WindowUpdate(u.id, uint32(sNeed)))
					l.stream[u.id] += sNeed
				}
				if cNeed > 0 {
					h.Send(0, peer.WindowUpdate(0, uint32(cNeed)))
					l.conn += cNeed
				}
				break
			}
			if !pending {
				break
			}
			if guard > 2000 {
				return mk("harness-horizon", "guard", "upload did not complete within 2000 grants"), h
			}
		}
		for _, u := range ups {
			h.Send(0, srv.RespFrames(u.id, []ref.Field{{Name: ":status", Value: "200"}}, func(int) ref.EncChoice { return ref.EncChoice{Rep: ref.RepWithout} }, nil, [][]byte{[]byte("ok")}, -1)...)
			if !u.call.Done || u.call.Err != nil || u.call.Status != 200 {
				return mk("response-not-delivered", "answer", fmt.Sprintf("stream %d answered 200 after the complete upload: done=%v err=%v status=%d", u.id, u.call.Done, u.call.Err, u.call.Status)), h
			}
		}
		if l.conn > 1<<30 {
			break
		}
	}
	if len(h.S.Panics) > 0 {
		return mk("process-would-crash", "panic", strings.Join(h.S.Panics, "; ")), h
	}
	return nil, h
}

func runC07Hist(c *fw.Ctx) {
	if vsched.DefaultPolicy != 0 {
		return
	}
	n := 40
	if c.Tier == "thorough" {
		n = 200
	}
	i := 0
	for _, win := range []uint32{65535, 20000, 100} {
		for _, g := range []string{"exact", "small", "stream-first", "connection-ahead"} {
			for _, rt := range []int{0, 3} {
				for _, two := range []bool{false, true} {
					i++
					if !c.Mine(int64(1)<<46 + int64(i)) {
						continue
					}
					if c.Expired("C07 history") {
						return
					}
					cs := c07HistCase{N: n, InitWin: win, Grant: g, Retune: rt, Two: two}
					v, h := c07HistRun(cs)
					js, _ := json.Marshal(cs)
					c.Eval(nt(true, append([]byte("hist"), js...)))
					c.AddTransitions(int64(h.Events))
					c.AddTraces(1)
					c.State(fw.Hash(h.Digest()))
					if v != nil {
						c.Violate(*v)
						c.Outcome(v.Rule)
					} else {
						c.Outcome("within-windows-and-finished:history")
					}
					h.Close()
				}
			}
		}
	}
	c.Family("history")
}

func replayC07Hist(raw json.RawMessage) (string, bool) {
	var r struct {
		Case c07HistCase `json:"case"`
	}
	if err := json.Unmarshal(raw, &r); err != nil {
		return err.Error(), false
	}
	v, h := c07HistRun(r.Case)
	defer h.Close()
	if v != nil {
		return v.Rule + " [" + v.Shape + "]: " + v.Detail, true
	}
	return "every upload within the windows and finished", false
}
