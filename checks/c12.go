package checks

import (
	"encoding/json"
	"fmt"
	"strings"

	"github.com/dgrr/http2"

	"verif/fw"
	"verif/harness"
	"verif/peer"
	"verif/ref"
)

// C12 — every client request resolves exactly once, whatever the server does.

func init() {
	fw.Register(&fw.Check{
		ID: "C12", Level: "model_checking",
		Rule:   "ELX fault enumeration on the real Client: a recorded server byte stream answering 2 requests (SETTINGS, header blocks with CONTINUATION, padded DATA, WINDOW_UPDATE, PING, trailers-less END_STREAM) cut at EVERY byte offset; every single structural mutation of it (delete / duplicate / swap frames, each flag bit, each type 0..10, stream id 0/+2/-2/even, length +-1); scripted hostile behaviours (RST_STREAM, GOAWAY, oversized frame, garbage, PUSH_PROMISE, silence until the virtual MaxResponseTime, a late response after the timeout followed by another exchange); the client's k-th transport Write failing for every k; Client.Close at every point. Then virtual timers fire until nothing is pending. Oracle: every RoundTrip returns exactly once; a success carries exactly the status and body the (faulted) script completed on that stream with END_STREAM, never a truncated one; no unrecovered panic; after the connection died or Close, no managed goroutine of it is alive and its queues are empty. Non-trivial: every faulted scenario; distinct by scenario.",
		Assume: []string{"'within its configured timeout' = after the request's virtual MaxResponseTime timer (and the ping ticker) have been allowed to fire", "Close racing Write at lock granularity is explored with preemptions in C19"},
		Run:    runC12, Replay: replayC12, Policies: 1, QuickS: 200, ThoroughS: 900,
	})
}

type c12Case struct {
	Family string `json:"family"` // cut | mutate | hostile | writefail | close
	Cut    int    `json:"cut,omitempty"`
	Mut    string `json:"mutation,omitempty"`
	Name   string `json:"name,omitempty"`
	K      int    `json:"k,omitempty"`
	// NoTimeout: MaxResponseTime disabled, so only the death of the connection (or Close) can end a request
	NoTimeout bool `json:"no_timeout,omitempty"`
	// Streamed: request bodies are given with SetBodyStream (declared length for the large one, unknown for the small one)
	Streamed bool `json:"streamed,omitempty"`
}

// c12Upload is a POST with the given body, buffered or streamed.
func c12Upload(tag, path string, body []byte, streamed bool) harness.ReqSpec {
	r := harness.ReqSpec{Tag: tag, Method: "POST", Path: path}
	if !streamed {
		r.Body = body
		return r
	}
	if len(body) > 16384 {
		r.Stream, r.Declared = [][]byte{body[:16384], body[16384:]}, len(body)
	} else {
		r.Stream, r.Declared = [][]byte{body}, -1
	}
	return r
}

// c12Script is the recorded server conversation for requests on streams 1 and 3.
func c12Script(enc *harness.PeerEncoder) []peer.Frame { return c12ScriptFor(enc, 1, 3) }

// c12ScriptFor is the conversation for the two requests on the stream ids the
// client actually chose (any fresh odd increasing ids are legal).
func c12ScriptFor(enc *harness.PeerEncoder, s1, s3 uint32) []peer.Frame {
	fs := c12ScriptRaw(enc)
	for i := range fs {
		switch fs[i].Stream {
		case 1:
			fs[i].Stream = s1
		case 3:
			fs[i].Stream = s3
		}
	}
	return fs
}

func c12ScriptRaw(enc *harness.PeerEncoder) []peer.Frame {
	b1 := enc.Block([]ref.Field{{Name: ":status", Value: "200"}, {Name: "x-tag", Value: "one"}, {Name: "content-length", Value: "11"}}, nil)
	b3 := enc.Block([]ref.Field{{Name: ":status", Value: "404"}, {Name: "x-tag", Value: "three"}, {Name: "x-common", Value: "c"}}, nil)
	return []peer.Frame{
		peer.Headers(1, b1[:5], peer.HeadersOpt{Pad: -1}),
		peer.Continuation(1, b1[5:], true),
		peer.Data(1, []byte("hello"), false, -1),
		peer.Ping(false, [8]byte{7}),
		peer.Headers(3, b3, peer.HeadersOpt{EndHeaders: true, Pad: -1}),
		peer.WindowUpdate(0, 100),
		peer.Data(3, []byte("not"), false, 4),
		peer.Data(1, []byte(" world"), true, -1),
		peer.WindowUpdate(3, 10),
		peer.Data(3, []byte(" found"), false, -1),
		peer.Data(3, nil, true, -1),
	}
}

// expected computes, from the bytes actually delivered, what each stream completed with.
type c12Done struct {
	complete bool
	body     []byte
}

func c12Expected(delivered []byte, s1, s3 uint32) map[uint32]*c12Done {
	out := map[uint32]*c12Done{s1: {}, s3: {}}
	frames, _ := peer.Parse(delivered)
	for _, f := range frames {
		d := out[f.Stream]
		if d == nil || d.complete {
			continue
		}
		sem, err := peer.SemOf(f)
		if err != nil {
			continue
		}
		switch f.Type {
		case peer.TData:
			d.body = append(d.body, sem.Body...)
			if sem.EndStream {
				d.complete = true
			}
		case peer.THeaders:
			if sem.EndStream {
				d.complete = true
			}
		}
	}
	return out
}

func c12Exec(cs c12Case) (*fw.Violation, *harness.Client) {
	opts := harness.ClientOpts{MaxResponseTime: 1000000000}
	if cs.NoTimeout {
		opts.MaxResponseTime = -1
	}
	h := harness.NewClient(opts)
	mk := func(rule, shape, detail string) *fw.Violation {
		ev := h.EventLog
		if len(ev) > 16 {
			ev = append([]string{fmt.Sprintf("…%d events…", len(ev)-16)}, ev[len(ev)-16:]...)
		}
		return &fw.Violation{Rule: rule, Shape: shape, Detail: detail + "\n    events: " + strings.Join(ev, " ; ") + fmt.Sprintf("\n    live: %v", h.S.Live()), Replay: map[string]any{"family": "c12", "case": cs}}
	}
	if cs.Family == "writefail" {
		// the k-th Write on the client's transport fails (counted from the first byte of the preface)
		c0 := h.Go(harness.ReqSpec{Tag: "probe", Path: "/probe"})
		_ = c0
	}
	var calls []*harness.CCall
	if cs.Family != "writefail" {
		calls = append(calls, h.Go(harness.ReqSpec{Tag: "one", Method: "GET", Path: "/one"}))
		calls = append(calls, h.Go(c12Upload("three", "/three", []byte("upload"), cs.Streamed)))
	}
	// the ids the client chose for the two requests (1 and 3 unless it allocates differently)
	s1, s3 := uint32(1), uint32(3)
	ids := func() {
		if len(h.Conns) > 0 && len(h.Conns[0].Order) >= 2 {
			s1, s3 = h.Conns[0].Order[0], h.Conns[0].Order[1]
		}
	}
	ids()
	c12Script := func(enc *harness.PeerEncoder) []peer.Frame { return c12ScriptFor(enc, s1, s3) }
	shape := cs.Family
	var delivered []byte
	feed := func(b []byte) {
		for len(b) > 0 {
			n := len(b)
			if len(b) >= 9 {
				l := 9 + (int(b[0])<<16 | int(b[1])<<8 | int(b[2]))
				if l < n {
					n = l
				}
			}
			if len(h.Conns) == 0 {
				return
			}
			h.SendRaw(0, b[:n])
			delivered = append(delivered, b[:n]...)
			b = b[n:]
		}
	}
	closedByScript := false
	switch cs.Family {
	case "cut":
		all := serialize(c12Script(h.Conns[0].Enc))
		feed(all[:cs.Cut])
		h.ServerClose(0)
		closedByScript = true
		off, pos := cs.Cut, 0
		shape = "cut-at-frame-boundary"
		for _, f := range c12Script(harness.NewPeerEncoder()) {
			l := 9 + len(f.Payload)
			if off > pos && off < pos+l {
				where := "payload"
				if off < pos+9 {
					where = "header"
				}
				shape = "cut-inside-" + peer.TypeName(f.Type) + "-" + where
			}
			pos += l
		}
	case "mutate":
		feed(c17Mutate(c12Script(h.Conns[0].Enc), cs.Mut))
		shape = "mutate-" + strings.Fields(cs.Mut)[0]
	case "hostile":
		shape = "hostile-" + cs.Name
		srv := h.Conns[0]
		script := c12Script(srv.Enc)
		switch cs.Name {
		case "rst-one":
			feed(serialize([]peer.Frame{script[0], script[1], peer.RstStream(s1, 2)}))
			feed(serialize(script[4:7]))
			feed(serialize(script[8:]))
		case "rst-refused":
			feed(peer.RstStream(s3, 7).Bytes())
			feed(serialize([]peer.Frame{script[0], script[1], script[2], script[7]}))
		case "goaway-0":
			feed(peer.GoAway(0, 0, "").Bytes())
		case "goaway-1-then-finish":
			feed(peer.GoAway(s1, 0, "").Bytes())
			feed(serialize([]peer.Frame{script[0], script[1], script[2], script[7]}))
		case "many-callers-behind-stalled-write", "many-callers-then-close":
			// the server stops reading; 140 more requests are handed to the connection (more than its queues hold);
			// then the server goes away (or the user closes the client): every one of them must be resolved
			h.ServerStall(0)
			for i := 0; i < 140; i++ {
				calls = append(calls, h.Go(harness.ReqSpec{Tag: fmt.Sprint("q", i), Method: "GET", Path: fmt.Sprint("/q", i)}))
			}
			if cs.Name == "many-callers-then-close" {
				h.CloseClient()
			}
			h.Conns[0].Stalled = false
			h.ServerClose(0)
		case "rst-no-error-mid-response", "rst-cancel-mid-response":
			// the response head and part of the body have arrived (content-length 11, 5 octets so far) when the
			// server resets the stream, with NO_ERROR or with CANCEL: the response is incomplete either way, and
			// the caller must be told so
			feed(serialize(script[:3]))
			code := uint32(0)
			if cs.Name == "rst-cancel-mid-response" {
				code = 8
			}
			feed(peer.RstStream(s1, code).Bytes())
			if calls[0].Done && calls[0].Err == nil {
				return mk("success-without-complete-response", shape, fmt.Sprintf("request %q reported success (status %d, body %q) although its stream was reset after 5 of the 11 octets the response declared, before END_STREAM", calls[0].Tag, calls[0].Status, calls[0].Body)), h
			}
			feed(serialize(script[4:7]))
			feed(serialize(script[8:]))
		case "goaway-two-step-then-finish":
			// graceful shutdown as RFC 7540 6.8 describes it: an announcing GOAWAY(2^31-1), then the real one naming
			// the first request, which is then answered. The second request is disclaimed by the second GOAWAY: it
			// ends there and then, without any timer, and the connection does not wait for it
			feed(peer.GoAway(1<<31-1, 0, "").Bytes())
			feed(peer.GoAway(s1, 0, "").Bytes())
			moved := false
			for _, sc := range h.Conns[1:] {
				for _, sid := range sc.Order {
					for _, kv := range sc.Streams[sid].Fields {
						moved = moved || (kv[0] == ":path" && kv[1] == "/three")
					}
				}
			}
			if !calls[1].Done && !moved {
				return mk("request-never-resolved", shape, fmt.Sprintf("request %q on stream %d, above the last-stream-id %d of the second GOAWAY, is still waiting on that connection (no timer has fired; it has not been sent anywhere else)", calls[1].Tag, s3, s1)), h
			}
			feed(serialize([]peer.Frame{script[0], script[1], script[2], script[7]}))
			if !calls[0].Done {
				return mk("request-never-resolved", shape, fmt.Sprintf("request %q on stream %d (<= last-stream-id) was answered in full and is still waiting", calls[0].Tag, s1)), h
			}
		case "goaway-error-mid-response":
			feed(serialize(script[:3]))
			feed(peer.GoAway(s3, 2, "internal").Bytes())
		case "oversized-frame":
			feed(peer.RawHeader(1<<20, peer.TData, 0, s1))
			feed(make([]byte, 4096))
		case "garbage":
			feed([]byte("HTTP/1.1 400 Bad Request\r\nContent-Length: 0\r\n\r\n"))
		case "push-promise":
			feed(peer.Frame{Type: peer.TPushPromise, Stream: s1, Flags: peer.FEndHeaders, Payload: []byte{0, 0, 0, 2, 0x82}}.Bytes())
		case "goaway-covering-then-new-connection-then-close":
			// graceful rotation: GOAWAY covers both requests in flight and the server keeps the connection open
			// without answering yet; the next request needs a new connection; then the user closes the client:
			// Close must end what is in flight on the old connection too, and nothing of either may be left
			feed(peer.GoAway(s3, 0, "").Bytes())
			c3 := h.Go(harness.ReqSpec{Tag: "five", Method: "GET", Path: "/five"})
			calls = append(calls, c3)
			sc := h.Conns[len(h.Conns)-1]
			if sc.Idx == 0 {
				return mk("stream-opened-after-goaway", shape, "a request issued after GOAWAY did not go to a new connection"), h
			}
			if len(sc.Order) > 0 {
				h.Send(sc.Idx, sc.RespFrames(sc.Order[0], []ref.Field{{Name: ":status", Value: "200"}}, nil, nil, [][]byte{[]byte("five-body")}, -1)...)
			}
			if !c3.Done || c3.Err != nil || string(c3.Body) != "five-body" {
				return mk("request-on-new-connection-not-served", shape, fmt.Sprintf("after GOAWAY on the first connection, a new request answered on the second gave done=%v err=%v body=%q", c3.Done, c3.Err, c3.Body)), h
			}
			h.CloseClient()
			for _, c := range calls {
				if !c.Done {
					return mk("close-leaves-request-unresolved", shape, fmt.Sprintf("request %q, in flight on the connection the server said GOAWAY on, is still unresolved after Client.Close returned", c.Tag)), h
				}
			}
			if live := h.S.LiveNames(); len(live) > 0 {
				return mk("goroutine-left-behind", shape+" "+live[0], fmt.Sprintf("after Client.Close: %v still alive", live)), h
			}
		case "silence":
			// nothing: only the timers can end the requests
		case "late-response-after-timeout":
			// both requests time out; the responses arrive afterwards; then a new exchange on the same connection
			h.FireTimer("client.go")
			h.FireTimer("client.go")
			feed(serialize(script))
			c3 := h.Go(harness.ReqSpec{Tag: "five", Method: "GET", Path: "/five"})
			calls = append(calls, c3)
			sc := h.Conns[len(h.Conns)-1]
			var id uint32
			for _, sid := range sc.Order {
				for _, kv := range sc.Streams[sid].Fields {
					if kv[0] == ":path" && kv[1] == "/five" {
						id = sid
					}
				}
			}
			if id != 0 {
				// the answer leans on the dynamic table entries of the late responses
				fr := sc.RespFrames(id, []ref.Field{{Name: ":status", Value: "200"}, {Name: "x-tag", Value: "three"}, {Name: "x-common", Value: "c"}}, func(int) ref.EncChoice { return ref.EncChoice{Rep: ref.RepIndexed} }, nil, [][]byte{[]byte("five-body")}, -1)
				h.Send(sc.Idx, fr...)
				if !c3.Done || c3.Err != nil || string(c3.Body) != "five-body" {
					return mk("later-exchange-corrupted", shape, fmt.Sprintf("after two requests timed out and their responses arrived late, a new request answered with (200, x-tag: three, %q) gave done=%v err=%v status=%d body=%q headers=%v", "five-body", c3.Done, c3.Err, c3.Status, c3.Body, c3.Headers)), h
				}
			}
		case "early-response-to-blocked-upload", "early-reset-of-blocked-upload":
			// a third request whose body is larger than the stream window: part of it waits for credit
			// when the server answers (or resets) the stream without reading the rest (RFC 7540 8.1)
			c3 := h.Go(c12Upload("big", "/big", []byte(valOfLen(100000)), cs.Streamed))
			calls = append(calls, c3)
			sc := h.Conns[len(h.Conns)-1]
			var id uint32
			for _, sid := range sc.Order {
				for _, kv := range sc.Streams[sid].Fields {
					if kv[0] == ":path" && kv[1] == "/big" {
						id = sid
					}
				}
			}
			if id != 0 {
				if cs.Name == "early-reset-of-blocked-upload" {
					h.Send(sc.Idx, peer.RstStream(id, 0))
				} else {
					h.Send(sc.Idx, sc.RespFrames(id, []ref.Field{{Name: ":status", Value: "413"}}, nil, nil, nil, -1)...)
					if !c3.Done || c3.Err != nil || c3.Status != 413 {
						return mk("early-response-not-delivered", shape, fmt.Sprintf("upload of 100000 bytes blocked on the stream window, server answered 413 with END_STREAM: done=%v err=%v status=%d", c3.Done, c3.Err, c3.Status)), h
					}
				}
			}
			feed(serialize(script))
		case "window-update-overflow":
			feed(peer.WindowUpdate(0, 1<<31-1).Bytes())
			feed(peer.WindowUpdate(0, 1<<31-1).Bytes())
			feed(serialize(script))
		case "settings-invalid":
			feed(peer.Settings(peer.Setting{ID: peer.SEnablePush, Val: 7}).Bytes())
			feed(serialize(script))
		case "headers-on-unknown-stream":
			feed(peer.Headers(s3+6, []byte{0x88}, peer.HeadersOpt{EndStream: true, EndHeaders: true, Pad: -1}).Bytes())
			feed(serialize(script))
		case "data-before-headers":
			feed(peer.Data(s1, []byte("x"), false, -1).Bytes())
			feed(serialize(script))
		case "not-reading-ping-flood", "not-reading-settings-flood":
			// the server stops reading and keeps sending frames each of which is owed an acknowledgement: more of
			// them than the client's outgoing queue holds; only the request timeouts can end the requests
			h.ServerStall(0)
			for i := 0; i < 140; i++ {
				if cs.Name == "not-reading-ping-flood" {
					feed(peer.Ping(false, [8]byte{byte(i)}).Bytes())
				} else {
					feed(peer.Settings(peer.Setting{ID: peer.SMaxConcurrentStreams, Val: uint32(100 + i)}).Bytes())
				}
			}
		case "ping-flood":
			for i := 0; i < 40; i++ {
				feed(peer.Ping(false, [8]byte{byte(i)}).Bytes())
			}
			feed(serialize(script))
		}
	case "writefail":
		// rebuilt below: a fresh client whose transport fails at the k-th write
		h.Close()
		h = harness.NewClient(opts)
		calls = nil
		first := h.Go(c12Upload("one", "/one", []byte(valOfLen(40000)), cs.Streamed))
		calls = append(calls, first)
		if len(h.Conns) > 0 {
			h.Conns[0].C.WriteFailAt = h.Conns[0].C.BytesWritten*0 + cs.K
		}
		calls = append(calls, h.Go(c12Upload("three", "/three", []byte("upload"), cs.Streamed)))
		ids()
		if len(h.Conns) > 0 {
			h.Send(0, peer.WindowUpdate(0, 100000), peer.WindowUpdate(s1, 100000))
			feed(serialize(c12Script(h.Conns[0].Enc)))
		}
		shape = "client-write-fails"
	case "close":
		script := c12Script(h.Conns[0].Enc)
		feed(serialize(script[:cs.K]))
		h.CloseClient()
		feed(serialize(script[cs.K:]))
		shape = "client-close"
	case "close-stalled":
		// the server stops reading, then the user closes the client and issues one more request
		script := c12Script(h.Conns[0].Enc)
		feed(serialize(script[:cs.K]))
		h.ServerStall(0)
		h.CloseClient()
		calls = append(calls, h.Go(harness.ReqSpec{Tag: "after-close", Method: "GET", Path: "/after"}))
		shape = "client-close-server-not-reading"
	case "stalled":
		// the server stops reading while requests keep coming, then goes away
		script := c12Script(h.Conns[0].Enc)
		feed(serialize(script[:cs.K]))
		h.ServerStall(0)
		for i := 0; i < 3; i++ {
			calls = append(calls, h.Go(c12Upload(fmt.Sprint("stalled", i), "/stalled", []byte("upload"), cs.Streamed)))
		}
		h.ServerClose(0)
		shape = "server-not-reading-then-gone"
	case "stalled-timeout":
		// as above, but the request timeouts fire while the writes are still held up, and only then does the
		// server go away: the timer goroutines and the failing write loop meet on the same requests
		script := c12Script(h.Conns[0].Enc)
		feed(serialize(script[:cs.K]))
		h.ServerStall(0)
		for i := 0; i < 2; i++ {
			calls = append(calls, h.Go(c12Upload(fmt.Sprint("stalled", i), "/stalled", []byte("upload"), cs.Streamed)))
		}
		for i := 0; i < 6; i++ {
			if !h.FireTimer("client.go") {
				break
			}
		}
		h.ServerClose(0)
		shape = "server-not-reading-timeouts-then-gone"
	}
	// let every timer that can end a request fire
	for i := 0; i < 40; i++ {
		pending := false
		for _, c := range calls {
			pending = pending || !c.Done
		}
		if !pending {
			break
		}
		if !h.FireTimer("") {
			break
		}
	}
	if len(h.S.Panics) > 0 {
		return mk("process-would-crash", shape, strings.Join(h.S.Panics, "; ")), h
	}
	want := c12Expected(delivered, s1, s3)
	for i, c := range calls {
		if !c.Done {
			return mk("request-never-resolved", shape, fmt.Sprintf("request %q: RoundTrip has not returned although every armed timer was allowed to fire", c.Tag)), h
		}
		if c.Resolved != 1 {
			return mk("resolved-more-than-once", shape, fmt.Sprintf("request %q: RoundTrip returned %d times", c.Tag, c.Resolved)), h
		}
		if c.Err == nil && i < 2 && (cs.Family == "cut" || cs.Family == "mutate" || cs.Family == "close") {
			d := want[[]uint32{s1, s3}[i]]
			if cs.Family != "mutate" && !d.complete {
				return mk("success-without-complete-response", shape, fmt.Sprintf("request %q reported success (status %d, body %q) but its response never reached END_STREAM on the wire", c.Tag, c.Status, c.Body)), h
			}
			if cs.Family != "mutate" && string(c.Body) != string(d.body) {
				return mk("success-with-wrong-body", shape, fmt.Sprintf("request %q reported success with body %q; the server sent %q before END_STREAM", c.Tag, c.Body, d.body)), h
			}
		}
		_ = closedByScript
	}
	// tear down: afterwards nothing of the connection may be left
	h.CloseClient()
	for i := 0; i < 6 && len(h.S.LiveNames()) > 0; i++ {
		if !h.FireTimer("") {
			break
		}
	}
	for i, sc := range h.Conns {
		if sc.Stalled {
			// the server goes away without ever reading again: the blocked write fails and Close returns
			sc.Stalled = false
			h.ServerClose(i)
		}
	}
	if live := h.S.LiveNames(); len(live) > 0 {
		return mk("goroutine-left-behind", shape+" "+live[0], fmt.Sprintf("after Client.Close: %v still alive", live)), h
	}
	for _, conn := range http2.VerifClientConns(h.Cl) {
		in, out, queued, pending := http2.VerifConnQueues(conn)
		if in+out+queued+pending > 0 {
			return mk("requests-stranded", shape, fmt.Sprintf("after Close a connection still holds in=%d out=%d queued=%d pending=%d", in, out, queued, pending)), h
		}
	}
	if len(h.S.Panics) > 0 {
		return mk("process-would-crash", shape, strings.Join(h.S.Panics, "; ")), h
	}
	return nil, h
}

func runC12(c *fw.Ctx) {
	runSpxFamily(c, "C12")
	runSegmentation(c, map[string]bool{"c12": true, "c11": true}, "C12")
	var item int64
	sampled := 0
	do := func(cs c12Case) {
		if item++; !c.Mine(item) {
			return
		}
		if c.Expired("C12") {
			return
		}
		v, h := c12Exec(cs)
		js, _ := json.Marshal(cs)
		c.Eval(nt(true, js))
		c.AddTransitions(int64(h.Events))
		c.AddTraces(1)
		c.State(fw.Hash(h.Digest()))
		if v != nil {
			c.Violate(*v)
			c.Outcome(v.Rule)
		} else {
			c.Outcome("resolved-once:" + cs.Family)
		}
		if sampled < 3 && cs.Family == "hostile" {
			sampled++
			c.Sample(map[string]any{"case": cs, "events": h.EventLog})
		}
		h.Close()
	}
	script := c12Script(harness.NewPeerEncoder())
	total := len(serialize(script))
	c.Bound["recorded_stream_bytes"] = total
	for cut := 0; cut <= total; cut++ {
		do(c12Case{Family: "cut", Cut: cut})
	}
	c.Family("cut")
	var muts []string
	for i := range script {
		muts = append(muts, fmt.Sprintf("delete %d 0", i), fmt.Sprintf("dup %d 0", i), fmt.Sprintf("swap %d 0", i))
		for bit := 0; bit < 8; bit++ {
			muts = append(muts, fmt.Sprintf("flag %d %d", i, bit))
		}
		for t := 0; t <= 10; t++ {
			if uint8(t) != script[i].Type {
				muts = append(muts, fmt.Sprintf("type %d %d", i, t))
			}
		}
		for s := 0; s < 4; s++ {
			muts = append(muts, fmt.Sprintf("stream %d %d", i, s))
		}
		muts = append(muts, fmt.Sprintf("len %d 1", i), fmt.Sprintf("len %d -1", i))
	}
	c.Bound["single_mutations"] = len(muts)
	for _, m := range muts {
		do(c12Case{Family: "mutate", Mut: m})
	}
	c.Family("mutate")
	for _, n := range []string{"rst-one", "rst-refused", "rst-no-error-mid-response", "rst-cancel-mid-response", "many-callers-behind-stalled-write", "many-callers-then-close", "goaway-0", "goaway-1-then-finish", "goaway-two-step-then-finish", "goaway-error-mid-response", "goaway-covering-then-new-connection-then-close", "oversized-frame", "garbage", "push-promise", "silence", "late-response-after-timeout", "window-update-overflow", "settings-invalid", "headers-on-unknown-stream", "data-before-headers", "ping-flood", "early-response-to-blocked-upload", "early-reset-of-blocked-upload", "not-reading-ping-flood", "not-reading-settings-flood"} {
		do(c12Case{Family: "hostile", Name: n})
	}
	c.Family("hostile")
	for _, st := range []bool{false, true} {
		for k := 1; k <= 16; k++ {
			do(c12Case{Family: "writefail", K: k, Streamed: st})
			do(c12Case{Family: "writefail", K: k, NoTimeout: true, Streamed: st})
		}
		for k := 0; k <= len(script); k++ {
			do(c12Case{Family: "close", K: k, Streamed: st})
			do(c12Case{Family: "close", K: k, NoTimeout: true, Streamed: st})
			do(c12Case{Family: "close-stalled", K: k, Streamed: st})
			do(c12Case{Family: "close-stalled", K: k, NoTimeout: true, Streamed: st})
			do(c12Case{Family: "stalled", K: k, Streamed: st})
			do(c12Case{Family: "stalled", K: k, NoTimeout: true, Streamed: st})
			do(c12Case{Family: "stalled-timeout", K: k, Streamed: st})
		}
	}
	c.Family("write-faults-and-close")
	// without request timeouts only the end of the connection can resolve a request: every cut again
	step := 4
	if c.Tier == "thorough" {
		step = 1
	}
	for cut := 0; cut <= total; cut += step {
		do(c12Case{Family: "cut", Cut: cut, NoTimeout: true})
	}
	for _, n := range []string{"many-callers-behind-stalled-write", "many-callers-then-close", "goaway-0", "goaway-two-step-then-finish", "goaway-error-mid-response", "goaway-covering-then-new-connection-then-close", "oversized-frame", "garbage", "push-promise", "window-update-overflow", "settings-invalid"} {
		do(c12Case{Family: "hostile", Name: n, NoTimeout: true})
		do(c12Case{Family: "hostile", Name: n, NoTimeout: true, Streamed: true})
	}
	// streamed uploads under every cut (coarser grid in quick) and every hostile behaviour
	for cut := 0; cut <= total; cut += step {
		do(c12Case{Family: "cut", Cut: cut, Streamed: true})
	}
	for _, n := range []string{"rst-one", "rst-refused", "goaway-0", "goaway-1-then-finish", "goaway-error-mid-response", "oversized-frame", "garbage", "silence", "late-response-after-timeout", "settings-invalid", "early-response-to-blocked-upload", "early-reset-of-blocked-upload"} {
		do(c12Case{Family: "hostile", Name: n, Streamed: true})
		do(c12Case{Family: "hostile", Name: n, Streamed: true, NoTimeout: true})
	}
	c.Family("no-request-timeout")
}

func replayC12(raw json.RawMessage) (string, bool) {
	var segFam struct {
		Family string `json:"family"`
	}
	json.Unmarshal(raw, &segFam)
	if segFam.Family == "segmentation" {
		return replaySegmentation(raw)
	}
	var r struct {
		Case c12Case `json:"case"`
	}
	if err := json.Unmarshal(raw, &r); err != nil {
		return err.Error(), false
	}
	v, h := c12Exec(r.Case)
	defer h.Close()
	if v != nil {
		return v.Rule + " [" + v.Shape + "]: " + v.Detail, true
	}
	return "every request resolved exactly once: " + fmt.Sprint(len(h.EventLog)) + " events", false
}
