package checks

import (
	"encoding/json"
	"fmt"
	"os"
	"strings"
	"time"

	"verif/fw"
	"verif/harness"
	"verif/peer"
	"verif/ref"
	"verif/vsched"
)

// C19 — no data races; a pooled object never has two owners.
//
// SPX: the environment (peer script, clock, handler releases, Close) runs as
// managed low-priority threads next to the implementation's own goroutines.
// The default schedule processes every environment step to quiescence; a
// deviation is any other choice at a decision point (a preemption, another
// thread at a blocking point, an environment step happening earlier, another
// ready select case). All schedules with at most k deviations are executed on
// the real code, built with -race on the race-transparent runtime.

func init() {
	fw.Register(&fw.Check{
		ID: "C19", Level: "model_checking", Race: true,
		Rule:   "SPX under -race: eight harnesses (server: SETTINGS vs response encoding; RST_STREAM vs running handler vs next request; ping/idle/request timers vs teardown; streamed response vs WINDOW_UPDATE vs disconnect mid-frame; client: two callers vs responses vs Close; timeout vs late response vs Ctx reuse vs SETTINGS; GOAWAY vs new request; upload vs window grants vs reset), each starting after a canonical prelude (handshake, one warm exchange). Every schedule with <= 1 (quick) / <= 2 (thorough) deviations from the run-to-quiescence default is executed on the real goroutines; decision points are all synchronisation operations (channel ops, select, mutex, atomics, transport I/O, goroutine start, timer firing). Oracles per schedule: race detector report (tied to the schedule through its log), pool tracker (double release, release while a handler owns the object), no unrecovered panic, replay of the prefix never diverges. Non-trivial: a schedule with >= 1 decision point; distinct by scenario+schedule.",
		Assume: []string{"race detection is happens-before based on the program's own synchronisation (real atomics; mutex, channel, pool, timer and goroutine-start edges annotated by the shims); weak-memory reorderings are not modelled", "fasthttp, bufio and the runtime are trusted; TLS is a pass-through"},
		Run:    runC19, Replay: replayC19, QuickS: 360, ThoroughS: 2400,
	})
}

// spxInst is one live instance of a scenario, after its prelude.
type spxInst struct {
	s           *vsched.Sched
	srv         *harness.Server
	cl          *harness.Client
	start       func()
	env         []*harness.EnvThread
	mark        int // client role: frames received from the client before the explored phase
	markStreams int
}

func (x *spxInst) startEnv(ts ...*harness.EnvThread) {
	x.env = append(x.env, ts...)
	if x.srv != nil {
		x.srv.StartEnv(ts...)
	} else {
		x.cl.StartEnv(ts...)
	}
}

// step returns the executed environment step of the given kind whose bytes start with the frame f (inject) or whose call is idx (finish).
func (x *spxInst) steps(kind string) []*harness.EnvStep {
	var out []*harness.EnvStep
	for _, t := range x.env {
		for i := range t.Steps {
			if t.Steps[i].Kind == kind {
				out = append(out, &t.Steps[i])
			}
		}
	}
	return out
}

type spxScenario struct {
	Name  string
	Role  string
	PerG  bool // pool policy (see vsched.PoolPerGoroutine)
	Build func() *spxInst
	// Deeper: a short harness that is explored one deviation deeper than the others of its role
	Deeper bool
}

func frames(fs ...peer.Frame) []byte {
	var b []byte
	for _, f := range fs {
		b = f.Append(b)
	}
	return b
}

func c19Req(h *harness.Server, id uint32, endStream bool, extra ...[2]string) peer.Frame {
	fields := harness.ReqFields("POST", "https", "h", fmt.Sprint("/s", id), append([][2]string{{"x-sid", fmt.Sprint(id)}, {"x-common", "the-same-value-every-time"}}, extra...)...)
	return peer.Headers(id, h.PeerEnc.Block(fields, nil), peer.HeadersOpt{EndStream: endStream, EndHeaders: true, Pad: -1})
}

var c19RespHdr = [][2]string{{"X-Common", "the-same-response-value"}, {"X-Other", "v"}}

func c19Server(o harness.ServerOpts) *harness.Server {
	if o.MaxConcurrentStreams == 0 {
		o.MaxConcurrentStreams = 8
	}
	h := harness.NewServer(o)
	// warm exchange: fills both dynamic tables, recycles one stream and one context
	h.SendFrames(c19Req(h, 1, true))
	h.Finish(0, harness.Resp{Status: 200, Headers: c19RespHdr, Body: []byte("warm")})
	return h
}

func serverScenarios() []*spxScenario {
	return []*spxScenario{
		{Name: "S1-settings-vs-response", Role: "server", Build: func() *spxInst {
			h := c19Server(harness.ServerOpts{})
			x := &spxInst{s: h.S, srv: h}
			x.start = func() {
				x.startEnv(
					&harness.EnvThread{Name: "peer", Steps: []harness.EnvStep{
						{Kind: "inject", Bytes: frames(c19Req(h, 3, true))},
						{Kind: "inject", Bytes: frames(peer.Settings(peer.Setting{ID: 1, Val: 100}, peer.Setting{ID: 4, Val: 70000}, peer.Setting{ID: 5, Val: 20000}))},
						{Kind: "inject", Bytes: frames(c19Req(h, 5, true), peer.Ping(false, [8]byte{1}))},
					}},
					&harness.EnvThread{Name: "handlers", Steps: []harness.EnvStep{
						{Kind: "finish", Call: 1, Resp: harness.Resp{Status: 200, Headers: c19RespHdr, Body: []byte("one")}},
						{Kind: "finish", Call: 2, Resp: harness.Resp{Status: 200, Headers: c19RespHdr, Body: []byte("two")}},
					}},
				)
			}
			return x
		}},
		{Name: "S17-partial-settings-vs-response", Role: "server", Build: func() *spxInst {
			// SETTINGS frames that each carry one parameter (or none): whichever goroutine applies which
			// subset, the encoder and the peer's limits have one owner
			h := c19Server(harness.ServerOpts{})
			x := &spxInst{s: h.S, srv: h}
			x.start = func() {
				x.startEnv(
					&harness.EnvThread{Name: "peer", Steps: []harness.EnvStep{
						{Kind: "inject", Bytes: frames(c19Req(h, 3, true))},
						{Kind: "inject", Bytes: frames(peer.Settings(peer.Setting{ID: 1, Val: 100}))},
						{Kind: "inject", Bytes: frames(c19Req(h, 5, true), peer.Settings(peer.Setting{ID: 5, Val: 20000}), peer.Settings())},
						{Kind: "inject", Bytes: frames(peer.Settings(peer.Setting{ID: 1, Val: 4096}, peer.Setting{ID: 6, Val: 100000}))},
					}},
					&harness.EnvThread{Name: "handlers", Steps: []harness.EnvStep{
						{Kind: "finish", Call: 1, Resp: harness.Resp{Status: 200, Headers: c19RespHdr, Body: []byte("one")}},
						{Kind: "finish", Call: 2, Resp: harness.Resp{Status: 200, Headers: c19RespHdr, Body: []byte("two")}},
					}},
				)
			}
			return x
		}},
		{Name: "S2-reset-vs-handler", Role: "server", Build: func() *spxInst {
			h := c19Server(harness.ServerOpts{})
			x := &spxInst{s: h.S, srv: h}
			x.start = func() {
				x.startEnv(
					&harness.EnvThread{Name: "peer", Steps: []harness.EnvStep{
						{Kind: "inject", Bytes: frames(c19Req(h, 3, false), peer.Data(3, []byte("abc"), true, -1))},
						{Kind: "inject", Bytes: frames(peer.RstStream(3, 8))},
						{Kind: "inject", Bytes: frames(c19Req(h, 5, true))},
					}},
					&harness.EnvThread{Name: "handlers", Steps: []harness.EnvStep{
						{Kind: "finish", Call: 1, Resp: harness.Resp{Status: 200, Headers: c19RespHdr, Body: []byte("late answer to a reset stream")}},
						{Kind: "finish", Call: 2, Resp: harness.Resp{Status: 200, Headers: c19RespHdr, Body: []byte("two")}},
					}},
				)
			}
			return x
		}},
		{Name: "S18-reset-vs-handler-with-body-stream", Role: "server", Build: func() *spxInst {
			h := c19Server(harness.ServerOpts{EarlyBodyStream: true})
			x := &spxInst{s: h.S, srv: h}
			x.start = func() {
				x.startEnv(
					&harness.EnvThread{Name: "peer", Steps: []harness.EnvStep{
						{Kind: "inject", Bytes: frames(c19Req(h, 3, false), peer.Data(3, []byte("abc"), true, -1))},
						{Kind: "inject", Bytes: frames(peer.RstStream(3, 8))},
						{Kind: "inject", Bytes: frames(c19Req(h, 5, true))},
					}},
					&harness.EnvThread{Name: "handlers", Steps: []harness.EnvStep{
						{Kind: "finish", Call: 1, Resp: harness.Resp{Status: 200, Headers: c19RespHdr, Body: []byte("late answer to a reset stream")}},
						{Kind: "finish", Call: 2, Resp: harness.Resp{Status: 200, Headers: c19RespHdr, Body: []byte("two")}},
					}},
				)
			}
			return x
		}},
		{Name: "S3-timers-vs-teardown", Role: "server", Build: func() *spxInst {
			h := c19Server(harness.ServerOpts{PingInterval: time.Second, IdleTimeout: 3 * time.Second, ReadTimeout: 2 * time.Second})
			x := &spxInst{s: h.S, srv: h}
			x.start = func() {
				x.startEnv(
					&harness.EnvThread{Name: "peer", Steps: []harness.EnvStep{
						{Kind: "inject", Bytes: frames(c19Req(h, 3, false))},
						{Kind: "peerclose"},
					}},
					&harness.EnvThread{Name: "clock", Steps: []harness.EnvStep{{Kind: "fire"}, {Kind: "fire"}, {Kind: "fire"}}},
					&harness.EnvThread{Name: "handlers", Steps: []harness.EnvStep{
						{Kind: "finish", Call: 1, Resp: harness.Resp{Status: 200, Body: []byte("one")}},
					}},
				)
			}
			return x
		}},
		{Name: "S4-streamed-response-vs-window-vs-disconnect", Role: "server", Build: func() *spxInst {
			h := c19Server(harness.ServerOpts{PeerSettings: []peer.Setting{{ID: 4, Val: 4}}})
			x := &spxInst{s: h.S, srv: h}
			half := frames(c19Req(h, 7, true))
			x.start = func() {
				x.startEnv(
					&harness.EnvThread{Name: "peer", Steps: []harness.EnvStep{
						{Kind: "inject", Bytes: frames(c19Req(h, 3, true))},
						{Kind: "inject", Bytes: frames(peer.WindowUpdate(3, 3))},
						{Kind: "inject", Bytes: frames(peer.WindowUpdate(0, 5), peer.WindowUpdate(3, 100))},
						{Kind: "inject", Bytes: half[:len(half)-3]},
						{Kind: "peerclose"},
					}},
					&harness.EnvThread{Name: "handlers", Steps: []harness.EnvStep{
						{Kind: "finish", Call: 1, Resp: harness.Resp{Status: 200, Headers: c19RespHdr, Stream: &harness.BodyStream{Chunks: [][]byte{[]byte("abcdef"), []byte("ghij")}, Declared: -1}}},
					}},
				)
			}
			return x
		}},
		{Name: "S9-refusal-vs-handler-return", Role: "server", Build: func() *spxInst {
			h := c19Server(harness.ServerOpts{MaxConcurrentStreams: 1})
			x := &spxInst{s: h.S, srv: h}
			x.start = func() {
				x.startEnv(
					&harness.EnvThread{Name: "peer", Steps: []harness.EnvStep{
						{Kind: "inject", Bytes: frames(c19Req(h, 3, true))},
						{Kind: "inject", Bytes: frames(c19Req(h, 5, true))},
						{Kind: "inject", Bytes: frames(c19Req(h, 7, true))},
					}},
					&harness.EnvThread{Name: "handlers", Steps: []harness.EnvStep{
						{Kind: "finish", Call: 1, Resp: harness.Resp{Status: 200, Headers: c19RespHdr, Body: []byte("r1")}},
						{Kind: "finish", Call: 2, Resp: harness.Resp{Status: 200, Headers: c19RespHdr, Body: []byte("r2")}},
						{Kind: "finish", Call: 3, Resp: harness.Resp{Status: 200, Headers: c19RespHdr, Body: []byte("r3")}},
					}},
				)
			}
			return x
		}},
		{Name: "S10-two-bodies-vs-connection-window", Role: "server", Build: func() *spxInst {
			h := c19Server(harness.ServerOpts{PeerSettings: []peer.Setting{{ID: 4, Val: 100000}}})
			x := &spxInst{s: h.S, srv: h}
			x.start = func() {
				x.startEnv(
					&harness.EnvThread{Name: "peer", Steps: []harness.EnvStep{
						{Kind: "inject", Bytes: frames(c19Req(h, 3, true), c19Req(h, 5, true))},
						{Kind: "inject", Bytes: frames(peer.WindowUpdate(0, 10000))},
						{Kind: "inject", Bytes: frames(peer.WindowUpdate(0, 60000))},
					}},
					&harness.EnvThread{Name: "handlers", Steps: []harness.EnvStep{
						{Kind: "finish", Call: 1, Resp: harness.Resp{Status: 200, Headers: c19RespHdr, Body: []byte(valOfLen(40000))}},
						{Kind: "finish", Call: 2, Resp: harness.Resp{Status: 200, Headers: c19RespHdr, Body: []byte(valOfLen(40001))}},
					}},
				)
			}
			return x
		}},
		{Name: "S14-stream-error-vs-neighbours", Role: "server", Build: func() *spxInst {
			h := c19Server(harness.ServerOpts{})
			x := &spxInst{s: h.S, srv: h}
			x.start = func() {
				x.startEnv(
					&harness.EnvThread{Name: "peer", Steps: []harness.EnvStep{
						{Kind: "inject", Bytes: frames(c19Req(h, 3, true))},
						// malformed: upper-case field name; its block still updates the shared dynamic table
						{Kind: "inject", Bytes: frames(c19Req(h, 5, false, [2]string{"X-Upper", "v"}, [2]string{"x-new-entry", "only-the-offender-adds-this"}))},
						{Kind: "inject", Bytes: frames(peer.Data(5, []byte("late data on the refused stream"), true, -1))},
						{Kind: "inject", Bytes: frames(c19Req(h, 7, true, [2]string{"x-new-entry", "only-the-offender-adds-this"}))},
					}},
					&harness.EnvThread{Name: "handlers", Steps: []harness.EnvStep{
						{Kind: "finish", Call: 1, Resp: harness.Resp{Status: 200, Headers: c19RespHdr, Body: []byte("r1")}},
						{Kind: "finish", Call: 2, Resp: harness.Resp{Status: 200, Headers: c19RespHdr, Body: []byte("r2")}},
					}},
				)
			}
			return x
		}},
		{Name: "S16-cancelled-stream-keeps-its-slot", Role: "server", Build: func() *spxInst {
			h := c19Server(harness.ServerOpts{MaxConcurrentStreams: 1})
			x := &spxInst{s: h.S, srv: h}
			x.start = func() {
				x.startEnv(
					&harness.EnvThread{Name: "peer", Steps: []harness.EnvStep{
						{Kind: "inject", Bytes: frames(c19Req(h, 3, true))},
						{Kind: "inject", Bytes: frames(peer.RstStream(3, 8))},
						{Kind: "inject", Bytes: frames(c19Req(h, 5, true))},
						{Kind: "inject", Bytes: frames(c19Req(h, 7, true))},
					}},
					&harness.EnvThread{Name: "handlers", Steps: []harness.EnvStep{
						{Kind: "finish", Call: 1, Resp: harness.Resp{Status: 200, Headers: c19RespHdr, Body: []byte("r1")}},
						{Kind: "finish", Call: 2, Resp: harness.Resp{Status: 200, Headers: c19RespHdr, Body: []byte("r2")}},
					}},
				)
			}
			return x
		}},
		{Name: "S13-idle-timeout-vs-new-request", Role: "server", Build: func() *spxInst {
			h := c19Server(harness.ServerOpts{IdleTimeout: 3 * time.Second})
			x := &spxInst{s: h.S, srv: h}
			x.start = func() {
				x.startEnv(
					&harness.EnvThread{Name: "clock", Steps: []harness.EnvStep{{Kind: "fire"}}},
					&harness.EnvThread{Name: "peer", Steps: []harness.EnvStep{
						{Kind: "inject", Bytes: frames(c19Req(h, 3, true))},
						{Kind: "inject", Bytes: frames(c19Req(h, 5, true))},
					}},
					&harness.EnvThread{Name: "handlers", Steps: []harness.EnvStep{
						{Kind: "finish", Call: 1, Resp: harness.Resp{Status: 200, Headers: c19RespHdr, Body: []byte("r1")}},
						{Kind: "finish", Call: 2, Resp: harness.Resp{Status: 200, Headers: c19RespHdr, Body: []byte("r2")}},
					}},
				)
			}
			return x
		}},
	}
}

func c19Client(o harness.ClientOpts) *harness.Client {
	h := harness.NewClient(o)
	h.ReuseAfter = true
	h.Go(harness.ReqSpec{Tag: "warm", Path: "/warm", Headers: [][2]string{{"X-Common", "the-same-value-every-time"}}})
	if len(h.Conns) == 1 {
		sc := h.Conns[0]
		h.Send(0, sc.RespFrames(1, []ref.Field{{Name: ":status", Value: "200"}, {Name: "x-common", Value: "the-same-response-value"}}, nil, nil, [][]byte{[]byte("warm")}, -1)...)
	}
	return h
}

func c19Resp(sc *harness.SrvConn, id uint32, body string) []byte {
	return frames(sc.RespFrames(id, []ref.Field{{Name: ":status", Value: "200"}, {Name: "x-common", Value: "the-same-response-value"}, {Name: "x-id", Value: fmt.Sprint(id)}}, nil, nil, [][]byte{[]byte(body)}, -1)...)
}

// c19StaticResp is a response that does not touch the dynamic table (usable on a connection that does not exist yet).
func c19StaticResp(id uint32, body string) []byte {
	enc := harness.NewPeerEncoder()
	blk := enc.Block([]ref.Field{{Name: ":status", Value: "200"}, {Name: "x-id", Value: fmt.Sprint(id)}}, func(int) ref.EncChoice { return ref.EncChoice{Rep: ref.RepWithout} })
	return frames(peer.Headers(id, blk, peer.HeadersOpt{EndHeaders: true, Pad: -1}), peer.Data(id, []byte(body), true, -1))
}

func c19Spec(tag string, body []byte) harness.ReqSpec {
	return harness.ReqSpec{Tag: tag, Method: "POST", Path: "/" + tag, Headers: [][2]string{{"X-Common", "the-same-value-every-time"}}, Body: body}
}

func clientScenarios() []*spxScenario {
	return []*spxScenario{
		{Name: "S5-two-callers-vs-responses-vs-close", Role: "client", Build: func() *spxInst {
			h := c19Client(harness.ClientOpts{})
			x := &spxInst{s: h.S, cl: h}
			x.start = func() {
				sc := h.Conns[0]
				h.SpawnCaller(c19Spec("a", []byte("body-a")))
				h.SpawnCaller(c19Spec("b", nil))
				x.startEnv(
					&harness.EnvThread{Name: "server", Steps: []harness.EnvStep{
						{Kind: "inject", WaitHeaders: 1, Bytes: c19Resp(sc, 3, "first")},
						{Kind: "inject", WaitHeaders: 2, Bytes: c19Resp(sc, 5, "second")},
					}},
					&harness.EnvThread{Name: "closer", Steps: []harness.EnvStep{{Kind: "close"}}},
				)
			}
			return x
		}},
		{Name: "S19-close-vs-responses-buffered-in-one-read", Role: "client", Deeper: true, Build: func() *spxInst {
			// both responses arrive in one segment: the read loop has the second one in its buffer (and will run
			// it through the connection's decoder) whatever Close and the write loop's teardown do meanwhile
			h := c19Client(harness.ClientOpts{})
			x := &spxInst{s: h.S, cl: h}
			x.start = func() {
				sc := h.Conns[0]
				h.SpawnCaller(c19Spec("a", []byte("body-a")))
				h.SpawnCaller(c19Spec("b", nil))
				x.startEnv(
					&harness.EnvThread{Name: "server", Steps: []harness.EnvStep{
						{Kind: "inject", WaitHeaders: 2, Bytes: append(c19Resp(sc, 3, "first"), c19Resp(sc, 5, "second")...)},
					}},
					&harness.EnvThread{Name: "closer", Steps: []harness.EnvStep{{Kind: "close"}}},
				)
			}
			return x
		}},
		{Name: "S6-timeout-vs-late-response-vs-reuse-vs-settings", Role: "client", Build: func() *spxInst {
			h := c19Client(harness.ClientOpts{MaxResponseTime: time.Second})
			x := &spxInst{s: h.S, cl: h}
			x.start = func() {
				sc := h.Conns[0]
				h.SpawnCaller(c19Spec("a", []byte("body-a")))
				resp := sc.RespFrames(3, []ref.Field{{Name: ":status", Value: "200"}, {Name: "x-common", Value: "the-same-response-value"}}, nil, nil, [][]byte{[]byte("late")}, -1)
				x.startEnv(
					&harness.EnvThread{Name: "server", Steps: []harness.EnvStep{
						{Kind: "inject", WaitHeaders: 1, Bytes: frames(resp[0])},
						{Kind: "inject", Bytes: frames(peer.Settings(peer.Setting{ID: 1, Val: 0}, peer.Setting{ID: 4, Val: 70000}, peer.Setting{ID: 3, Val: 10}))},
						{Kind: "inject", Bytes: frames(resp[1:]...)},
					}},
					&harness.EnvThread{Name: "clock", Steps: []harness.EnvStep{{Kind: "fire", Sub: "client.go"}}},
					&harness.EnvThread{Name: "user", Steps: []harness.EnvStep{{Kind: "spawn-caller", Spec: c19Spec("b", nil)}}},
				)
			}
			return x
		}},
		{Name: "S7-goaway-vs-new-request", Role: "client", Build: func() *spxInst {
			h := c19Client(harness.ClientOpts{})
			x := &spxInst{s: h.S, cl: h}
			x.start = func() {
				h.SpawnCaller(c19Spec("a", nil))
				x.startEnv(
					&harness.EnvThread{Name: "server", Steps: []harness.EnvStep{
						// the PING's acknowledgement marks, in the client's own output, the point by which it has read the GOAWAY
						{Kind: "inject", WaitHeaders: 1, Bytes: frames(peer.GoAway(1, 0, "bye"), peer.Ping(false, [8]byte{7}))},
					}},
					&harness.EnvThread{Name: "user", Steps: []harness.EnvStep{{Kind: "spawn-caller", Spec: c19Spec("b", nil)}}},
					// the connection the client dials next: handshake, then an answer to each of its first two streams
					&harness.EnvThread{Name: "server1", Steps: []harness.EnvStep{
						{Kind: "inject", Conn: 1, Bytes: frames(peer.Settings(), peer.SettingsAck())},
						{Kind: "inject", Conn: 1, WaitHeaders: 1, Bytes: c19StaticResp(1, "n1")},
						{Kind: "inject", Conn: 1, WaitHeaders: 2, Bytes: c19StaticResp(3, "n2")},
					}},
					&harness.EnvThread{Name: "server2", Steps: []harness.EnvStep{
						{Kind: "inject", Conn: 2, Bytes: frames(peer.Settings(), peer.SettingsAck())},
						{Kind: "inject", Conn: 2, WaitHeaders: 1, Bytes: c19StaticResp(1, "m1")},
					}},
					&harness.EnvThread{Name: "server3", Steps: []harness.EnvStep{
						{Kind: "inject", Conn: 3, Bytes: frames(peer.Settings(), peer.SettingsAck())},
					}},
				)
			}
			return x
		}},
		{Name: "S12-one-slot-two-callers", Role: "client", Build: func() *spxInst {
			h := c19Client(harness.ClientOpts{ServerSettings: []peer.Setting{{ID: 3, Val: 1}}})
			x := &spxInst{s: h.S, cl: h}
			x.start = func() {
				sc := h.Conns[0]
				h.SpawnCaller(c19Spec("a", []byte("body-a")))
				h.SpawnCaller(c19Spec("b", nil))
				x.startEnv(
					&harness.EnvThread{Name: "server", Steps: []harness.EnvStep{
						{Kind: "inject", WaitHeaders: 1, Bytes: c19Resp(sc, 3, "first")},
						{Kind: "inject", WaitHeaders: 2, Bytes: c19Resp(sc, 5, "second")},
						{Kind: "inject", WaitHeaders: 3, Bytes: c19Resp(sc, 7, "third")},
					}},
					// a third request once one of the two has been answered: it reuses the connection's header table
					&harness.EnvThread{Name: "user", Steps: []harness.EnvStep{{Kind: "spawn-caller", WaitDone: 1, Spec: c19Spec("c", nil)}}},
					&harness.EnvThread{Name: "server1", Steps: []harness.EnvStep{
						{Kind: "inject", Conn: 1, Bytes: frames(peer.Settings(peer.Setting{ID: 3, Val: 1}), peer.SettingsAck())},
						{Kind: "inject", Conn: 1, WaitHeaders: 1, Bytes: c19StaticResp(1, "n1")},
						{Kind: "inject", Conn: 1, WaitHeaders: 2, Bytes: c19StaticResp(3, "n2")},
					}},
				)
			}
			return x
		}},
		{Name: "S15-graceful-double-goaway", Role: "client", Build: func() *spxInst {
			h := c19Client(harness.ClientOpts{})
			x := &spxInst{s: h.S, cl: h}
			x.start = func() {
				sc := h.Conns[0]
				h.SpawnCaller(c19Spec("a", nil))
				h.SpawnCaller(c19Spec("b", nil))
				x.startEnv(
					&harness.EnvThread{Name: "server", Steps: []harness.EnvStep{
						// RFC 7540 6.8: announce the shutdown with 2^31-1, then say where it really ends
						{Kind: "inject", WaitHeaders: 2, Bytes: frames(peer.GoAway(1<<31-1, 0, "shutting down"))},
						{Kind: "inject", Bytes: frames(peer.GoAway(3, 0, "bye"), peer.Ping(false, [8]byte{7}))},
						{Kind: "inject", Bytes: c19Resp(sc, 3, "first")},
					}},
					&harness.EnvThread{Name: "user", Steps: []harness.EnvStep{{Kind: "spawn-caller", Spec: c19Spec("c", nil)}}},
					&harness.EnvThread{Name: "server1", Steps: []harness.EnvStep{
						{Kind: "inject", Conn: 1, Bytes: frames(peer.Settings(), peer.SettingsAck())},
						{Kind: "inject", Conn: 1, WaitHeaders: 1, Bytes: c19StaticResp(1, "n1")},
						{Kind: "inject", Conn: 1, WaitHeaders: 2, Bytes: c19StaticResp(3, "n2")},
					}},
					&harness.EnvThread{Name: "server2", Steps: []harness.EnvStep{
						{Kind: "inject", Conn: 2, Bytes: frames(peer.Settings(), peer.SettingsAck())},
						{Kind: "inject", Conn: 2, WaitHeaders: 1, Bytes: c19StaticResp(1, "m1")},
					}},
					&harness.EnvThread{Name: "server3", Steps: []harness.EnvStep{
						{Kind: "inject", Conn: 3, Bytes: frames(peer.Settings(), peer.SettingsAck())},
					}},
				)
			}
			return x
		}},
		{Name: "S11-ping-ticker-vs-request-vs-close", Role: "client", Build: func() *spxInst {
			h := c19Client(harness.ClientOpts{PingInterval: time.Second})
			x := &spxInst{s: h.S, cl: h}
			x.start = func() {
				sc := h.Conns[0]
				h.SpawnCaller(c19Spec("a", []byte("body-a")))
				x.startEnv(
					&harness.EnvThread{Name: "server", Steps: []harness.EnvStep{
						{Kind: "inject", Bytes: frames(peer.Ping(false, [8]byte{9}))},
						{Kind: "inject", WaitHeaders: 1, Bytes: c19Resp(sc, 3, "first")},
					}},
					&harness.EnvThread{Name: "clock", Steps: []harness.EnvStep{{Kind: "fire", Sub: "conn.go"}, {Kind: "fire", Sub: "conn.go"}}},
					&harness.EnvThread{Name: "closer", Steps: []harness.EnvStep{{Kind: "close"}}},
				)
			}
			return x
		}},
		{Name: "S8-upload-vs-grants-vs-reset", Role: "client", Build: func() *spxInst {
			h := c19Client(harness.ClientOpts{ServerSettings: []peer.Setting{{ID: 4, Val: 4}}})
			x := &spxInst{s: h.S, cl: h}
			x.start = func() {
				h.SpawnCaller(harness.ReqSpec{Tag: "up", Method: "POST", Path: "/up", Stream: [][]byte{[]byte("abcdef"), []byte("ghij")}, Declared: -1})
				h.SpawnCaller(c19Spec("b", []byte("0123456789")))
				x.startEnv(
					&harness.EnvThread{Name: "server", Steps: []harness.EnvStep{
						{Kind: "inject", WaitHeaders: 1, Bytes: frames(peer.WindowUpdate(3, 3))},
						{Kind: "inject", Bytes: frames(peer.Settings(peer.Setting{ID: 4, Val: 9}))},
						{Kind: "inject", WaitHeaders: 2, Bytes: frames(peer.RstStream(5, 8), peer.WindowUpdate(3, 100))},
					}},
				)
			}
			return x
		}},
	}
}

// c19Scenarios returns every harness under both pool policies.
func c19Scenarios() []*spxScenario {
	var out []*spxScenario
	for _, sc := range append(serverScenarios(), clientScenarios()...) {
		a, b := *sc, *sc
		a.Name, b.Name = sc.Name+"/lifo", sc.Name+"/own"
		b.PerG = true
		out = append(out, &a, &b)
	}
	return out
}

type spxResult struct {
	Race     string // race detector reports produced by this execution (teardown excluded)
	Points   []vsched.Point
	Obs      string
	Problems []string // rule\x00shape\x00detail
	Steps    int
}

// spxExec runs one schedule of a scenario.
func spxExec(sc *spxScenario, prefix []int) spxResult {
	vsched.PoolPerGoroutine = sc.PerG
	defer resetPoolPolicy()
	x := sc.Build()
	x.start()
	dbg := os.Getenv("VERIF_SPX_TRACE") != ""
	if dbg {
		x.s.Debug = true
		x.s.Trace = nil
	}
	pts := harness.RunExplored(x.s, prefix)
	if dbg {
		x.s.Debug = false
		fmt.Printf("TRACE %s prefix=%v\n", sc.Name, prefix)
		for _, l := range x.s.Trace {
			fmt.Println("  " + l)
		}
		for i, p := range pts {
			fmt.Printf("  point %d: n=%d chosen=%d kind=%c alts=%v\n", i, p.N, p.Chosen, p.Kind, p.Alts)
		}
	}
	var r spxResult
	r.Points = pts
	r.Steps = x.s.Steps
	if x.s.Diverge != "" {
		r.Problems = append(r.Problems, "harness-divergence\x00"+sc.Name+"\x00"+x.s.Diverge)
	}
	if x.srv != nil {
		h := x.srv
		h.Collect()
		// canonical teardown: the peer goes away, handlers return, timers fire
		h.PeerClose()
		for i, c := range h.Calls {
			if !c.Returned {
				h.Finish(i, harness.Resp{Status: 200})
			}
		}
		h.Drain(6)
		r.Race = fw.RaceDelta()
		r.Obs = h.Digest()
		for _, p := range h.Panicked() {
			r.Problems = append(r.Problems, "panic\x00"+sc.Name+"\x00"+p)
		}
		for _, e := range h.PoolEvents() {
			r.Problems = append(r.Problems, "pool-ownership\x00"+poolShape(e)+"\x00"+e)
		}
		h.Close()
	} else {
		h := x.cl
		h.Collect()
		for i := range h.Conns {
			if !h.Conns[i].C.Closed() {
				h.ServerClose(i)
			}
		}
		for i := 0; i < 4 && h.FireTimer(""); i++ {
		}
		r.Race = fw.RaceDelta()
		r.Obs = h.Digest()
		for _, p := range h.S.Panics {
			r.Problems = append(r.Problems, "panic\x00"+sc.Name+"\x00"+p)
		}
		for _, e := range h.PoolEvents() {
			r.Problems = append(r.Problems, "pool-ownership\x00"+poolShape(e)+"\x00"+e)
		}
		for _, c := range h.Calls {
			if c.Resolved > 1 {
				r.Problems = append(r.Problems, "resolved-twice\x00"+sc.Name+"\x00request "+c.Tag+" resolved "+fmt.Sprint(c.Resolved)+" times")
			}
		}
		h.Close()
	}
	// Unwinding the parked goroutines runs the program's deferred calls in an
	// arbitrary order with no synchronisation: whatever the detector says about
	// that is an artefact of the teardown, not of the program.
	if d := fw.RaceDelta(); d != "" {
		teardownReports++
	}
	return r
}

var teardownReports int

func resetPoolPolicy() { vsched.PoolPerGoroutine = false }

// poolShape reduces a pool event to "what, which type, where".
func poolShape(e string) string {
	if i := strings.Index(e, " at "); i > 0 {
		site := e[i+4:]
		if j := strings.Index(site, "<"); j > 0 {
			site = site[:j]
		}
		return e[:i] + " @" + site
	}
	return e
}

func runC19(c *fw.Ctx) {
	runC19Pool(c)
	completed := map[string]int{}
	cappedAt := map[string]string{}
	maxPts := map[string]int{}
	scs := c19Scenarios()
	if only := os.Getenv("VERIF_SPX_ONLY"); only != "" {
		// debugging aid: explore only the harnesses whose name starts with this
		var keep []*spxScenario
		for _, sc := range scs {
			if strings.HasPrefix(sc.Name, only) {
				keep = append(keep, sc)
			}
		}
		scs = keep
	}
	// iterative deepening over all harnesses: bound 1 everywhere, then 2, then 3
	for b := 1; b <= 3; b++ {
		for si, sc := range scs {
			sc := sc
			// the server harnesses have ~40 decision points, the client ones ~130
			top := 1
			if sc.Role == "server" {
				top = 2
			}
			if c.Tier == "thorough" {
				top++
			}
			if sc.Deeper {
				top++
			}
			if b > top || cappedAt[sc.Name] != "" {
				continue
			}
			item := int64(si) << 40
			capped, schedules, pts := spxSearch(c, "C19 "+sc.Name, sc.Name, b, b, &item, func(prefix []int) spxOutcome {
				r := spxExec(sc, prefix)
				out := spxOutcome{Points: r.Points, Steps: r.Steps, Obs: r.Obs}
				rep := map[string]any{"family": "spx", "scenario": sc.Name, "prefix": prefix}
				if r.Race != "" {
					for _, one := range splitRaces(r.Race) {
						out.Viol = append(out.Viol, fw.Violation{Rule: "data-race", Shape: fw.RaceShape(one), Detail: trimReport(one), Replay: rep})
					}
				}
				for _, p := range r.Problems {
					parts := strings.SplitN(p, "\x00", 3)
					out.Viol = append(out.Viol, fw.Violation{Rule: parts[0], Shape: parts[1], Detail: parts[2], Replay: rep})
				}
				return out
			})
			if pts > maxPts[sc.Name] {
				maxPts[sc.Name] = pts
			}
			if capped {
				cappedAt[sc.Name] = fmt.Sprintf("time budget reached at deviation bound %d after %d schedules of this shard", b, schedules)
			} else {
				completed[sc.Name] = b
			}
		}
	}
	for _, sc := range scs {
		c.Family(sc.Name)
		c.Bound["points:"+sc.Name] = maxPts[sc.Name]
		c.Bound["deviation_bound_completed:"+sc.Name] = completed[sc.Name]
		if cappedAt[sc.Name] != "" {
			c.Bound["capped:"+sc.Name] = cappedAt[sc.Name]
		}
	}
	if teardownReports > 0 {
		c.Note(fmt.Sprintf("%d executions produced detector output while their goroutines were being unwound (discarded: teardown artefact)", teardownReports))
	}
	c.Bound["scenarios"] = len(scs)
}

func splitRaces(log string) []string {
	parts := strings.Split(log, "WARNING: DATA RACE")
	var out []string
	for _, p := range parts[1:] {
		out = append(out, "WARNING: DATA RACE"+p)
	}
	if len(out) == 0 && strings.TrimSpace(log) != "" {
		out = append(out, log)
	}
	return out
}

func trimReport(r string) string {
	if len(r) > 5000 {
		r = r[:5000] + "\n…"
	}
	return r
}

func replayC19(raw json.RawMessage) (string, bool) {
	var r struct {
		Family   string `json:"family"`
		Scenario string `json:"scenario"`
		Prefix   []int  `json:"prefix"`
	}
	if err := json.Unmarshal(raw, &r); err != nil {
		return err.Error(), false
	}
	if r.Family == "pool" {
		return replayC19Pool(raw)
	}
	for _, sc := range c19Scenarios() {
		if sc.Name != r.Scenario {
			continue
		}
		res := spxExec(sc, r.Prefix)
		race := res.Race
		var out []string
		for _, one := range splitRaces(race) {
			out = append(out, "data-race ["+fw.RaceShape(one)+"]\n"+trimReport(one))
		}
		for _, p := range res.Problems {
			out = append(out, strings.ReplaceAll(p, "\x00", " | "))
		}
		if len(out) > 0 {
			return strings.Join(out, "\n"), true
		}
		return fmt.Sprintf("schedule %v of %s: %d decision points, no race, no ownership event", r.Prefix, sc.Name, len(res.Points)), false
	}
	return "unknown scenario " + r.Scenario, false
}
