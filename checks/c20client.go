package checks

import (
	"encoding/json"
	"fmt"
	"strings"

	"verif/fw"
	"verif/harness"
	"verif/peer"
	"verif/ref"
)

// Client half of C20: response header lists from the mirrored vocabulary, sent
// by the scripted server to the real client between two well-formed neighbours.

type c20cItem struct {
	Name  string
	Apply func(fs []ref.Field) []ref.Field
}

func setStatus(v string) func([]ref.Field) []ref.Field {
	return func(fs []ref.Field) []ref.Field {
		out := append([]ref.Field{}, fs...)
		for i := range out {
			if out[i].Name == ":status" {
				out[i].Value = v
			}
		}
		return out
	}
}

var c20cItems = []c20cItem{
	{"drop :status", dropField(":status")},
	{"duplicate :status", dupField(":status")},
	{":status after regular field", func(fs []ref.Field) []ref.Field {
		var p, out []ref.Field
		for _, f := range fs {
			if f.Name == ":status" {
				p = append(p, f)
			} else {
				out = append(out, f)
			}
		}
		return append(out, p...)
	}},
	{"second :status after regular field", addField(":status", "200")},
	{":status 20", setStatus("20")},
	{":status 2000", setStatus("2000")},
	{":status abc", setStatus("abc")},
	{":status 2x0", setStatus("2x0")},
	{":status empty", setStatus("")},
	{":status 404", setStatus("404")},
	{":path in response", addPseudo(":path", "/")},
	{":method in response", addPseudo(":method", "GET")},
	{"unknown pseudo-header", addPseudo(":foo", "bar")},
	{"upper-case name", addField("X-Upper", "v")},
	{"connection", addField("connection", "close")},
	{"keep-alive", addField("keep-alive", "timeout=5")},
	{"proxy-connection", addField("proxy-connection", "keep-alive")},
	{"transfer-encoding", addField("transfer-encoding", "chunked")},
	{"upgrade", addField("upgrade", "h2c")},
	{"content-length equal", addField("content-length", "=")},
	{"content-length non-numeric", addField("content-length", "abc")},
	{"content-length negative", addField("content-length", "-5")},
	{"content-length overflowing", addField("content-length", "O")},
	{"content-length empty", addField("content-length", "")},
	{"repeated regular field", func(fs []ref.Field) []ref.Field {
		return append(fs, ref.Field{Name: "x-rep", Value: "1"}, ref.Field{Name: "x-rep", Value: "2"})
	}},
	{"set-cookie twice", func(fs []ref.Field) []ref.Field {
		return append(fs, ref.Field{Name: "set-cookie", Value: "a=1"}, ref.Field{Name: "set-cookie", Value: "b=2"})
	}},
	{"te: trailers", addField("te", "trailers")},
}

type c20cCase struct {
	Items    []int  `json:"items"`
	BodyLen  int    `json:"body_len"`
	Trailers string `json:"trailers"` // none | valid | pseudo
	Pos      int    `json:"pos"`      // which of the three concurrent requests is answered with the subject list
	Split    int    `json:"split"`    // >0: block cut into HEADERS + CONTINUATION at this offset
	Dynamic  bool   `json:"dynamic"`  // encode with incremental indexing (later responses refer to the subject's entries)
}

func c20cFields(cs c20cCase) (fields []ref.Field, names []string) {
	fields = []ref.Field{{Name: ":status", Value: "200"}, {Name: "content-type", Value: "text/plain"}, {Name: "x-n", Value: "subject"}}
	for _, i := range cs.Items {
		fields = c20cItems[i].Apply(fields)
		names = append(names, c20cItems[i].Name)
	}
	for i := range fields {
		if fields[i].Name == "content-length" {
			switch fields[i].Value {
			case "=":
				fields[i].Value = fmt.Sprint(cs.BodyLen)
			case "O":
				fields[i].Value = fmt.Sprint("1844674407370955161", 6+cs.BodyLen) // 2^64 + body length
			}
		}
	}
	return fields, names
}

func c20cRun(cs c20cCase) (*fw.Violation, *harness.Client) {
	h := harness.NewClient(harness.ClientOpts{})
	fields, names := c20cFields(cs)
	mk := func(rule, detail string) *fw.Violation {
		shape := "client " + strings.Join(names, " + ")
		if len(names) == 0 {
			shape = "client base response"
		}
		if cs.Trailers != "none" {
			shape += " / trailers " + cs.Trailers
		}
		return &fw.Violation{Rule: rule, Shape: shape, Detail: detail + fmt.Sprintf("\n    response header list: %v body=%d trailers=%s\n    events: %s", fields, cs.BodyLen, cs.Trailers, strings.Join(h.EventLog, " ; ")), Replay: map[string]any{"family": "c20client", "case": cs}}
	}
	var calls []*harness.CCall
	for i := 0; i < 3; i++ {
		calls = append(calls, h.Go(harness.ReqSpec{Tag: fmt.Sprint("r", i), Path: fmt.Sprint("/r", i)}))
	}
	if len(h.Conns) != 1 || len(h.Conns[0].Order) != 3 {
		return mk("harness", "three requests were not sent on one connection"), h
	}
	srv := h.Conns[0]
	wf := ref.ResponseWellFormed(fields)
	trailerBad := cs.Trailers == "pseudo"
	body := []byte("hello")[:cs.BodyLen]
	choice := func(int) ref.EncChoice { return ref.EncChoice{Rep: ref.RepWithout} }
	if cs.Dynamic {
		choice = func(int) ref.EncChoice { return ref.EncChoice{Rep: ref.RepIncremental, NameIndex: true} }
	}
	answer := func(i int, subject bool) {
		id := srv.Order[i]
		if !subject {
			fs := []ref.Field{{Name: ":status", Value: "200"}, {Name: "content-type", Value: "text/plain"}, {Name: "x-n", Value: fmt.Sprint("neighbour", i)}}
			h.Send(0, srv.RespFrames(id, fs, choice, nil, [][]byte{[]byte(fmt.Sprint("body", i))}, -1)...)
			return
		}
		splits := edgeSplits(cs.Split, 1<<20) // RespFrames clamps offsets to the block
		var chunks [][]byte
		if cs.BodyLen > 0 || cs.Trailers != "none" {
			chunks = [][]byte{body}
		}
		fr := srv.RespFrames(id, fields, choice, splits, chunks, -1)
		if cs.Trailers != "none" {
			// move END_STREAM from the last DATA frame to a trailers block
			last := &fr[len(fr)-1]
			last.Flags &^= peer.FEndStream
			tf := []ref.Field{{Name: "x-trailer", Value: "t"}}
			if trailerBad {
				tf = []ref.Field{{Name: ":status", Value: "200"}, {Name: "x-trailer", Value: "t"}}
			}
			var blk []byte
			for _, f := range tf {
				blk = ref.EncodeField(blk, srv.Enc.T, f, ref.EncChoice{Rep: ref.RepWithout})
			}
			fr = append(fr, peer.Headers(id, blk, peer.HeadersOpt{EndStream: true, EndHeaders: true, Pad: -1}))
		}
		h.Send(0, fr...)
	}
	// answer in request order: the subject in position Pos
	for i := 0; i < 3; i++ {
		answer(i, i == cs.Pos)
	}
	subj := calls[cs.Pos]
	sid := srv.Order[cs.Pos]
	if len(srv.GoAways) > 0 || srv.C.Closed() {
		return mk("connection-dropped", fmt.Sprintf("a response (%s) on one stream made the client end the whole connection (GOAWAY %v, closed=%v): the other requests fail with it", orWF(wf), srv.GoAways, srv.C.Closed())), h
	}
	for i, c := range calls {
		if i == cs.Pos {
			continue
		}
		want := fmt.Sprint("body", i)
		if !c.Done || c.Err != nil || c.Status != 200 || string(c.Body) != want {
			return mk("neighbour-disturbed", fmt.Sprintf("neighbour request r%d (stream %d): done=%v err=%v status=%d body=%q, want 200 %q", i, srv.Order[i], c.Done, c.Err, c.Status, c.Body, want)), h
		}
		if got := hdrVal(c.Headers, "x-n"); got != fmt.Sprint("neighbour", i) {
			return mk("neighbour-disturbed", fmt.Sprintf("neighbour request r%d got x-n=%q", i, got)), h
		}
	}
	if !subj.Done {
		return mk("request-never-resolved", fmt.Sprintf("the request answered with the %s response is still pending after the complete response", orWF(wf))), h
	}
	// a content-length that does not fit any integer is numeric in form but can
	// describe no body: delivering or refusing that response are both defensible
	for _, f := range fields {
		if f.Name == "content-length" && len(f.Value) > 19 && wf == "" && !trailerBad {
			return nil, h
		}
	}
	if wf == "" && !trailerBad {
		if subj.Err != nil {
			return mk("well-formed-response-refused", fmt.Sprintf("well-formed response refused: %v", subj.Err)), h
		}
		wantStatus := 0
		fmt.Sscan(fields[0].Value, &wantStatus)
		if subj.Status != wantStatus || string(subj.Body) != string(body) {
			return mk("well-formed-response-altered", fmt.Sprintf("status %d body %q delivered, sent %d %q", subj.Status, subj.Body, wantStatus, body)), h
		}
		for _, f := range fields {
			if strings.HasPrefix(f.Name, ":") || f.Name == "content-length" {
				continue
			}
			if !hasKV(subj.Headers, f.Name, f.Value) {
				return mk("well-formed-response-altered", fmt.Sprintf("field %s: %s was sent, the caller sees %v", f.Name, f.Value, subj.Headers)), h
			}
		}
		if len(srv.Streams[sid].Rst) > 0 {
			return mk("well-formed-response-refused", fmt.Sprintf("RST_STREAM(%v) sent for a well-formed response", srv.Streams[sid].Rst)), h
		}
		return nil, h
	}
	// malformed: that request alone fails
	if subj.Err == nil {
		what := wf
		if what == "" {
			what = "pseudo-header in trailers"
		}
		return mk("malformed-response-delivered", fmt.Sprintf("malformed response (%s) delivered to the caller: status %d body %q", what, subj.Status, subj.Body)), h
	}
	return nil, h
}

func hdrVal(h [][2]string, k string) string {
	for _, kv := range h {
		if kv[0] == k {
			return kv[1]
		}
	}
	return ""
}

func hasKV(h [][2]string, k, v string) bool {
	for _, kv := range h {
		if kv[0] == k && kv[1] == v {
			return true
		}
	}
	return false
}

func init() {
	runC20Client = func(c *fw.Ctx) {
		thorough := c.Tier == "thorough"
		maxItems := 2
		if thorough {
			maxItems = 3
		}
		var subsets [][]int
		var rec func(start int, cur []int)
		rec = func(start int, cur []int) {
			subsets = append(subsets, append([]int{}, cur...))
			if len(cur) == maxItems {
				return
			}
			for i := start; i < len(c20cItems); i++ {
				rec(i+1, append(cur, i))
			}
		}
		rec(0, nil)
		c.Bound["client_response_lists"] = len(subsets)
		var item int64 = 1 << 40
		do := func(cs c20cCase) {
			if item++; !c.Mine(item) {
				return
			}
			if c.Expired("C20 client") {
				return
			}
			v, h := c20cRun(cs)
			js, _ := json.Marshal(cs)
			c.Eval(nt(len(cs.Items) > 0 || cs.Trailers != "none", append([]byte("client"), js...)))
			c.AddTransitions(int64(h.Events))
			c.AddTraces(1)
			c.State(fw.Hash("client", h.Digest()))
			if v != nil {
				c.Violate(*v)
				c.Outcome("client:" + v.Rule)
			} else {
				fields, _ := c20cFields(cs)
				c.Outcome("client ok:" + orWF(ref.ResponseWellFormed(fields)))
			}
			h.Close()
		}
		for _, sub := range subsets {
			for _, bl := range []int{0, 5} {
				for _, tr := range []string{"none", "valid", "pseudo"} {
					for pos := 0; pos < 3; pos++ {
						if !thorough && len(sub) == 2 && pos != 1 {
							continue
						}
						do(c20cCase{Items: sub, BodyLen: bl, Trailers: tr, Pos: pos})
					}
				}
			}
		}
		// every single item: block cut at every offset, and encoded through the dynamic table
		for it := -1; it < len(c20cItems); it++ {
			var items []int
			if it >= 0 {
				items = []int{it}
			}
			fields, _ := c20cFields(c20cCase{Items: items, BodyLen: 5})
			n := len(staticBlock(fields))
			for off := -4; off < n; off++ {
				if off == 0 {
					continue
				}
				do(c20cCase{Items: items, BodyLen: 5, Trailers: "none", Pos: 1, Split: off})
				if off < 0 {
					do(c20cCase{Items: items, BodyLen: 0, Trailers: "none", Pos: 1, Split: off})
				}
				// the head ends in a CONTINUATION frame and a trailer section follows: it must still be read as
				// trailers (a :status in it is malformed, regular fields are fine)
				if off%3 == 1 || it < 0 {
					do(c20cCase{Items: items, BodyLen: 5, Trailers: "valid", Pos: 1, Split: off})
					do(c20cCase{Items: items, BodyLen: 0, Trailers: "pseudo", Pos: 1, Split: off})
				}
			}
			for pos := 0; pos < 3; pos++ {
				do(c20cCase{Items: items, BodyLen: 5, Trailers: "none", Pos: pos, Dynamic: true})
				do(c20cCase{Items: items, BodyLen: 0, Trailers: "valid", Pos: pos, Dynamic: true})
			}
		}
		c.Family("client")
	}
	replayC20Client = func(raw json.RawMessage) (string, bool) {
		var cs c20cCase
		json.Unmarshal(raw, &cs)
		v, h := c20cRun(cs)
		defer h.Close()
		if v != nil {
			return v.Rule + " [" + v.Shape + "]: " + v.Detail, true
		}
		return "verdict matches RFC 7540 8.1.2.4: " + strings.Join(h.EventLog, " ; "), false
	}
}

var runC20Client func(c *fw.Ctx)

var replayC20Client func(raw json.RawMessage) (string, bool)
