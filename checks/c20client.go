package checks

import (
	"encoding/json"

	"verif/fw"
)

// client half of C20: filled in once the client harness exists.
var runC20Client = func(c *fw.Ctx) {}

var replayC20Client = func(raw json.RawMessage) (string, bool) { return "client half not built", false }
