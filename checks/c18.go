package checks

import (
	"encoding/json"
	"fmt"
	"strings"

	"verif/fw"
	"verif/harness"
	"verif/peer"
	"verif/ref"
)

// C18 — SETTINGS are acknowledged in order and the peer's limits are obeyed
// from then on, in both roles.

func init() {
	fw.Register(&fw.Check{
		ID: "C18", Level: "model_checking",
		Rule:   "ELX, both roles. Server: every sequence of <= 2 (quick) / 3 (thorough) SETTINGS frames from an alphabet (each of the six parameters at boundary and invalid values, two parameters at once, a repeated id, an unknown id, empty) interleaved at every position with 1-2 exchanges whose response header list is 100 B or 20 KB and whose body is 0 or 20 KB; plus frames above the size the server advertised. Client: the same SETTINGS alphabet sent by the scripted server before / between / during 1-2 requests with 100 B or 20 KB header lists and 0 or 20 KB bodies, MAX_CONCURRENT_STREAMS in {1,2}, frames above the size the client advertised. Oracle: exactly one ACK per SETTINGS frame, none after an invalid one (server: GOAWAY with the RFC's code; client: no further stream on the connection); every frame sent after the ACK (HEADERS and CONTINUATION included) within the peer's MAX_FRAME_SIZE; streams open at once within the peer's MAX_CONCURRENT_STREAMS; after a HEADER_TABLE_SIZE reduction the next header block starts with a size update within it and every block decodes under the peer's limit; the endpoint's own advertised MAX_FRAME_SIZE / ENABLE_PUSH=0 are on the wire and enforced. Non-trivial: >= 1 SETTINGS frame after the handshake; distinct by scenario.",
		Assume: []string{"the peer's decoder applies a HEADER_TABLE_SIZE it advertised as soon as it has sent the SETTINGS frame", "canonical internal schedule between events"},
		Run:    runC18, Replay: replayC18, Policies: 1, QuickS: 200, ThoroughS: 600,
	})
}

type c18Set struct {
	Name    string
	S       []peer.Setting
	Invalid uint32 // 0: valid; else the GOAWAY code the RFC prescribes
}

var c18Alphabet = []c18Set{
	{"empty", nil, 0},
	{"table=0", []peer.Setting{{ID: 1, Val: 0}}, 0},
	{"table=100", []peer.Setting{{ID: 1, Val: 100}}, 0},
	{"table=8192", []peer.Setting{{ID: 1, Val: 8192}}, 0},
	{"push=0", []peer.Setting{{ID: 2, Val: 0}}, 0},
	{"push=2", []peer.Setting{{ID: 2, Val: 2}}, cPROTOCOL},
	{"streams=1", []peer.Setting{{ID: 3, Val: 1}}, 0},
	{"streams=0", []peer.Setting{{ID: 3, Val: 0}}, 0},
	{"window=0", []peer.Setting{{ID: 4, Val: 0}}, 0},
	{"window=100000", []peer.Setting{{ID: 4, Val: 100000}}, 0},
	{"window=2^31", []peer.Setting{{ID: 4, Val: 1 << 31}}, cFLOW},
	{"frame=16384", []peer.Setting{{ID: 5, Val: 16384}}, 0},
	{"frame=32768", []peer.Setting{{ID: 5, Val: 32768}}, 0},
	{"frame=16383", []peer.Setting{{ID: 5, Val: 16383}}, cPROTOCOL},
	{"frame=2^24", []peer.Setting{{ID: 5, Val: 1 << 24}}, cPROTOCOL},
	{"hlist=10", []peer.Setting{{ID: 6, Val: 10}}, 0},
	{"unknown-id", []peer.Setting{{ID: 0x99, Val: 7}}, 0},
	{"table=50+frame=20000", []peer.Setting{{ID: 1, Val: 50}, {ID: 5, Val: 20000}}, 0},
	{"window=5,window=70000", []peer.Setting{{ID: 4, Val: 5}, {ID: 4, Val: 70000}}, 0},
	{"table=0,table=4096", []peer.Setting{{ID: 1, Val: 0}, {ID: 1, Val: 4096}}, 0},
	{"window=100000+frame=32768", []peer.Setting{{ID: 4, Val: 100000}, {ID: 5, Val: 32768}}, 0},
	{"streams=5+table=200", []peer.Setting{{ID: 3, Val: 5}, {ID: 1, Val: 200}}, 0},
	// the same parameter twice in one frame: values are processed in order, an invalid one is an error whatever follows
	{"frame=2^24,frame=16384", []peer.Setting{{ID: 5, Val: 1 << 24}, {ID: 5, Val: 16384}}, cPROTOCOL},
	{"frame=16383,frame=16384", []peer.Setting{{ID: 5, Val: 16383}, {ID: 5, Val: 16384}}, cPROTOCOL},
	{"window=2^31,window=65535", []peer.Setting{{ID: 4, Val: 1 << 31}, {ID: 4, Val: 65535}}, cFLOW},
	{"push=2,push=0", []peer.Setting{{ID: 2, Val: 2}, {ID: 2, Val: 0}}, cPROTOCOL},
	{"frame=20000,frame=2^24", []peer.Setting{{ID: 5, Val: 20000}, {ID: 5, Val: 1 << 24}}, cPROTOCOL},
	{"all six", []peer.Setting{{ID: 1, Val: 300}, {ID: 2, Val: 0}, {ID: 3, Val: 7}, {ID: 4, Val: 80000}, {ID: 5, Val: 17000}, {ID: 6, Val: 100000}}, 0},
}

type c18Case struct {
	Role     string `json:"role"`
	Settings []int  `json:"settings"` // indices into the alphabet
	At       []int  `json:"at"`       // position of each SETTINGS frame in the exchange timeline
	BigHdr   bool   `json:"big_header_list"`
	BigBody  bool   `json:"big_body"`
	Two      bool   `json:"two_exchanges"`
	Extra    string `json:"extra,omitempty"`
	// BigFrames: the peer's first SETTINGS (handshake) already allows 65536-byte frames and a 4 MiB window
	BigFrames bool `json:"big_frames_in_handshake,omitempty"`
	// SmallWin (client role): the handshake allows 65536-byte frames but a 10000-byte stream window, and the
	// body is 100000 bytes: most of the upload is still waiting for credit when the SETTINGS frames arrive
	SmallWin bool `json:"small_window_big_frames,omitempty"`
	// GoAway (client role): before the first SETTINGS frame the server sends GOAWAY(NO_ERROR) covering the stream
	// in flight, which therefore carries on: the limits still govern what is sent on it
	GoAway bool `json:"goaway_covering_first,omitempty"`
	// BigTable (client role): the server's first SETTINGS advertises HEADER_TABLE_SIZE=8192
	BigTable bool `json:"handshake_table_8192,omitempty"`
	// Status (server role): the status the handlers answer with (0: 200). One outside the static table (302) is the
	// only response field the server stores in its dynamic table
	Status int `json:"status,omitempty"`
}

// peerLimits tracks what the peer has told the endpoint.
type peerLimits struct {
	frame   int
	table   int
	streams int
}

func (l *peerLimits) apply(ss []peer.Setting) (tableDip int) {
	tableDip = -1
	for _, s := range ss {
		switch s.ID {
		case 1:
			if int(s.Val) < l.table && (tableDip < 0 || int(s.Val) < tableDip) {
				tableDip = int(s.Val)
			}
			l.table = int(s.Val)
		case 3:
			l.streams = int(s.Val)
		case 5:
			l.frame = int(s.Val)
		}
	}
	return tableDip
}

// ---- server role ----

func c18Server(cs c18Case) (*fw.Violation, *harness.Server) {
	so := harness.ServerOpts{MaxConcurrentStreams: 4}
	if cs.BigFrames {
		so.PeerSettings = []peer.Setting{{ID: 4, Val: 4 << 20}, {ID: 5, Val: 65536}}
	}
	h := harness.NewServer(so)
	mk := func(rule, shape, detail string) *fw.Violation {
		return &fw.Violation{Rule: rule, Shape: "server " + shape, Detail: detail + "\n    events: " + strings.Join(h.EventLog, " ; "), Replay: map[string]any{"family": "c18", "case": cs}}
	}
	lim := &peerLimits{frame: 16384, table: 4096, streams: 1 << 30}
	if cs.BigFrames {
		lim.frame = 65536
	}
	adv := false
	for _, st := range h.Settings {
		for _, p := range st {
			if p.ID == peer.SMaxConcurrentStreams && p.Val == 4 {
				adv = true
			}
		}
	}
	if !adv {
		return mk("own-settings-not-transmitted", "MAX_CONCURRENT_STREAMS", fmt.Sprintf("the server is configured for 4 concurrent streams, its SETTINGS say %v", h.Settings)), h
	}
	mirror := ref.NewTable() // the peer's own decoder state, strict
	pendingDip := -1
	seenOut := 0
	dead := false
	respHdr := [][2]string{{"X-R", "r"}}
	if cs.BigHdr {
		for i := 0; i < 8; i++ {
			respHdr = append(respHdr, [2]string{fmt.Sprint("X-Big-", i), valOfLen(4000)})
		}
	}
	body := []byte("ok")
	if cs.BigBody {
		body = []byte(valOfLen(20000))
	}
	// verify checks every frame received since the last call
	verify := func(when string) *fw.Violation {
		for ; seenOut < len(h.Out); seenOut++ {
			f := h.Out[seenOut]
			if len(f.Payload) > lim.frame {
				return mk("frame-above-peer-max-frame-size", peer.TypeName(f.Type), fmt.Sprintf("%s: %s of %d bytes, the peer's SETTINGS_MAX_FRAME_SIZE is %d", when, peer.TypeName(f.Type), len(f.Payload), lim.frame))
			}
		}
		return nil
	}
	// decode response blocks strictly under the peer's limits
	blocksSeen := map[uint32]int{}
	checkBlocks := func() *fw.Violation {
		for id, so := range h.Streams {
			for i := blocksSeen[id]; i < len(so.RawBlocks); i++ {
				blocksSeen[id] = i + 1
				fs, err := ref.DecodeBlock(mirror, so.RawBlocks[i])
				if err != nil {
					return mk("header-block-invalid-for-peer", "hpack", fmt.Sprintf("response block on stream %d is not valid for the peer's decoder (table limit %d): %v", id, mirror.SettingsMax, err))
				}
				if pendingDip >= 0 {
					if len(fs) == 0 || fs[0].Rep != ref.RepSizeUpdate || fs[0].NewMax > pendingDip {
						return mk("table-size-reduction-not-signalled", "hpack", fmt.Sprintf("the peer reduced SETTINGS_HEADER_TABLE_SIZE to %d; the next header block (stream %d) must start with a dynamic table size update <= %d, it starts with %v", pendingDip, id, pendingDip, firstRep(fs)))
					}
					pendingDip = -1
				}
				if mirror.Size() > lim.table {
					return mk("table-above-peer-limit", "hpack", fmt.Sprintf("after the block on stream %d the table holds %d bytes, the peer allows %d", id, mirror.Size(), lim.table))
				}
			}
		}
		return nil
	}
	sendSettings := func(idx []int) *fw.Violation {
		before := h.Acks
		goBefore := len(h.GoAways)
		var frames []peer.Frame
		var names []string
		valid := 0
		var bad *c18Set
		for _, i := range idx {
			st := c18Alphabet[i]
			frames = append(frames, peer.Settings(st.S...))
			names = append(names, st.Name)
			if bad == nil {
				if st.Invalid != 0 {
					bad = &c18Alphabet[i]
				} else {
					valid++
				}
			}
		}
		name := strings.Join(names, " | ")
		h.SendFrames(frames...)
		if bad != nil {
			dead = true
			if len(h.GoAways) == goBefore && !h.C.Closed() {
				return mk("invalid-settings-accepted", bad.Name, fmt.Sprintf("SETTINGS %s is invalid (RFC 7540 6.5.2) but the connection goes on (acks +%d)", name, h.Acks-before))
			}
			if len(h.GoAways) > goBefore && h.GoAways[goBefore].Code != bad.Invalid {
				return mk("invalid-settings-wrong-code", bad.Name+" -> "+peer.CodeName(h.GoAways[goBefore].Code), fmt.Sprintf("SETTINGS %s answered with GOAWAY(%s), RFC 7540 prescribes %s", name, peer.CodeName(h.GoAways[goBefore].Code), peer.CodeName(bad.Invalid)))
			}
			// an ACK still queued when the connection error ends the connection may be lost: never more than the valid ones
			if h.Acks > before+valid {
				return mk("invalid-settings-acknowledged", bad.Name, fmt.Sprintf("SETTINGS %s: %d acknowledgements, %d valid frames precede the invalid one", name, h.Acks-before, valid))
			}
			return nil
		}
		if h.Acks != before+valid {
			return mk("settings-ack-count", fmt.Sprint(len(idx), " frames"), fmt.Sprintf("SETTINGS %s: %d acknowledgements for %d frames", name, h.Acks-before, valid))
		}
		if len(h.GoAways) > goBefore || h.C.Closed() {
			dead = true
			return mk("valid-settings-rejected", name, fmt.Sprintf("valid SETTINGS %s ended the connection: %s", name, h.Reaction(0)))
		}
		// frames sent before the last ACK may still follow the more lenient of the limits
		old := *lim
		for _, i := range idx {
			st := c18Alphabet[i]
			dip := lim.apply(st.S)
			if dip >= 0 && (pendingDip < 0 || dip < pendingDip) {
				pendingDip = dip
			}
			for _, s := range st.S {
				if s.ID == 1 {
					mirror.SettingsMax = int(s.Val)
				}
			}
		}
		ackAt := -1
		for i := seenOut; i < len(h.Out); i++ {
			if h.Out[i].Type == peer.TSettings && h.Out[i].Has(peer.FAck) {
				ackAt = i
			}
		}
		for i := seenOut; i < len(h.Out); i++ {
			limit := lim.frame
			if i < ackAt && old.frame > limit {
				limit = old.frame
			}
			if len(h.Out[i].Payload) > limit {
				return mk("frame-above-peer-max-frame-size", peer.TypeName(h.Out[i].Type), fmt.Sprintf("after SETTINGS %s: %s of %d bytes, the peer's limit is %d", name, peer.TypeName(h.Out[i].Type), len(h.Out[i].Payload), limit))
			}
		}
		seenOut = len(h.Out)
		return checkBlocks()
	}
	// timeline: request1 headers | handler1 returns | (request2 | handler2 returns)
	steps := []func() *fw.Violation{}
	nreq := 1
	if cs.Two {
		nreq = 2
	}
	for r := 0; r < nreq; r++ {
		id := uint32(2*r + 1)
		steps = append(steps, func() *fw.Violation {
			h.SendFrames(peer.Headers(id, h.PeerEnc.Block(harness.ReqFields("GET", "https", "h", "/s", [2]string{"x-sid", fmt.Sprint(id)}), nil), peer.HeadersOpt{EndStream: true, EndHeaders: true, Pad: -1}))
			return verify("request")
		})
		steps = append(steps, func() *fw.Violation {
			for _, c := range h.Calls {
				if c.Stream == id && !c.Returned {
					status := 200
					if cs.Status != 0 {
						status = cs.Status
					}
					h.Finish(c.Idx, harness.Resp{Status: status, Headers: respHdr, Body: body})
				}
			}
			if v := verify("response"); v != nil {
				return v
			}
			return checkBlocks()
		})
	}
	si := 0
	for pos := 0; pos <= len(steps); pos++ {
		for si < len(cs.Settings) && cs.At[si] == pos {
			if dead {
				break
			}
			n := 1
			if cs.Extra == "burst" {
				for si+n < len(cs.Settings) && cs.At[si+n] == pos {
					n++
				}
			}
			if v := sendSettings(cs.Settings[si : si+n]); v != nil {
				return v, h
			}
			si += n
		}
		if dead {
			return nil, h
		}
		if pos < len(steps) {
			if v := steps[pos](); v != nil {
				return v, h
			}
		}
	}
	// open the windows so that large bodies finish, still within the frame limit
	h.SendFrames(peer.WindowUpdate(0, 1<<20))
	for r := 0; r < nreq; r++ {
		h.SendFrames(peer.WindowUpdate(uint32(2*r+1), 1<<20))
	}
	if v := verify("after window grants"); v != nil {
		return v, h
	}
	if v := checkBlocks(); v != nil {
		return v, h
	}
	for r := 0; r < nreq; r++ {
		id := uint32(2*r + 1)
		so := h.Streams[id]
		if so == nil || so.EndStream != 1 || len(so.Data) != len(body) {
			got := 0
			if so != nil {
				got = len(so.Data)
			}
			return mk("response-incomplete", "exchange", fmt.Sprintf("stream %d: %d of %d body bytes, after every SETTINGS frame was acknowledged and all windows opened", id, got, len(body))), h
		}
	}
	switch cs.Extra {
	case "frame-above-advertised":
		// the server advertised the default 16384: a larger frame is a FRAME_SIZE_ERROR whatever the peer allows for itself
		goBefore := len(h.GoAways)
		h.SendFrames(peer.Frame{Type: peer.TData, Stream: 9, Payload: make([]byte, 16385)})
		if len(h.GoAways) == goBefore && !h.C.Closed() {
			return mk("own-max-frame-size-not-enforced", "advertised 16384", "a 16385-byte frame was accepted although the server advertised SETTINGS_MAX_FRAME_SIZE 16384"), h
		}
		if len(h.GoAways) > goBefore && h.GoAways[goBefore].Code != cFRAMESIZE {
			return mk("own-max-frame-size-wrong-code", peer.CodeName(h.GoAways[goBefore].Code), "frame above the advertised size answered with "+peer.CodeName(h.GoAways[goBefore].Code)), h
		}
	}
	if p := h.Panicked(); len(p) > 0 {
		return mk("server-panic", "panic", strings.Join(p, "; ")), h
	}
	return nil, h
}

func firstRep(fs []ref.DecField) string {
	if len(fs) == 0 {
		return "nothing"
	}
	if fs[0].Rep == ref.RepSizeUpdate {
		return fmt.Sprintf("size update %d", fs[0].NewMax)
	}
	return fs[0].Rep.String() + " field"
}

// ---- client role ----

func c18Client(cs c18Case) (*fw.Violation, *harness.Client) {
	co := harness.ClientOpts{}
	if cs.BigFrames {
		co.ServerSettings = []peer.Setting{{ID: 4, Val: 4 << 20}, {ID: 5, Val: 65536}}
	}
	if cs.SmallWin {
		co.ServerSettings = []peer.Setting{{ID: 4, Val: 10000}, {ID: 5, Val: 65536}}
	}
	if cs.BigTable {
		co.ServerSettings = append(co.ServerSettings, peer.Setting{ID: 1, Val: 8192})
	}
	h := harness.NewClient(co)
	mk := func(rule, shape, detail string) *fw.Violation {
		return &fw.Violation{Rule: rule, Shape: "client " + shape, Detail: detail + "\n    events: " + strings.Join(h.EventLog, " ; "), Replay: map[string]any{"family": "c18", "case": cs}}
	}
	hdrs := [][2]string{{"X-Q", "q"}}
	if cs.BigHdr {
		for i := 0; i < 8; i++ {
			hdrs = append(hdrs, [2]string{fmt.Sprint("X-Big-", i), valOfLen(4000)})
		}
	}
	var body []byte
	if cs.BigBody {
		body = []byte(valOfLen(20000))
	}
	if cs.SmallWin {
		body = []byte(valOfLen(100000))
	}
	spec := func(i int) harness.ReqSpec {
		s := harness.ReqSpec{Tag: fmt.Sprint("q", i), Method: "POST", Path: fmt.Sprint("/q", i), Headers: hdrs, Body: body}
		if body == nil {
			s.Method = "GET"
		}
		return s
	}
	lim := &peerLimits{frame: 16384, table: 4096, streams: 100}
	if cs.BigFrames || cs.SmallWin {
		lim.frame = 65536
	}
	mirror := ref.NewTable()
	if cs.BigTable {
		lim.table = 8192
		mirror.SettingsMax = 8192
	}
	pendingDip := -1
	seen := 0
	blocks := map[uint32]bool{}
	dead := false
	var srv *harness.SrvConn
	answered := map[uint32]bool{}
	counted := 0
	verify := func(when string) *fw.Violation {
		if srv == nil {
			if len(h.Conns) == 0 {
				return nil
			}
			srv = h.Conns[0]
			// the client's own settings: ENABLE_PUSH=0 must be on the wire
			ok := false
			for _, st := range srv.Settings {
				for _, p := range st {
					if p.ID == peer.SEnablePush && p.Val == 0 {
						ok = true
					}
				}
			}
			if !ok {
				return mk("enable-push-0-not-transmitted", "own settings", fmt.Sprintf("the client's SETTINGS %v do not contain ENABLE_PUSH=0", srv.Settings))
			}
		}
		for ; seen < len(srv.Out); seen++ {
			f := srv.Out[seen]
			if len(f.Payload) > lim.frame {
				return mk("frame-above-peer-max-frame-size", peer.TypeName(f.Type), fmt.Sprintf("%s: %s of %d bytes, the server's SETTINGS_MAX_FRAME_SIZE is %d", when, peer.TypeName(f.Type), len(f.Payload), lim.frame))
			}
		}
		for _, id := range srv.Order {
			st := srv.Streams[id]
			if blocks[id] || st.Blocks == 0 {
				continue
			}
			blocks[id] = true
			fs, err := ref.DecodeBlock(mirror, st.RawBlock)
			if err != nil {
				return mk("header-block-invalid-for-peer", "hpack", fmt.Sprintf("request block on stream %d is not valid for the server's decoder (table limit %d): %v", id, mirror.SettingsMax, err))
			}
			if pendingDip >= 0 {
				if len(fs) == 0 || fs[0].Rep != ref.RepSizeUpdate || fs[0].NewMax > pendingDip {
					return mk("table-size-reduction-not-signalled", "hpack", fmt.Sprintf("the server reduced SETTINGS_HEADER_TABLE_SIZE to %d; the next request block (stream %d) must start with a size update <= %d, it starts with %v", pendingDip, id, pendingDip, firstRep(fs)))
				}
				pendingDip = -1
			}
			if mirror.Size() > lim.table {
				return mk("table-above-peer-limit", "hpack", fmt.Sprintf("after the block on stream %d the table holds %d bytes, the server allows %d", id, mirror.Size(), lim.table))
			}
		}
		// a stream may only be opened while fewer than the limit are open
		for ; counted < len(srv.Order); counted++ {
			open := 0
			for _, id := range srv.Order[:counted] {
				if !answered[id] && len(srv.Streams[id].Rst) == 0 {
					open++
				}
			}
			if open+1 > lim.streams {
				return mk("streams-above-peer-max-concurrent", fmt.Sprint("limit=", lim.streams), fmt.Sprintf("stream %d opened while %d streams were open on the connection, the server's SETTINGS_MAX_CONCURRENT_STREAMS is %d", srv.Order[counted], open, lim.streams))
			}
		}
		return nil
	}
	goAwaySent := false
	sendSettings := func(idx []int) *fw.Violation {
		if srv == nil {
			return nil
		}
		before := srv.Acks
		streamsBefore := len(srv.Order)
		var frames []peer.Frame
		var names []string
		valid := 0
		var bad *c18Set
		for _, i := range idx {
			st := c18Alphabet[i]
			frames = append(frames, peer.Settings(st.S...))
			names = append(names, st.Name)
			if bad == nil {
				if st.Invalid != 0 {
					bad = &c18Alphabet[i]
				} else {
					valid++
				}
			}
		}
		name := strings.Join(names, " | ")
		if cs.GoAway && !goAwaySent && len(srv.Order) > 0 {
			goAwaySent = true
			h.Send(0, peer.GoAway(srv.Order[len(srv.Order)-1], 0, ""))
		}
		h.Send(0, frames...)
		if bad != nil {
			dead = true
			if srv.Acks > before+valid {
				return mk("invalid-settings-acknowledged", bad.Name, fmt.Sprintf("SETTINGS %s: %d acknowledgements, %d valid frames precede the invalid one", name, srv.Acks-before, valid))
			}
			// the connection must not be used for new streams
			h.Go(spec(9))
			if len(srv.Order) > streamsBefore {
				return mk("invalid-settings-accepted", bad.Name, fmt.Sprintf("SETTINGS %s is invalid but the client opened stream %d on the same connection afterwards", name, srv.Order[len(srv.Order)-1]))
			}
			return nil
		}
		if srv.Acks != before+valid {
			return mk("settings-ack-count", fmt.Sprint(len(idx), " frames"), fmt.Sprintf("SETTINGS %s: %d acknowledgements for %d frames", name, srv.Acks-before, valid))
		}
		if srv.C.Closed() || len(srv.GoAways) > 0 {
			dead = true
			return mk("valid-settings-rejected", name, "valid SETTINGS made the client drop the connection")
		}
		old := lim.frame
		for _, i := range idx {
			st := c18Alphabet[i]
			dip := lim.apply(st.S)
			if dip >= 0 && (pendingDip < 0 || dip < pendingDip) {
				pendingDip = dip
			}
			for _, s := range st.S {
				if s.ID == 1 {
					mirror.SettingsMax = int(s.Val)
				}
			}
		}
		ackAt := -1
		for i := seen; i < len(srv.Out); i++ {
			if srv.Out[i].Type == peer.TSettings && srv.Out[i].Has(peer.FAck) {
				ackAt = i
			}
		}
		for i := seen; i < len(srv.Out); i++ {
			limit := lim.frame
			if i < ackAt && old > limit {
				limit = old
			}
			if len(srv.Out[i].Payload) > limit {
				return mk("frame-above-peer-max-frame-size", peer.TypeName(srv.Out[i].Type), fmt.Sprintf("after SETTINGS %s: %s of %d bytes, the server's limit is %d", name, peer.TypeName(srv.Out[i].Type), len(srv.Out[i].Payload), limit))
			}
		}
		seen = len(srv.Out)
		return verify("after settings")
	}
	nreq := 1
	if cs.Two {
		nreq = 2
	}
	var calls []*harness.CCall
	steps := []func() *fw.Violation{}
	for r := 0; r < nreq; r++ {
		r := r
		steps = append(steps, func() *fw.Violation {
			calls = append(calls, h.Go(spec(r)))
			return verify("request")
		})
	}
	for r := 0; r < nreq; r++ {
		r := r
		steps = append(steps, func() *fw.Violation {
			if srv == nil || r >= len(srv.Order) {
				return nil
			}
			id := srv.Order[r]
			h.Send(0, peer.WindowUpdate(0, 1<<20), peer.WindowUpdate(id, 1<<20))
			if v := verify("after window grants"); v != nil {
				return v
			}
			answered[id] = true
			h.Send(0, srv.RespFrames(id, []ref.Field{{Name: ":status", Value: "200"}}, nil, nil, [][]byte{[]byte("ok")}, -1)...)
			return verify("response")
		})
	}
	si := 0
	for pos := 0; pos <= len(steps); pos++ {
		for si < len(cs.Settings) && cs.At[si] == pos {
			if dead {
				break
			}
			if pos == 0 && srv == nil {
				// before the first request there is no connection yet: deliver right after the handshake
				calls = append(calls, h.Go(harness.ReqSpec{Tag: "warm", Path: "/warm"}))
				if v := verify("warm-up"); v != nil {
					return v, h
				}
				w := uint32(1)
				if len(srv.Order) > 0 {
					w = srv.Order[0]
				}
				answered[w] = true
				h.Send(0, srv.RespFrames(w, []ref.Field{{Name: ":status", Value: "200"}}, nil, nil, nil, -1)...)
			}
			n := 1
			if cs.Extra == "burst" {
				for si+n < len(cs.Settings) && cs.At[si+n] == pos {
					n++
				}
			}
			if v := sendSettings(cs.Settings[si : si+n]); v != nil {
				return v, h
			}
			si += n
		}
		if dead {
			return nil, h
		}
		if pos < len(steps) {
			if v := steps[pos](); v != nil {
				return v, h
			}
		}
	}
	switch cs.Extra {
	case "frame-above-advertised":
		if srv != nil && !srv.C.Closed() {
			n0 := len(srv.Order)
			c := h.Go(harness.ReqSpec{Tag: "big", Path: "/big"})
			if len(srv.Order) == n0 {
				break
			}
			id := srv.Order[len(srv.Order)-1]
			h.Send(0, srv.RespFrames(id, []ref.Field{{Name: ":status", Value: "200"}}, nil, nil, [][]byte{nil}, -1)[0])
			h.Send(0, peer.Frame{Type: peer.TData, Stream: id, Flags: peer.FEndStream, Payload: make([]byte, 16385)})
			if c.Done && c.Err == nil {
				return mk("own-max-frame-size-not-enforced", "advertised 16384", "a 16385-byte DATA frame was delivered although the client advertised the default SETTINGS_MAX_FRAME_SIZE of 16384"), h
			}
		}
	case "push-despite-enable-push-0":
		if srv != nil && !srv.C.Closed() {
			n0 := len(srv.Order)
			c := h.Go(harness.ReqSpec{Tag: "p", Path: "/p"})
			if len(srv.Order) == n0 {
				break // the peer's limits keep the request waiting: nothing to promise on
			}
			id := srv.Order[len(srv.Order)-1]
			streamsBefore := len(srv.Order)
			pp := append([]byte{0, 0, 0, 2}, srv.Enc.Block(harness.ReqFields("GET", "https", "h", "/pushed"), nil)...)
			h.Send(0, peer.Frame{Type: peer.TPushPromise, Flags: peer.FEndHeaders, Stream: id, Payload: pp})
			h.Go(harness.ReqSpec{Tag: "after", Path: "/after"})
			if len(srv.Order) > streamsBefore {
				return mk("own-enable-push-0-not-enforced", "push promise", fmt.Sprintf("the client advertised ENABLE_PUSH=0, was sent PUSH_PROMISE and still opened stream %d on the same connection", srv.Order[len(srv.Order)-1])), h
			}
			if !c.Done || c.Err == nil {
				return mk("own-enable-push-0-not-enforced", "push promise pending", fmt.Sprintf("PUSH_PROMISE with push disabled is a connection error, yet the request on stream %d is done=%v err=%v", id, c.Done, c.Err)), h
			}
		}
	}
	// every answered request has to come back to its caller intact
	for i, c := range calls {
		if i >= len(srv0(h).Order) {
			break
		}
		id := srv0(h).Order[i]
		if !answered[id] || dead {
			continue
		}
		if !c.Done || c.Err != nil || c.Status != 200 {
			return mk("exchange-broken-by-settings", "exchange", fmt.Sprintf("request %s (stream %d) was answered with 200 after valid SETTINGS only: done=%v err=%v status=%d", c.Tag, id, c.Done, c.Err, c.Status)), h
		}
		// and the server must have received the request in full
		st := srv.Streams[id]
		if st.EndStream != 1 || len(st.Data) != len(body) && c.Tag != "warm" {
			return mk("exchange-broken-by-settings", "request body", fmt.Sprintf("request %s (stream %d): server received %d of %d body bytes, END_STREAM x%d", c.Tag, id, len(st.Data), len(body), st.EndStream)), h
		}
	}
	if len(h.S.Panics) > 0 {
		return mk("process-would-crash", "panic", strings.Join(h.S.Panics, "; ")), h
	}
	return nil, h
}

func srv0(h *harness.Client) *harness.SrvConn {
	if len(h.Conns) == 0 {
		return &harness.SrvConn{}
	}
	return h.Conns[0]
}

func runC18(c *fw.Ctx) {
	runSpxFamily(c, "C18")
	thorough := c.Tier == "thorough"
	var item int64
	sampled := 0
	do := func(cs c18Case) {
		if item++; !c.Mine(item) {
			return
		}
		if c.Expired("C18") {
			return
		}
		js, _ := json.Marshal(cs)
		var v *fw.Violation
		var events int
		var digest string
		if cs.Role == "server" {
			vv, h := c18Server(cs)
			v, events, digest = vv, h.Events, h.Digest()
			h.Close()
		} else {
			vv, h := c18Client(cs)
			v, events, digest = vv, h.Events, h.Digest()
			h.Close()
		}
		c.Eval(nt(len(cs.Settings) > 0, js))
		c.AddTransitions(int64(events))
		c.AddTraces(1)
		c.State(fw.Hash(digest))
		if v != nil {
			c.Violate(*v)
			c.Outcome(v.Rule)
		} else {
			c.Outcome("obeyed:" + cs.Role)
		}
		if sampled < 3 && len(cs.Settings) == 2 {
			sampled++
			c.Sample(map[string]any{"case": cs})
		}
	}
	for _, role := range []string{"server", "client"} {
		for _, two := range []bool{false, true} {
			npos := 3
			if two {
				npos = 5
			}
			for _, bh := range []bool{false, true} {
				for _, bb := range []bool{false, true} {
					do(c18Case{Role: role, BigHdr: bh, BigBody: bb, Two: two})
					do(c18Case{Role: role, BigHdr: bh, BigBody: bb, Two: two, Extra: "frame-above-advertised"})
					if role == "client" {
						do(c18Case{Role: role, BigHdr: bh, BigBody: bb, Two: two, Extra: "push-despite-enable-push-0"})
					}
					for a := range c18Alphabet {
						for pa := 0; pa < npos; pa++ {
							do(c18Case{Role: role, Settings: []int{a}, At: []int{pa}, BigHdr: bh, BigBody: bb, Two: two})
							if pa == 0 && !bh && !bb {
								do(c18Case{Role: role, Settings: []int{a}, At: []int{pa}, Two: two, Extra: "frame-above-advertised"})
								if role == "client" {
									do(c18Case{Role: role, Settings: []int{a}, At: []int{pa}, Two: two, Extra: "push-despite-enable-push-0"})
								}
							}
							if !bh && bb && !thorough {
								continue
							}
							for b := range c18Alphabet {
								if !thorough && (a+b)%4 != 0 {
									continue
								}
								for pb := pa; pb < npos; pb++ {
									if !thorough && pb != pa && pb != npos-1 {
										continue
									}
									do(c18Case{Role: role, Settings: []int{a, b}, At: []int{pa, pb}, BigHdr: bh, BigBody: bb, Two: two})
									if pa == pb && !bb {
										do(c18Case{Role: role, Settings: []int{a, b}, At: []int{pa, pb}, BigHdr: bh, Two: two, Extra: "burst"})
									}
								}
							}
						}
					}
				}
			}
		}
	}
	// the peer starts with large frames and a large window, then changes its mind
	for _, role := range []string{"server", "client"} {
		for a := range c18Alphabet {
			for pa := 0; pa < 5; pa++ {
				do(c18Case{Role: role, Settings: []int{a}, At: []int{pa}, BigHdr: true, BigBody: true, Two: true, BigFrames: true})
				if thorough {
					do(c18Case{Role: role, Settings: []int{a}, At: []int{pa}, BigHdr: false, BigBody: true, Two: true, BigFrames: true})
					for b := range c18Alphabet {
						do(c18Case{Role: role, Settings: []int{a, b}, At: []int{pa, pa}, BigHdr: true, BigBody: true, Two: true, BigFrames: true})
					}
				}
			}
		}
	}
	// raise with one frame, lower with the next, at every pair of positions
	raise, lower := -1, -1
	for i, st := range c18Alphabet {
		if st.Name == "window=100000+frame=32768" {
			raise = i
		}
		if st.Name == "frame=16384" {
			lower = i
		}
	}
	for _, role := range []string{"server", "client"} {
		for pa := 0; pa < 5; pa++ {
			for pb := pa; pb < 5; pb++ {
				do(c18Case{Role: role, Settings: []int{raise, lower}, At: []int{pa, pb}, BigHdr: true, BigBody: true, Two: true})
			}
		}
	}
	// the server stores :status in its table when it is not a static one: every table-size frame before / between
	// two 302 responses
	for a := range c18Alphabet {
		if !strings.Contains(c18Alphabet[a].Name, "table") {
			continue
		}
		for pa := 0; pa < 5; pa++ {
			do(c18Case{Role: "server", Settings: []int{a}, At: []int{pa}, Two: true, Status: 302})
			for b := range c18Alphabet {
				if strings.Contains(c18Alphabet[b].Name, "table") && pa%2 == 0 {
					do(c18Case{Role: "server", Settings: []int{a, b}, At: []int{pa, pa}, Two: true, Status: 302})
				}
			}
		}
	}
	// the handshake itself raises the table size; later frames lower it (to 0 too) and raise it again
	for _, two := range []bool{false, true} {
		npos := 3
		if two {
			npos = 5
		}
		for a := range c18Alphabet {
			if !strings.Contains(c18Alphabet[a].Name, "table") {
				continue
			}
			for pa := 0; pa < npos; pa++ {
				do(c18Case{Role: "client", Settings: []int{a}, At: []int{pa}, Two: two, BigTable: true})
				for b := range c18Alphabet {
					if strings.Contains(c18Alphabet[b].Name, "table") && two {
						do(c18Case{Role: "client", Settings: []int{a, b}, At: []int{pa, pa}, Two: two, BigTable: true})
					}
				}
			}
		}
	}
	// uploads that are mostly waiting for credit (stream window 10000, frames up to 65536 allowed) when SETTINGS arrive
	for _, two := range []bool{false, true} {
		npos := 3
		if two {
			npos = 5
		}
		for a := range c18Alphabet {
			for pa := 0; pa < npos; pa++ {
				do(c18Case{Role: "client", Settings: []int{a}, At: []int{pa}, BigBody: true, Two: two, SmallWin: true})
			}
		}
		if !two {
			// the same with a graceful GOAWAY in front: the upload it covers carries on under the new limits
			for a := range c18Alphabet {
				if c18Alphabet[a].Invalid != 0 {
					continue
				}
				for pa := 1; pa < npos; pa++ {
					do(c18Case{Role: "client", Settings: []int{a}, At: []int{pa}, BigBody: true, SmallWin: true, GoAway: true})
				}
			}
		}
		for pa := 0; pa < npos; pa++ {
			for pb := pa; pb < npos; pb++ {
				do(c18Case{Role: "client", Settings: []int{raise, lower}, At: []int{pa, pb}, BigBody: true, Two: two, SmallWin: true})
				do(c18Case{Role: "client", Settings: []int{lower, raise}, At: []int{pa, pb}, BigBody: true, Two: two, SmallWin: true})
			}
		}
	}
	c.Bound["settings_alphabet"] = len(c18Alphabet)
}

func replayC18(raw json.RawMessage) (string, bool) {
	var r struct {
		Case c18Case `json:"case"`
	}
	if err := json.Unmarshal(raw, &r); err != nil {
		return err.Error(), false
	}
	var v *fw.Violation
	if r.Case.Role == "server" {
		vv, h := c18Server(r.Case)
		v = vv
		defer h.Close()
	} else {
		vv, h := c18Client(r.Case)
		v = vv
		defer h.Close()
	}
	if v != nil {
		return v.Rule + " [" + v.Shape + "]: " + v.Detail, true
	}
	return "SETTINGS acknowledged and obeyed", false
}
