package checks

import (
	"encoding/json"
	"fmt"
	"strings"

	"verif/fw"
	"verif/harness"
	"verif/peer"
	"verif/ref"
)

// C02, family "history". One client connection is used for a long run of requests, the way a real client uses it:
// every request has a path and a field of its own (the client's HPACK encoder table fills, its indices pass the
// one-octet boundary, it evicts), every response carries fresh fields plus one sent long ago (the same for the
// server's encoder against the client's decoder) and a body in padded DATA frames, and the scripted server is a
// conforming sender: it writes DATA only within the windows the client has granted (ledger as in C14), so a client
// that loses count of its receive windows leaves a caller without its response. Oracle: C02's own, per request:
// the server received exactly the request on a fresh odd increasing id, the caller got exactly the response.

type c02HistCase struct {
	Requests int `json:"requests"`
	Entry    int `json:"field_octets"`
	Frames   int `json:"data_frames_per_response"`
	Pad      int `json:"pad"`
	Upload   int `json:"upload_octets"`
}

func c02HistRun(cs c02HistCase) (*fw.Violation, *harness.Client) {
	h := harness.NewClient(harness.ClientOpts{})
	mk := func(rule, shape, detail string) *fw.Violation {
		ev := h.EventLog
		if len(ev) > 8 {
			ev = append([]string{fmt.Sprintf("…%d events…", len(ev)-8)}, ev[len(ev)-8:]...)
		}
		return &fw.Violation{Rule: rule, Shape: shape, Detail: detail + "\n    events: " + strings.Join(ev, " ; "), Replay: map[string]any{"family": "c02hist", "case": cs}}
	}
	var s *csender
	var lastID uint32
	indexed := func(int) ref.EncChoice { return ref.EncChoice{Rep: ref.RepIndexed, NameIndex: true} }
	for i := 0; i < cs.Requests; i++ {
		spec := harness.ReqSpec{Tag: fmt.Sprint("r", i), Method: "GET", Path: fmt.Sprintf("/history/%04d", i),
			Headers: [][2]string{{"x-req", valOfLen(cs.Entry-32-5-4) + fmt.Sprintf("%04d", i)}, {"x-common", "c"}}}
		if i >= 8 {
			// a field this client sent eight requests ago
			spec.Headers = append(spec.Headers, [2]string{"x-old", valOfLen(cs.Entry-32-5-4) + fmt.Sprintf("%04d", i-8)})
		}
		if cs.Upload > 0 && i%3 == 1 {
			spec.Method = "POST"
			spec.Body = []byte(valOfLen(cs.Upload))
		}
		call := h.Go(spec)
		if len(h.Conns) != 1 {
			return mk("unexpected-dials", fmt.Sprint(len(h.Conns)), fmt.Sprintf("request %d: %d connections dialed", i, len(h.Conns))), h
		}
		srv := h.Conns[0]
		if s == nil {
			s = &csender{h: h, srv: srv, conn: 65535, init: 65535, strm: map[uint32]int64{}}
			for _, st := range srv.Settings {
				for _, p := range st {
					if p.ID == peer.SInitialWindowSize {
						s.init = int64(p.Val)
					}
				}
			}
		}
		if len(srv.Order) != i+1 {
			return mk("request-not-sent", "history", fmt.Sprintf("request %d: the server has seen %d request streams (connection closed=%v, GOAWAY %v)", i, len(srv.Order), srv.C.Closed(), srv.GoAways)), h
		}
		id := srv.Order[i]
		if id%2 != 1 || id <= lastID {
			return mk("stream-id-allocation", "history", fmt.Sprintf("request %d on stream %d after stream %d", i, id, lastID)), h
		}
		lastID = id
		if d, cl := checkSentRequest(spec, srv.Streams[id]); d != "" {
			return mk("request-not-intact", "history "+cl, fmt.Sprintf("request %d (stream %d): %s", i, id, d)), h
		}
		if spec.Body != nil {
			// a conforming server hands the connection credit back (the stream is done: nothing to grant there)
			h.Send(srv.Idx, peer.WindowUpdate(0, uint32(len(spec.Body))))
		}
		// response
		s.strm[id] = s.init
		fields := []ref.Field{{Name: ":status", Value: "200"}, {Name: "x-tag", Value: spec.Tag}, {Name: "x-resp", Value: valOfLen(cs.Entry-32-6-4) + fmt.Sprintf("%04d", i)}}
		if i >= 8 {
			fields = append(fields, ref.Field{Name: "x-resp", Value: valOfLen(cs.Entry-32-6-4) + fmt.Sprintf("%04d", i-8)})
		}
		var body []byte
		h.Send(srv.Idx, srv.RespFrames(id, fields, indexed, nil, [][]byte{nil}, -1)[0])
		for k := 0; k < cs.Frames; k++ {
			chunk := []byte(fmt.Sprintf("%04d/%02d;", i, k))
			body = append(body, chunk...)
			if r, d := s.send(id, chunk, k == cs.Frames-1, cs.Pad); r != "" {
				return mk("response-not-deliverable", "history "+r, fmt.Sprintf("request %d (stream %d), DATA frame %d: %s", i, id, k, d)), h
			}
		}
		if !call.Done || call.Err != nil {
			return mk("response-not-delivered-intact", "history unresolved", fmt.Sprintf("request %d (stream %d): complete response sent, done=%v err=%v", i, id, call.Done, call.Err)), h
		}
		if call.Status != 200 || string(call.Body) != string(body) {
			return mk("response-not-delivered-intact", "history body", fmt.Sprintf("request %d: status %d body %q, the server sent 200 %q", i, call.Status, clipStr(string(call.Body)), clipStr(string(body)))), h
		}
		want := map[string][]string{}
		for _, f := range fields[1:] {
			want[f.Name] = append(want[f.Name], f.Value)
		}
		got := map[string][]string{}
		for _, kv := range call.Headers {
			got[strings.ToLower(kv[0])] = append(got[strings.ToLower(kv[0])], kv[1])
		}
		for n, vs := range want {
			if strings.Join(got[n], "\x00") != strings.Join(vs, "\x00") {
				return mk("response-not-delivered-intact", "history field", fmt.Sprintf("request %d: response field %q: caller got %d values %.60q, the server sent %d values %.60q", i, n, len(got[n]), got[n], len(vs), vs)), h
			}
		}
		if srv.C.Closed() || len(srv.GoAways) > 0 {
			return mk("client-dropped-connection", "history", fmt.Sprintf("after request %d the client ended the connection (GOAWAY %v)", i, srv.GoAways)), h
		}
	}
	if r, d := s.absorb(); r != "" {
		return mk("response-not-deliverable", "history "+r, d), h
	}
	if len(h.S.Panics) > 0 {
		return mk("process-would-crash", "history", strings.Join(h.S.Panics, "; ")), h
	}
	return nil, h
}

func clipStr(s string) string {
	if len(s) > 48 {
		return s[:48] + "…"
	}
	return s
}

func runC02Hist(c *fw.Ctx) {
	cases := []c02HistCase{
		{Requests: 150, Entry: 47, Frames: 2, Pad: -1},
		{Requests: 90, Entry: 64, Frames: 50, Pad: 255},
		{Requests: 90, Entry: 130, Frames: 3, Pad: 0, Upload: 3000},
	}
	if c.Tier == "thorough" {
		cases = append(cases, c02HistCase{Requests: 400, Entry: 64, Frames: 30, Pad: 255, Upload: 20000}, c02HistCase{Requests: 300, Entry: 41, Frames: 1, Pad: -1}, c02HistCase{Requests: 200, Entry: 4000, Frames: 2, Pad: 7})
	}
	c.Bound["history_cases"] = len(cases)
	for i, cs := range cases {
		if !c.Mine(int64(1)<<46 + int64(i)) {
			continue
		}
		if c.Expired("C02 history") {
			return
		}
		v, h := c02HistRun(cs)
		js, _ := json.Marshal(cs)
		c.Eval(nt(true, append([]byte("hist"), js...)))
		c.AddTransitions(int64(h.Events))
		c.AddTraces(1)
		c.State(fw.Hash(h.Digest()))
		if v != nil {
			c.Violate(*v)
			c.Outcome(v.Rule)
		} else {
			c.Outcome("intact")
		}
		h.Close()
	}
	c.Family("history")
}

func replayC02Hist(raw json.RawMessage) (string, bool) {
	var r struct {
		Case c02HistCase `json:"case"`
	}
	if err := json.Unmarshal(raw, &r); err != nil {
		return err.Error(), false
	}
	v, h := c02HistRun(r.Case)
	defer h.Close()
	if v != nil {
		return v.Rule + " [" + v.Shape + "]: " + v.Detail, true
	}
	return "history served intact", false
}
