package checks

import (
	"bytes"
	"encoding/json"
	"fmt"
	"sort"
	"strings"

	"verif/fw"
	"verif/harness"
	"verif/peer"
	"verif/ref"
	"verif/vsched"
)

// C02 — the client sends each request intact and each caller gets exactly its
// own response.

func init() {
	fw.Register(&fw.Check{
		ID: "C02", Level: "model_checking",
		Rule:   "ELX on the real Client.RoundTrip (dial, handshake, both loops) against a scripted x/net-HPACK server: 1-3 concurrent requests from a vocabulary (methods, tagged paths, header sets with connection-specific fields, bodies none / buffered / streamed declared / streamed unknown / streamed empty); server behaviour = every order of answering, every frame-by-frame interleaving of two responses, response header block split into HEADERS+CONTINUATION at every offset, every representation of :status and of a literal field, padded and empty DATA frames, every chunking of a 3-byte body. Oracle, server side: each request arrives once, on the next odd id, with exactly the caller's method/path/authority/scheme, fields (minus connection-specific ones; derived user-agent/content-length/content-type tolerated) and body, END_STREAM once; caller side: status, fields and body are those the script sent on THAT stream, and no error. Non-trivial: >= 2 requests or a non-default response encoding; distinct by scenario.",
		Assume: []string{"callers are started one at a time (submission races are explored in C19)", "fasthttp's derived request headers (user-agent, content-length, content-type) may be added by the client"},
		Run:    runC02, Replay: replayC02, Policies: 1, QuickS: 200, ThoroughS: 900,
	})
}

var c02Reqs = []harness.ReqSpec{
	{Tag: "a", Method: "GET", Path: "/a?x=1", Headers: [][2]string{{"X-A", "1"}, {"Accept", "*/*"}}},
	{Tag: "b", Method: "POST", Path: "/b", Headers: [][2]string{{"X-B", "2"}, {"Connection", "keep-alive"}, {"Keep-Alive", "timeout=5"}, {"User-Agent", "ua/2"}}, Body: []byte("body-b")},
	{Tag: "c", Method: "PUT", Path: "/c", Headers: [][2]string{{"X-Rep", "1"}, {"X-Rep", "2"}, {"Upgrade", "h2c"}}, Stream: [][]byte{[]byte("st"), []byte("ream")}, Declared: 6},
	{Tag: "d", Method: "POST", Path: "/d", Headers: [][2]string{{"Transfer-Encoding", "chunked"}, {"Cookie", "k=v"}}, Stream: [][]byte{[]byte("unk"), []byte("nown")}, Declared: -1},
	{Tag: "e", Method: "POST", Path: "/e", Stream: [][]byte{}, Declared: -1},
	{Tag: "f", Method: "POST", Path: "/f", Stream: [][]byte{}, Declared: 0},
	{Tag: "g", Method: "POST", Path: "/g", Stream: [][]byte{[]byte("eof"), []byte("-with-data")}, Declared: 13, EOFWithLast: true},
	{Tag: "h", Method: "POST", Path: "/h", Stream: [][]byte{[]byte("eof-with-data-unknown")}, Declared: -1, EOFWithLast: true},
	{Tag: "i", Method: "PUT", Path: "/i", Stream: [][]byte{[]byte("one"), []byte("byte")}, Declared: -1, OneByte: true},
	{Tag: "j", Method: "PUT", Path: "/j", Stream: [][]byte{[]byte(valOfLen(16384)), []byte(valOfLen(16385))}, Declared: 32769, EOFWithLast: true},
	{Tag: "k", Method: "PUT", Path: "/k", Stream: [][]byte{[]byte("x")}, Declared: 1, OneByte: true, EOFWithLast: true},
	// 11-13: uploads larger than a small stream window, each with its own filler octet
	{Tag: "ua", Method: "PUT", Path: "/ua", Stream: [][]byte{bytesOf('A', 3000)}, Declared: 3000},
	{Tag: "ub", Method: "PUT", Path: "/ub", Stream: [][]byte{bytesOf('B', 1700), bytesOf('b', 1300)}, Declared: -1},
	{Tag: "uc", Method: "POST", Path: "/uc", Body: bytesOf('C', 3000)},
	// 14-15: fields larger than the whole HPACK table (4096): a query string and a user-agent of 5000 octets
	{Tag: "long", Method: "GET", Path: "/long?q=" + valOfLen(5000)},
	{Tag: "longua", Method: "GET", Path: "/longua", Headers: [][2]string{{"User-Agent", valOfLen(5000)}, {"X-L", "l"}}},
	// 16-18: header lists that need one, two and several CONTINUATION frames under the server's 16384-octet frame size
	{Tag: "h20", Method: "GET", Path: "/h20", Headers: manyFields(20)},
	{Tag: "h40", Method: "POST", Path: "/h40", Headers: manyFields(40), Body: []byte("after-a-long-head")},
	{Tag: "h90", Method: "GET", Path: "/h90", Headers: manyFields(90)},
}

func manyFields(n int) [][2]string {
	var out [][2]string
	for i := 0; i < n; i++ {
		out = append(out, [2]string{fmt.Sprintf("X-Many-%03d", i), fmt.Sprintf("%03d-", i) + valOfLen(996)})
	}
	return out
}

func bytesOf(c byte, n int) []byte {
	b := make([]byte, n)
	for i := range b {
		b[i] = c
	}
	return b
}

type c02Resp struct {
	Status  string      `json:"status"`
	Fields  [][2]string `json:"fields"`
	Body    string      `json:"body"`
	Chunks  []int       `json:"chunks,omitempty"` // DATA sizes (nil: one frame; empty body: END_STREAM on HEADERS)
	Splits  []int       `json:"splits,omitempty"`
	Choice  string      `json:"choice,omitempty"` // representation of every field "rep/idx/hn/hv"
	Pad     int         `json:"pad"`
	EmptyES bool        `json:"end_on_empty_data"`
	// Trailers: the response ends with a trailer section (a HEADERS frame with END_STREAM after the body)
	Trailers bool `json:"trailers,omitempty"`
	// TrailerSplit > 0: the trailer block is cut into HEADERS(END_STREAM) + CONTINUATION(END_HEADERS) at that offset
	TrailerSplit int `json:"trailer_split,omitempty"`
	// Interim: informational responses (1xx) sent on the stream before the final one, each a header block of its own
	Interim []string `json:"interim,omitempty"`
	// HeadPad > 0: the response HEADERS frame is padded with HeadPad-1 octets; HeadPrio: it carries a priority section
	HeadPad  int  `json:"head_pad,omitempty"`
	HeadPrio bool `json:"head_priority,omitempty"`
}

type c02Scenario struct {
	Reqs   []int     `json:"reqs"`
	Resps  []c02Resp `json:"resps"`
	Order  []int     `json:"order,omitempty"` // interleaving of response frame tracks
	Family string    `json:"family"`
	// InitWin > 0: the server advertises this SETTINGS_INITIAL_WINDOW_SIZE, uploads block on it and
	// Grants (request index, increment) are the stream WINDOW_UPDATEs it then sends, in this order
	InitWin uint32   `json:"initial_window,omitempty"`
	Grants  [][2]int `json:"grants,omitempty"`
	// Seg: how the transport cuts the server's octets (harness.SegMode 1..3), the server's SETTINGS included
	Seg int `json:"seg,omitempty"`
}

func c02Body(spec harness.ReqSpec) []byte {
	if spec.Stream != nil {
		var b []byte
		for _, c := range spec.Stream {
			b = append(b, c...)
		}
		return b
	}
	return spec.Body
}

var clientConnSpecific = map[string]bool{"connection": true, "keep-alive": true, "proxy-connection": true, "transfer-encoding": true, "upgrade": true}

// checkSentRequest compares what the scripted server received with what the caller gave.
func checkSentRequest(spec harness.ReqSpec, s *harness.SrvStream) (string, string) {
	if s == nil || s.Blocks == 0 {
		return "request never reached the server", "missing"
	}
	if s.Blocks != 1 {
		return fmt.Sprintf("%d header blocks on the stream", s.Blocks), "extra-block"
	}
	get := func(n string) []string {
		var out []string
		for _, kv := range s.Fields {
			if kv[0] == n {
				out = append(out, kv[1])
			}
		}
		return out
	}
	method := spec.Method
	if method == "" {
		method = "GET"
	}
	for _, p := range [][2]string{{":method", method}, {":path", spec.Path}, {":scheme", "https"}, {":authority", "server"}} {
		if v := get(p[0]); len(v) != 1 || v[0] != p[1] {
			return fmt.Sprintf("%s: caller gave %q, server received %q", p[0], p[1], v), "pseudo " + p[0]
		}
	}
	regular := false
	for _, kv := range s.Fields {
		if strings.HasPrefix(kv[0], ":") {
			if regular {
				return "pseudo-header after a regular field", "pseudo-order"
			}
			continue
		}
		regular = true
		if kv[0] != strings.ToLower(kv[0]) {
			return fmt.Sprintf("field name %q is not lower-case", kv[0]), "name-case"
		}
		if clientConnSpecific[kv[0]] {
			return fmt.Sprintf("connection-specific field %q sent", kv[0]), "connection-specific"
		}
	}
	want := map[string][]string{}
	for _, kv := range spec.Headers {
		n := strings.ToLower(kv[0])
		if clientConnSpecific[n] {
			continue
		}
		want[n] = append(want[n], kv[1])
	}
	names := []string{}
	for n := range want {
		names = append(names, n)
	}
	sort.Strings(names)
	for _, n := range names {
		if strings.Join(want[n], "\x00") != strings.Join(get(n), "\x00") {
			return fmt.Sprintf("field %q: caller gave %q, server received %q", n, want[n], get(n)), "field-value"
		}
	}
	body := c02Body(spec)
	for _, kv := range s.Fields {
		n := kv[0]
		if strings.HasPrefix(n, ":") {
			continue
		}
		if _, ok := want[n]; ok {
			continue
		}
		switch n {
		case "user-agent", "content-type":
		case "content-length":
			if kv[1] != fmt.Sprint(len(body)) {
				return fmt.Sprintf("content-length %q for a %d-byte body", kv[1], len(body)), "content-length"
			}
		default:
			return fmt.Sprintf("server received field %q=%q the caller never gave", n, kv[1]), "field-extra"
		}
	}
	if !bytes.Equal(s.Data, body) {
		return fmt.Sprintf("body: caller gave %q, server received %q", body, s.Data), "body"
	}
	if s.EndStream != 1 {
		return fmt.Sprintf("END_STREAM seen %d times", s.EndStream), fmt.Sprintf("end-stream-%d", min(s.EndStream, 2))
	}
	if s.AfterEnd > 0 {
		return "frames after END_STREAM", "after-end"
	}
	if len(s.Rst) > 0 {
		return fmt.Sprintf("client reset the stream (%v)", s.Rst), "reset"
	}
	return "", ""
}

// checkDelivered compares what the caller got with what the script sent on its stream.
func checkDelivered(call *harness.CCall, r c02Resp) (string, string) {
	if !call.Done {
		return "RoundTrip has not returned although the complete response was delivered", "not-resolved"
	}
	if call.Err != nil {
		return fmt.Sprintf("RoundTrip failed: %v (retry=%v)", call.Err, call.Retry), "error"
	}
	if fmt.Sprint(call.Status) != r.Status {
		return fmt.Sprintf("status: server sent %s, caller got %d", r.Status, call.Status), "status"
	}
	if string(call.Body) != r.Body {
		return fmt.Sprintf("body: server sent %q, caller got %q", r.Body, call.Body), "body"
	}
	have := map[string][]string{}
	for _, kv := range call.Headers {
		have[kv[0]] = append(have[kv[0]], kv[1])
	}
	for _, kv := range r.Fields {
		if kv[0] == ":status" {
			continue
		}
		found := false
		for _, v := range have[kv[0]] {
			found = found || v == kv[1]
		}
		if !found {
			return fmt.Sprintf("field %q: server sent %q, caller got %q", kv[0], kv[1], have[kv[0]]), "field-value"
		}
	}
	for n, vs := range have {
		if n == "content-type" || n == "content-length" || n == "server" || n == "date" || (n == "x-trailer" || n == "x-trailer-2") && r.Trailers || n == "x-early" && len(r.Interim) > 0 {
			continue
		}
		ok := false
		for _, kv := range r.Fields {
			ok = ok || kv[0] == n
		}
		if !ok {
			return fmt.Sprintf("caller got field %q=%q the server never sent on its stream", n, vs), "field-foreign"
		}
	}
	return "", ""
}

func (r c02Resp) shape() string {
	var p []string
	if len(r.Splits) > 0 {
		p = append(p, fmt.Sprintf("continuation(x%d)", len(r.Splits)))
	}
	if r.Choice != "" {
		ch := c01Choice(r.Choice)
		p = append(p, fmt.Sprintf("fields(%s,name=%s,huff=%v/%v)", ch.Rep, map[bool]string{true: "indexed", false: "literal"}[ch.NameIndex], ch.HuffName, ch.HuffValue))
	}
	if r.Pad >= 0 {
		p = append(p, "padded-data")
	}
	if r.HeadPad > 0 {
		p = append(p, "padded-headers")
	}
	if r.HeadPrio {
		p = append(p, "priority-on-headers")
	}
	if len(r.Chunks) > 1 {
		z := false
		for _, n := range r.Chunks {
			z = z || n == 0
		}
		if z {
			p = append(p, "empty-data-frame")
		} else {
			p = append(p, "chunked-data")
		}
	}
	if r.EmptyES {
		p = append(p, "end-on-empty-data")
	}
	if r.Trailers {
		p = append(p, "trailers")
	}
	if len(r.Interim) > 0 {
		p = append(p, "after-1xx")
	}
	if len(p) == 0 {
		return "default-encoding"
	}
	return strings.Join(p, ",")
}

// frames builds the response track for stream id on conn sc (lazily: HPACK order).
func (r c02Resp) track(sc *harness.SrvConn, id uint32) []tframe {
	var frs []peer.Frame
	build := func() {
		if frs != nil {
			return
		}
		fields := []ref.Field{{Name: ":status", Value: r.Status}}
		for _, kv := range r.Fields {
			fields = append(fields, ref.Field{Name: kv[0], Value: kv[1]})
		}
		var choice func(int) ref.EncChoice
		if r.Choice != "" {
			ch := c01Choice(r.Choice)
			choice = func(int) ref.EncChoice { return ch }
		}
		var chunks [][]byte
		body := []byte(r.Body)
		sizes := r.Chunks
		if sizes == nil && len(body) > 0 {
			sizes = []int{len(body)}
		}
		off := 0
		for _, n := range sizes {
			chunks = append(chunks, body[off:off+n])
			off += n
		}
		if r.EmptyES {
			chunks = append(chunks, nil)
		}
		frs = sc.RespFrames(id, fields, choice, r.Splits, chunks, r.Pad)
		if r.HeadPad > 0 || r.HeadPrio {
			f0 := frs[0]
			frs[0] = peer.Headers(id, f0.Payload, peer.HeadersOpt{EndStream: f0.Flags&peer.FEndStream != 0, EndHeaders: f0.Flags&peer.FEndHeaders != 0, Pad: r.HeadPad - 1, Prio: r.HeadPrio, Dep: 0, Weight: 15})
		}
		if r.EmptyES {
			// only the trailing empty frame ends the stream
			for i := range frs[:len(frs)-1] {
				if frs[i].Type == peer.TData {
					frs[i].Flags &^= peer.FEndStream
				}
			}
		}
		if r.Trailers {
			for i := range frs {
				if frs[i].Type == peer.TData || frs[i].Type == peer.THeaders {
					frs[i].Flags &^= peer.FEndStream
				}
			}
			blk := sc.Enc.Block([]ref.Field{{Name: "x-trailer", Value: "t"}, {Name: "x-trailer-2", Value: "u"}}, nil)
			if r.TrailerSplit > 0 {
				cut := min(r.TrailerSplit-1, len(blk))
				frs = append(frs, peer.Headers(id, blk[:cut], peer.HeadersOpt{EndStream: true, Pad: -1}), peer.Continuation(id, blk[cut:], true))
			} else {
				frs = append(frs, peer.Headers(id, blk, peer.HeadersOpt{EndStream: true, EndHeaders: true, Pad: -1}))
			}
		}
	}
	var tr []tframe
	// informational responses first: one complete header block each, no END_STREAM
	for _, st := range r.Interim {
		st := st
		tr = append(tr, tframe{f: func() []peer.Frame {
			blk := sc.Enc.Block([]ref.Field{{Name: ":status", Value: st}, {Name: "x-early", Value: "hint-" + st}}, nil)
			return []peer.Frame{peer.Headers(id, blk, peer.HeadersOpt{EndHeaders: true, Pad: -1})}
		}})
	}
	// number of frames is known only after building; build eagerly per first use
	n := 1 + len(r.Splits)
	body := len(r.Body)
	nd := len(r.Chunks)
	if r.Chunks == nil && body > 0 {
		nd = 1
	}
	if r.EmptyES {
		nd++
	}
	if r.Trailers {
		nd++
	}
	lastCont := false
	if r.Trailers && r.TrailerSplit > 0 {
		nd++
		lastCont = true
	}
	for i := 0; i < n+nd; i++ {
		i := i
		tr = append(tr, tframe{cont: i > 0 && i < n || lastCont && i == n+nd-1, f: func() []peer.Frame {
			build()
			return []peer.Frame{frs[i]}
		}})
	}
	return tr
}

func c02Run(sc c02Scenario) (*fw.Violation, *harness.Client) {
	var opts harness.ClientOpts
	if sc.InitWin > 0 {
		opts.ServerSettings = []peer.Setting{{ID: peer.SInitialWindowSize, Val: sc.InitWin}}
	}
	harness.SegMode = sc.Seg
	defer func() { harness.SegMode = 0 }()
	h := harness.NewClient(opts)
	mk := func(rule, shape, detail string) *fw.Violation {
		return &fw.Violation{Rule: rule, Shape: shape, Detail: detail + "\n    events: " + strings.Join(h.EventLog, " ; "), Replay: map[string]any{"family": "c02", "scenario": sc}}
	}
	var calls []*harness.CCall
	for _, ri := range sc.Reqs {
		calls = append(calls, h.Go(c02Reqs[ri]))
	}
	if len(h.Conns) != 1 {
		return mk("unexpected-dials", fmt.Sprint(len(h.Conns)), fmt.Sprintf("%d connections dialed for %d requests", len(h.Conns), len(sc.Reqs))), h
	}
	srv := h.Conns[0]
	if len(srv.ProtoErrs) > 0 || srv.HpackErr != "" {
		return mk("request-framing-invalid", "framing", strings.Join(srv.ProtoErrs, "; ")+" "+srv.HpackErr), h
	}
	// the server's grants to uploads that are waiting for credit
	for _, g := range sc.Grants {
		if g[0] < len(srv.Order) {
			h.Send(0, peer.WindowUpdate(srv.Order[g[0]], uint32(g[1])))
		}
	}
	// each request on a fresh odd id above every earlier one, intact (callers start one after the
	// other, each run to quiescence, so the i-th stream opened belongs to the i-th request)
	ids := make([]uint32, len(sc.Reqs))
	for i, ri := range sc.Reqs {
		if i >= len(srv.Order) {
			return mk("stream-id-allocation", "ids", fmt.Sprintf("request %d never opened a stream; streams opened: %v", i, srv.Order)), h
		}
		id := srv.Order[i]
		ids[i] = id
		if id%2 == 0 || id == 0 || i > 0 && id <= srv.Order[i-1] {
			return mk("stream-id-allocation", "ids", fmt.Sprintf("request %d on stream %d: not a fresh odd id above the earlier ones; streams opened: %v", i, id, srv.Order)), h
		}
		if d, cls := checkSentRequest(c02Reqs[ri], srv.Streams[id]); d != "" {
			return mk("request-not-intact", cls+" req="+c02Reqs[ri].Tag, fmt.Sprintf("request %q on stream %d: %s", c02Reqs[ri].Tag, id, d)), h
		}
	}
	if len(srv.Order) != len(sc.Reqs) {
		return mk("stream-id-allocation", "extra-streams", fmt.Sprintf("%d requests, streams opened: %v", len(sc.Reqs), srv.Order)), h
	}
	// the script answers
	tracks := make([][]tframe, len(sc.Resps))
	for i, r := range sc.Resps {
		tracks[i] = r.track(srv, ids[i])
	}
	order := sc.Order
	if order == nil {
		for i := range tracks {
			for range tracks[i] {
				order = append(order, i)
			}
		}
	}
	pos := make([]int, len(tracks))
	for _, t := range order {
		if pos[t] >= len(tracks[t]) {
			continue
		}
		for {
			h.Send(0, tracks[t][pos[t]].f()...)
			pos[t]++
			if pos[t] >= len(tracks[t]) || !tracks[t][pos[t]].cont {
				break
			}
		}
	}
	for i, r := range sc.Resps {
		if d, cls := checkDelivered(calls[i], r); d != "" {
			return mk("response-not-delivered-intact", cls+" "+r.shape(), fmt.Sprintf("caller %q (stream %d, %s): %s", c02Reqs[sc.Reqs[i]].Tag, ids[i], r.shape(), d)), h
		}
		if calls[i].Resolved != 1 {
			return mk("resolved-more-than-once", "resolve", fmt.Sprintf("caller %q: RoundTrip returned %d times", c02Reqs[sc.Reqs[i]].Tag, calls[i].Resolved)), h
		}
	}
	if len(srv.GoAways) > 0 || srv.C.Closed() {
		return mk("client-dropped-connection", "close", fmt.Sprintf("client closed the connection / sent GOAWAY %v during well-formed traffic", srv.GoAways)), h
	}
	if len(h.S.Panics) > 0 {
		return mk("process-would-crash", "panic", strings.Join(h.S.Panics, "; ")), h
	}
	return nil, h
}

func defaultResp(tag string) c02Resp {
	return c02Resp{Status: "200", Fields: [][2]string{{"x-tag", tag}, {"x-common", "same"}}, Body: "resp-" + tag, Pad: -1}
}

func runC02(c *fw.Ctx) {
	runSpxFamily(c, "C02")
	// last: if the time budget runs out it is the long histories that are cut short
	defer func() {
		if vsched.DefaultPolicy == 0 {
			runC02Hist(c)
		}
		runC02Download(c)
	}()
	thorough := c.Tier == "thorough"
	var item int64
	sampled := 0
	var doRef func(sc c02Scenario)
	do := func(sc c02Scenario) {
		if sc.Seg == 0 && (sc.Family == "request-shapes" || sc.Family == "response-encoding") {
			// the same octets from the server, cut differently by the transport
			for seg := 1; seg <= 3; seg++ {
				ss := sc
				ss.Seg = seg
				defer doRef(ss)
			}
		}
		if item++; !c.Mine(item) {
			return
		}
		if c.Expired("C02") {
			return
		}
		v, h := c02Run(sc)
		js, _ := json.Marshal(sc)
		nontrivial := len(sc.Reqs) >= 2
		for _, r := range sc.Resps {
			nontrivial = nontrivial || r.shape() != "default-encoding"
		}
		c.Eval(nt(nontrivial, js))
		c.AddTransitions(int64(h.Events))
		c.AddTraces(1)
		c.State(fw.Hash(h.Digest()))
		if v != nil {
			c.Violate(*v)
			c.Outcome(v.Rule)
		} else {
			c.Outcome("intact")
		}
		if sampled < 3 && len(sc.Reqs) >= 2 && len(sc.Order) > 0 {
			sampled++
			c.Sample(map[string]any{"scenario": sc, "events": h.EventLog})
		}
		h.Close()
	}
	doRef = do
	// family: every request shape alone, default response
	for ri := range c02Reqs {
		do(c02Scenario{Family: "request-shapes", Reqs: []int{ri}, Resps: []c02Resp{defaultResp("0")}})
	}
	// family: response encodings for one request
	base := defaultResp("0")
	blockLen := 40
	for off := 0; off <= blockLen; off++ {
		r := base
		r.Splits = []int{off}
		do(c02Scenario{Family: "response-encoding", Reqs: []int{0}, Resps: []c02Resp{r}})
		rt := r
		rt.Trailers = true
		do(c02Scenario{Family: "response-encoding", Reqs: []int{0}, Resps: []c02Resp{rt}})
		rt.Body = ""
		do(c02Scenario{Family: "response-encoding", Reqs: []int{0}, Resps: []c02Resp{rt}})
		// no body at all: END_STREAM is on the HEADERS frame, END_HEADERS on the CONTINUATION
		rb := r
		rb.Body = ""
		do(c02Scenario{Family: "response-encoding", Reqs: []int{0}, Resps: []c02Resp{rb}})
		// trailer section cut into HEADERS(END_STREAM) + CONTINUATION
		if off >= 1 && off <= 30 {
			rs := base
			rs.Trailers, rs.TrailerSplit = true, off
			do(c02Scenario{Family: "response-encoding", Reqs: []int{0}, Resps: []c02Resp{rs}})
		}
		if thorough {
			for off2 := off; off2 <= blockLen; off2 += 3 {
				r2 := base
				r2.Splits = []int{off, off2}
				do(c02Scenario{Family: "response-encoding", Reqs: []int{0}, Resps: []c02Resp{r2}})
			}
		}
	}
	for rep := 0; rep < 4; rep++ {
		for ni := 0; ni < 2; ni++ {
			for hn := 0; hn < 2; hn++ {
				for hv := 0; hv < 2; hv++ {
					r := base
					r.Choice = fmt.Sprintf("%d/%d/%d/%d", rep, ni, hn, hv)
					do(c02Scenario{Family: "response-encoding", Reqs: []int{0}, Resps: []c02Resp{r}})
					r.Splits = []int{7}
					do(c02Scenario{Family: "response-encoding", Reqs: []int{0}, Resps: []c02Resp{r}})
				}
			}
		}
	}
	// the response HEADERS frame padded and / or with a priority section (RFC 7540 6.2 allows both on any HEADERS)
	for _, hp := range []int{0, 1, 4, 256} {
		for _, pr := range []bool{false, true} {
			if hp == 0 && !pr {
				continue
			}
			for _, sp := range [][]int{nil, {7}} {
				r := base
				r.HeadPad, r.HeadPrio, r.Splits = hp, pr, sp
				do(c02Scenario{Family: "response-encoding", Reqs: []int{0}, Resps: []c02Resp{r}})
				r.Body = ""
				do(c02Scenario{Family: "response-encoding", Reqs: []int{0}, Resps: []c02Resp{r}})
				r.Body, r.Trailers = "abc", true
				do(c02Scenario{Family: "response-encoding", Reqs: []int{0}, Resps: []c02Resp{r}})
			}
		}
	}
	// informational responses before the final one (RFC 7540 8.1): the caller gets the final response only
	for _, interim := range [][]string{{"103"}, {"100"}, {"103", "103"}, {"100", "103"}} {
		for _, variant := range []int{0, 1, 2, 3} {
			r := base
			r.Interim = interim
			switch variant {
			case 1:
				r.Splits = []int{5}
			case 2:
				r.Trailers = true
			case 3:
				r.Body = ""
			}
			do(c02Scenario{Family: "response-encoding", Reqs: []int{0}, Resps: []c02Resp{r}})
			do(c02Scenario{Family: "response-encoding", Reqs: []int{1}, Resps: []c02Resp{r}})
		}
	}
	for _, status := range []string{"200", "204", "404", "500", "299"} {
		r := base
		r.Status = status
		if status == "204" {
			r.Body = ""
		}
		do(c02Scenario{Family: "response-encoding", Reqs: []int{0}, Resps: []c02Resp{r}})
	}
	body3 := base
	body3.Body = "abc"
	for _, comp := range [][]int{{3}, {1, 2}, {2, 1}, {1, 1, 1}, {0, 3}, {3, 0}, {1, 0, 2}, {0, 0, 3}} {
		for _, pad := range []int{-1, 0, 5, 255} {
			for _, ees := range []bool{false, true} {
				r := body3
				r.Chunks, r.Pad, r.EmptyES = comp, pad, ees
				do(c02Scenario{Family: "response-encoding", Reqs: []int{0}, Resps: []c02Resp{r}})
				r.Trailers = true
				do(c02Scenario{Family: "response-encoding", Reqs: []int{0}, Resps: []c02Resp{r}})
			}
		}
	}
	big := base
	big.Body = valOfLen(40000)
	big.Chunks = []int{16384, 16384, 7232}
	do(c02Scenario{Family: "response-encoding", Reqs: []int{1}, Resps: []c02Resp{big}})
	c.Family("single")

	// family: concurrent requests, every answering order and frame interleaving
	sets := [][]int{{0, 1}, {1, 2}, {3, 0}, {2, 3}, {4, 5}, {14, 0}, {0, 14}, {15, 1}, {1, 15}}
	if thorough {
		sets = append(sets, []int{0, 1, 2}, []int{3, 1, 0}, []int{5, 4, 3})
	}
	for _, set := range sets {
		var resps []c02Resp
		var lens []int
		for i := range set {
			r := defaultResp(fmt.Sprint(i))
			r.Body = fmt.Sprintf("body-of-%d", i)
			r.Chunks = []int{4, len(r.Body) - 4}
			if i == 1 {
				r.Splits = []int{9}
			}
			resps = append(resps, r)
			lens = append(lens, 3) // block, DATA, DATA
		}
		harness.Interleavings(lens, func(order []int) bool {
			do(c02Scenario{Family: "concurrent", Reqs: set, Resps: resps, Order: append([]int{}, order...)})
			return !c.Expired("C02 concurrent")
		})
	}
	c.Family("concurrent")

	// family: concurrent uploads held up by a small stream window; every order of the server's grants
	for _, set := range [][]int{{11, 12}, {12, 11}, {11, 13}, {13, 12}, {11, 12, 13}} {
		if len(set) == 3 && !thorough {
			continue
		}
		var resps []c02Resp
		lens := make([]int, len(set))
		for i := range set {
			resps = append(resps, defaultResp(fmt.Sprint(i)))
			lens[i] = 2
		}
		for _, win := range []uint32{1000, 1} {
			inc := [][]int{{700, 2300}, {1200, 1800}, {2999, 1}}
			harness.Interleavings(lens, func(order []int) bool {
				var grants [][2]int
				seen := make([]int, len(set))
				for _, t := range order {
					grants = append(grants, [2]int{t, inc[t][seen[t]]})
					seen[t]++
				}
				do(c02Scenario{Family: "uploads-under-flow-control", Reqs: set, Resps: resps, InitWin: win, Grants: grants})
				return !c.Expired("C02 uploads")
			})
		}
	}
	c.Family("uploads-under-flow-control")
}

func replayC02(raw json.RawMessage) (string, bool) {
	var fam struct {
		Family string `json:"family"`
	}
	json.Unmarshal(raw, &fam)
	if fam.Family == "c02hist" {
		return replayC02Hist(raw)
	}
	if fam.Family == "c02download" {
		return replayC02Download(raw)
	}
	var r struct {
		Scenario c02Scenario `json:"scenario"`
	}
	if err := json.Unmarshal(raw, &r); err != nil {
		return err.Error(), false
	}
	v, h := c02Run(r.Scenario)
	defer h.Close()
	if v != nil {
		return v.Rule + " [" + v.Shape + "]: " + v.Detail, true
	}
	return "requests and responses intact: " + strings.Join(h.EventLog, " ; "), false
}
