package checks

import (
	"bytes"
	"encoding/json"
	"fmt"
	"strings"

	"verif/fw"
	"verif/harness"
	"verif/peer"
	"verif/ref"
)

// C01, family "large-uploads". The request bodies of the other families are a few octets; here 1-3 concurrent
// uploads of up to 300000 octets each, larger than the connection window the server starts with, are cut into DATA
// frames of different sizes (with and without padding), interleaved across the streams in different rhythms, by a
// peer that only writes within the windows the server has granted (C14's conforming-sender ledger). Every octet of
// a body says which stream and which offset it belongs to, so bytes that are lost, repeated, reordered or that
// end up in another stream's body are seen by the handler comparison. Oracle: C01's own.

type c01UploadCase struct {
	Streams int  `json:"streams"`
	Size    int  `json:"octets_per_upload"`
	Chunk   int  `json:"chunk"`
	Pad     int  `json:"pad"`
	Burst   int  `json:"frames_per_stream_before_switching"`
	Trailer bool `json:"trailers"`
}

func c01UploadBody(stream, size int) []byte {
	var b bytes.Buffer
	for b.Len() < size {
		fmt.Fprintf(&b, "<%d@%07d>", stream, b.Len())
	}
	return b.Bytes()[:size]
}

func c01UploadRun(cs c01UploadCase) (*fw.Violation, *harness.Server) {
	h := harness.NewServer(harness.ServerOpts{MaxConcurrentStreams: 8})
	mk := func(rule, shape, detail string) *fw.Violation {
		ev := h.EventLog
		if len(ev) > 8 {
			ev = append([]string{fmt.Sprintf("…%d events…", len(ev)-8)}, ev[len(ev)-8:]...)
		}
		return &fw.Violation{Rule: rule, Shape: shape, Detail: detail + "\n    events: " + strings.Join(ev, " ; "), Replay: map[string]any{"family": "c01upload", "case": cs}}
	}
	s := &sender{h: h, conn: 65535, init: 65535, strm: map[uint32]int64{}}
	for _, st := range h.Settings {
		for _, p := range st {
			if p.ID == peer.SInitialWindowSize {
				s.init = int64(p.Val)
			}
		}
	}
	shape := fmt.Sprintf("streams=%d chunk=%d pad=%d", cs.Streams, cs.Chunk, cs.Pad)
	type up struct {
		id     uint32
		body   []byte
		off    int
		fields []ref.Field
	}
	var ups []*up
	for i := 0; i < cs.Streams; i++ {
		u := &up{id: uint32(2*i + 1), body: c01UploadBody(2*i+1, cs.Size+i*1000)}
		u.fields = harness.ReqFields("POST", "https", "up.example", fmt.Sprintf("/upload/%d", i), [2]string{"x-sid", fmt.Sprint(u.id)}, [2]string{"content-length", fmt.Sprint(len(u.body))})
		if cs.Trailer {
			u.fields = append(u.fields, ref.Field{Name: "te", Value: "trailers"})
		}
		h.SendFrames(peer.Headers(u.id, h.PeerEnc.Block(u.fields, nil), peer.HeadersOpt{EndHeaders: true, Pad: -1}))
		s.strm[u.id] = s.init
		ups = append(ups, u)
	}
	for left := cs.Streams; left > 0; {
		for _, u := range ups {
			for k := 0; k < cs.Burst && u.off < len(u.body); k++ {
				n := min(cs.Chunk, len(u.body)-u.off)
				last := u.off+n == len(u.body)
				if r, d := s.send(u.id, u.body[u.off:u.off+n], last && !cs.Trailer, cs.Pad); r != "" {
					return mk("upload-not-deliverable", shape+" "+r, fmt.Sprintf("stream %d at offset %d: %s", u.id, u.off, d)), h
				}
				u.off += n
				if last {
					left--
					if cs.Trailer {
						h.SendFrames(peer.Headers(u.id, h.PeerEnc.Block([]ref.Field{{Name: "x-sum", Value: fmt.Sprint(len(u.body))}}, nil), peer.HeadersOpt{EndStream: true, EndHeaders: true, Pad: -1}))
					}
				}
				if len(h.GoAways) > 0 || h.C.Closed() {
					return mk("connection-error-on-legal-history", shape, fmt.Sprintf("stream %d at offset %d: %s", u.id, u.off, h.Reaction(0))), h
				}
			}
		}
	}
	for _, u := range ups {
		var found []*harness.Call
		for _, c := range h.Calls {
			if c.Stream == u.id {
				found = append(found, c)
			}
		}
		if len(found) != 1 {
			return mk("request-not-delivered-once", shape, fmt.Sprintf("stream %d: %d handler calls (reset %v)", u.id, len(found), h.Streams[u.id] != nil && len(h.Streams[u.id].Rst) > 0)), h
		}
		got := found[0].Req.Body
		if !bytes.Equal(got, u.body) {
			at := 0
			for at < len(got) && at < len(u.body) && got[at] == u.body[at] {
				at++
			}
			lo, hiG, hiW := max(at-12, 0), min(at+24, len(got)), min(at+24, len(u.body))
			return mk("request-not-intact", shape+" body", fmt.Sprintf("stream %d: handler saw %d octets, the peer sent %d; first difference at offset %d: handler %q, sent %q", u.id, len(got), len(u.body), at, got[lo:hiG], u.body[lo:hiW])), h
		}
		w := harness.WantReq{Fields: u.fields, Body: u.body}
		if cs.Trailer {
			w.Trailers = []ref.Field{{Name: "x-sum", Value: fmt.Sprint(len(u.body))}}
		}
		if d, cl := harness.CheckRequest(w, found[0].Req); d != "" {
			return mk("request-not-intact", shape+" "+cl, fmt.Sprintf("stream %d: %s", u.id, d)), h
		}
	}
	for i := len(ups) - 1; i >= 0; i-- {
		for _, c := range h.Calls {
			if c.Stream == ups[i].id {
				resp := harness.Resp{Status: 200, Body: []byte(fmt.Sprint("stored ", len(ups[i].body)))}
				h.Finish(c.Idx, resp)
				if d, cl := harness.CheckResponse(h.Streams[ups[i].id], resp); d != "" {
					return mk("response-not-intact", shape+" "+cl, fmt.Sprintf("stream %d: %s", ups[i].id, d)), h
				}
			}
		}
	}
	if p := h.Panicked(); len(p) > 0 {
		return mk("server-panic", shape, strings.Join(p, "; ")), h
	}
	return nil, h
}

func runC01Upload(c *fw.Ctx) {
	sizes := []int{100000}
	chunks := []int{997, 16384, 4096}
	if c.Tier == "thorough" {
		sizes = []int{100000, 300000}
		chunks = []int{97, 997, 4096, 16383, 16384}
	}
	n := 0
	for _, size := range sizes {
		for streams := 1; streams <= 3; streams++ {
			for _, ch := range chunks {
				for _, pad := range []int{-1, 0, 200} {
					if pad >= 0 && ch+pad+1 > 16384 {
						continue
					}
					for _, burst := range []int{1, 3, 1000} {
						if streams == 1 && burst != 1 {
							continue
						}
						for _, tr := range []bool{false, true} {
							n++
							if !c.Mine(int64(1)<<45 + int64(n)) {
								continue
							}
							if c.Expired("C01 large uploads") {
								return
							}
							cs := c01UploadCase{Streams: streams, Size: size, Chunk: ch, Pad: pad, Burst: burst, Trailer: tr}
							v, h := c01UploadRun(cs)
							js, _ := json.Marshal(cs)
							c.Eval(nt(true, append([]byte("upload"), js...)))
							c.AddTransitions(int64(h.Events))
							c.AddTraces(1)
							c.State(fw.Hash(h.Digest()))
							if v != nil {
								c.Violate(*v)
								c.Outcome(v.Rule)
							} else {
								c.Outcome("intact")
							}
							h.Close()
						}
					}
				}
			}
		}
	}
	c.Family("large-uploads")
}

func replayC01Upload(raw json.RawMessage) (string, bool) {
	var r struct {
		Case c01UploadCase `json:"case"`
	}
	if err := json.Unmarshal(raw, &r); err != nil {
		return err.Error(), false
	}
	v, h := c01UploadRun(r.Case)
	defer h.Close()
	if v != nil {
		return v.Rule + " [" + v.Shape + "]: " + v.Detail, true
	}
	return "uploads delivered intact", false
}
