package checks

import (
	"encoding/json"
	"fmt"
	"strings"

	"verif/fw"
	"verif/harness"
	"verif/peer"
	"verif/ref"
)

// C07 — the client never sends DATA beyond the server's windows, and finishes.

func init() {
	fw.Register(&fw.Check{
		ID: "C07", Level: "model_checking",
		Rule:   "ELX on the real Client against a scripted server that keeps the authoritative ledger: server INITIAL_WINDOW_SIZE in {0,1,5}; a prelude upload of 65530 bytes leaves the connection window at 5; 1-2 (quick) / 3 (thorough) concurrent uploads with sizes from {0,1,3,6,16384,16385,40000}, buffered or streamed (declared / unknown length); every sequence up to the depth bound of {WINDOW_UPDATE(stream i, 1|2|big), WINDOW_UPDATE(0, 1|3|big), SETTINGS_INITIAL_WINDOW_SIZE in {0,1,4,70000}, SETTINGS_MAX_FRAME_SIZE in {16384, 20000}, SETTINGS without either}; then a closing phase grants everything. Oracle: ledger never negative at a DATA frame; no DATA frame above the MAX_FRAME_SIZE in force; at no quiescent state does an upload with unsent bytes have both windows positive; after the closing phase every body arrived complete with END_STREAM exactly once. Non-trivial: a window blocked a send somewhere in the sequence; distinct by (config, sequence).",
		Assume: []string{"canonical internal schedule between events (grant-vs-spend races at lock granularity are explored with preemptions in C19)"},
		Run:    runC07, Replay: replayC07, Policies: 1, QuickS: 150, ThoroughS: 900,
	})
}

type c07Cfg struct {
	InitWin uint32 `json:"init_window"`
	Sizes   []int  `json:"sizes"`
	Kind    []int  `json:"kind"` // 0 buffered, 1 streamed declared, 2 streamed unknown
	// Frame > 0: the server's first SETTINGS already carries this MAX_FRAME_SIZE (uploads start under a large limit)
	Frame int `json:"init_max_frame,omitempty"`
}

type c07Case struct {
	Cfg    c07Cfg   `json:"cfg"`
	Path   []int    `json:"path"`
	Events []string `json:"events,omitempty"`
}

type c07Run struct {
	h        *harness.Client
	srv      *harness.SrvConn
	l        *ledger
	cfg      c07Cfg
	ids      []uint32
	calls    []*harness.CCall
	seen     int
	maxFrame int
	trace    []string
	blocked  bool
	sizes    []int // per upload (configured ones, then late ones)
	kinds    []int
	late     int
	// uploads issued whose HEADERS the server has not received yet (size, kind), oldest first
	waiting [][2]int
	// frameAcks: MAX_FRAME_SIZE in force once each outstanding SETTINGS frame is acknowledged (per frame, in order)
	frameAcks  []int
	ackedFrame int
	stalled    bool // the server has stopped reading
	stalls     int
}

// sentSettings records a SETTINGS frame the server has just sent (win < 0 / frame < 0: parameter absent). Until
// its acknowledgement is seen the client may be working with the old or the new values.
func (x *c07Run) sentSettings(win int64, frame int) {
	x.l.sendSettings(win)
	if x.ackedFrame == 0 {
		x.ackedFrame = x.maxFrame
	}
	x.frameAcks = append(x.frameAcks, frame)
	x.reframe()
}

func (x *c07Run) reframe() {
	x.maxFrame = x.ackedFrame
	for _, v := range x.frameAcks {
		if v > x.maxFrame {
			x.maxFrame = v
		}
	}
}

func (x *c07Run) viol(rule, detail string) *fw.Violation {
	return &fw.Violation{Rule: strings.SplitN(rule, " ", 2)[0], Shape: rule, Detail: detail + "\n    trace: " + strings.Join(x.trace, " ; ")}
}

func (x *c07Run) account() (string, string) {
	for ; x.seen < len(x.srv.Out); x.seen++ {
		f := x.srv.Out[x.seen]
		if f.Type == peer.TSettings && f.Has(peer.FAck) {
			x.l.ack()
			if len(x.frameAcks) > 0 {
				if v := x.frameAcks[0]; v >= 0 {
					x.ackedFrame = v
				}
				x.frameAcks = x.frameAcks[1:]
				x.reframe()
			}
			continue
		}
		if f.Type == peer.THeaders {
			// a stream exists for the server from the moment its HEADERS arrive: its id is whatever the client chose
			if _, known := x.l.stream[f.Stream]; !known && len(x.waiting) > 0 {
				x.l.open(f.Stream)
				x.ids = append(x.ids, f.Stream)
				x.sizes, x.kinds = append(x.sizes, x.waiting[0][0]), append(x.kinds, x.waiting[0][1])
				x.waiting = x.waiting[1:]
			}
			continue
		}
		if f.Type != peer.TData {
			continue
		}
		n := int64(len(f.Payload))
		if len(f.Payload) > x.maxFrame {
			return "frame-above-max-frame-size", fmt.Sprintf("DATA frame of %d bytes on stream %d, SETTINGS_MAX_FRAME_SIZE in force is %d", len(f.Payload), f.Stream, x.maxFrame)
		}
		sw, ok := x.l.stream[f.Stream]
		if !ok {
			continue
		}
		if n > 0 && (sw < n || x.l.conn < n) {
			which := "stream"
			if x.l.conn < n {
				which = "connection"
			}
			return "window-exceeded " + which, fmt.Sprintf("DATA of %d bytes on stream %d with stream window %d and connection window %d", n, f.Stream, sw, x.l.conn)
		}
		x.l.stream[f.Stream] -= n
		x.l.conn -= n
		x.l.sent[f.Stream] += int(n)
	}
	return "", ""
}

func (x *c07Run) stuck() string {
	for i, id := range x.ids {
		left := x.sizes[i] - x.l.sent[id]
		st := x.srv.Streams[id]
		done := st != nil && st.EndStream > 0
		if left > 0 && x.l.stream[id] > 0 && x.l.conn > 0 {
			return fmt.Sprintf("upload on stream %d has %d unsent bytes, stream window %d, connection window %d, and nothing more is sent", id, left, x.l.stream[id], x.l.conn)
		}
		if left == 0 && !done {
			return fmt.Sprintf("upload on stream %d: all %d bytes sent but END_STREAM never arrived", id, x.sizes[i])
		}
		if left > 0 {
			x.blocked = true
		}
	}
	return ""
}

func c07Spec(i, size, kind int) harness.ReqSpec {
	body := []byte(valOfLen(size))
	spec := harness.ReqSpec{Tag: fmt.Sprint("u", i), Method: "POST", Path: fmt.Sprint("/up", i)}
	switch kind {
	case 0:
		spec.Body = body
		if size == 0 {
			spec.Body = nil
		}
	case 1:
		spec.Stream, spec.Declared = [][]byte{body[:size/2], body[size/2:]}, size
	case 2:
		spec.Stream, spec.Declared = [][]byte{body[:size/2], body[size/2:]}, -1
	}
	return spec
}

func newC07(cfg c07Cfg) (*c07Run, *fw.Violation) {
	ss := []peer.Setting{{ID: peer.SInitialWindowSize, Val: cfg.InitWin}}
	if cfg.Frame > 0 {
		ss = append(ss, peer.Setting{ID: peer.SMaxFrameSize, Val: uint32(cfg.Frame)})
	}
	h := harness.NewClient(harness.ClientOpts{ServerSettings: ss})
	x := &c07Run{h: h, cfg: cfg, l: newLedger(cfg.InitWin), maxFrame: 16384}
	if cfg.Frame > 0 {
		x.maxFrame = cfg.Frame
	}
	// prelude upload: uses the connection window down to 5
	pre := h.Go(harness.ReqSpec{Tag: "prelude", Method: "POST", Path: "/prelude", Body: []byte(valOfLen(65530))})
	if len(h.Conns) != 1 {
		return x, x.viol("harness", "no connection")
	}
	x.srv = h.Conns[0]
	// stream ids are whatever the client chose (any fresh odd id is legal): read them off the wire
	p1 := uint32(1)
	if len(x.srv.Order) > 0 {
		p1 = x.srv.Order[0]
	}
	x.l.open(p1)
	if r, d := x.account(); r != "" {
		return x, x.viol(r, d)
	}
	x.l.stream[p1] += 70000
	h.Send(0, peer.WindowUpdate(p1, 70000))
	if r, d := x.account(); r != "" {
		return x, x.viol(r, d)
	}
	if x.l.sent[p1] != 65530 || x.l.conn != 5 {
		return x, x.viol("prelude-incomplete", fmt.Sprintf("prelude upload: %d of 65530 bytes arrived, connection window %d", x.l.sent[p1], x.l.conn))
	}
	h.Send(0, x.srv.RespFrames(p1, []ref.Field{{Name: ":status", Value: "200"}}, nil, nil, nil, -1)...)
	if !pre.Done || pre.Err != nil {
		return x, x.viol("prelude-incomplete", fmt.Sprintf("prelude request did not complete: done=%v err=%v", pre.Done, pre.Err))
	}
	for i, size := range cfg.Sizes {
		x.start(c07Spec(i, size, cfg.Kind[i]), size, cfg.Kind[i])
	}
	if r, d := x.account(); r != "" {
		return x, x.viol(r, d)
	}
	if s := x.stuck(); s != "" {
		return x, x.viol("stuck-with-open-windows", s)
	}
	return x, nil
}

// start issues one more upload and learns its stream id from the HEADERS the server received.
func (x *c07Run) start(spec harness.ReqSpec, size, kind int) {
	x.waiting = append(x.waiting, [2]int{size, kind})
	x.calls = append(x.calls, x.h.Go(spec))
	x.account0()
}

// account0 binds the HEADERS frames that have arrived to the uploads waiting for them (violations are
// reported by the caller's own account() right after).
func (x *c07Run) account0() {
	for i := x.seen; i < len(x.srv.Out) && len(x.waiting) > 0; i++ {
		f := x.srv.Out[i]
		if f.Type != peer.THeaders {
			continue
		}
		if _, known := x.l.stream[f.Stream]; !known {
			x.l.open(f.Stream)
			x.ids = append(x.ids, f.Stream)
			x.sizes, x.kinds = append(x.sizes, x.waiting[0][0]), append(x.kinds, x.waiting[0][1])
			x.waiting = x.waiting[1:]
		}
	}
}

func (x *c07Run) windows() []int64 {
	var w []int64
	for _, id := range x.ids {
		w = append(w, x.l.stream[id])
	}
	return w
}

func (x *c07Run) menu() []string {
	var m []string
	for i := range x.ids {
		for _, n := range []int{1, 2, 100000} {
			m = append(m, fmt.Sprintf("wu %d %d", i, n))
		}
	}
	for _, n := range []int{1, 3, 100000} {
		m = append(m, fmt.Sprintf("wu0 %d", n))
	}
	for _, v := range []int{0, 1, 4, 70000} {
		if int64(v) != x.l.init {
			m = append(m, fmt.Sprintf("settings %d", v))
		}
	}
	for _, v := range []int{16384, 20000, 65536} {
		if v == 65536 && x.cfg.Frame == 0 {
			continue
		}
		if v != x.maxFrame {
			m = append(m, fmt.Sprintf("maxframe %d", v))
		}
	}
	m = append(m, "othersettings")
	// the server stops reading for a while (once): requests issued meanwhile have their HEADERS held up in
	// the transport while SETTINGS and WINDOW_UPDATE frames keep arriving
	if x.stalled {
		m = append(m, "resume")
	} else if x.stalls == 0 {
		m = append(m, "stall")
	}
	// an upload that starts now, after whatever the server has said so far (at most two)
	if x.late < 2 {
		m = append(m, "late 6 0", "late 6 2")
	}
	return m
}

func (x *c07Run) apply(ev string) *fw.Violation {
	h := x.h
	var a, b int
	switch {
	case strings.HasPrefix(ev, "wu0"):
		fmt.Sscanf(ev, "wu0 %d", &a)
		x.l.conn += int64(a)
		h.Send(0, peer.WindowUpdate(0, uint32(a)))
	case strings.HasPrefix(ev, "wu"):
		fmt.Sscanf(ev, "wu %d %d", &a, &b)
		x.l.stream[x.ids[a]] += int64(b)
		h.Send(0, peer.WindowUpdate(x.ids[a], uint32(b)))
	case strings.HasPrefix(ev, "settings"):
		fmt.Sscanf(ev, "settings %d", &a)
		x.sentSettings(int64(a), -1)
		h.Send(0, peer.Settings(peer.Setting{ID: peer.SInitialWindowSize, Val: uint32(a)}))
	case strings.HasPrefix(ev, "maxframe"):
		fmt.Sscanf(ev, "maxframe %d", &a)
		// a larger limit may be used from now on; a smaller one binds once the ACK is in
		x.sentSettings(-1, a)
		h.Send(0, peer.Settings(peer.Setting{ID: peer.SMaxFrameSize, Val: uint32(a)}))
	case strings.HasPrefix(ev, "late"):
		fmt.Sscanf(ev, "late %d %d", &a, &b)
		x.late++
		x.start(c07Spec(len(x.ids)+len(x.waiting), a, b), a, b)
	case ev == "stall":
		// the server stops reading: the client's writes block from here on
		h.ServerStall(0)
		x.stalled = true
		x.stalls++
	case ev == "resume":
		h.ServerResume(0)
		x.stalled = false
	case ev == "othersettings":
		x.sentSettings(-1, -1)
		h.Send(0, peer.Settings(peer.Setting{ID: peer.SHeaderTableSize, Val: 4096}, peer.Setting{ID: peer.SMaxConcurrentStreams, Val: 50}))
	}
	x.trace = append(x.trace, ev)
	if r, d := x.account(); r != "" {
		return x.viol(r, d)
	}
	x.trace[len(x.trace)-1] = fmt.Sprintf("%s -> conn=%d streams=%v", ev, x.l.conn, x.windows())
	if len(x.srv.GoAways) > 0 || x.srv.C.Closed() {
		return x.viol("client-dropped-connection", fmt.Sprintf("legal flow-control traffic made the client close the connection (GOAWAY %v)", x.srv.GoAways))
	}
	if len(x.srv.ProtoErrs) > 0 {
		return x.viol("request-framing-invalid", strings.Join(x.srv.ProtoErrs, "; "))
	}
	if !x.stalled { // a client whose transport is blocked cannot send: judged after the server reads again
		if s := x.stuck(); s != "" {
			return x.viol("stuck-with-open-windows", s)
		}
	}
	return nil
}

func (x *c07Run) finishAll() *fw.Violation {
	if x.stalled {
		if v := x.apply("resume"); v != nil {
			return v
		}
	}
	if x.l.init != 65535 {
		if v := x.apply("settings 65535"); v != nil {
			return v
		}
	}
	if v := x.apply("wu0 1000000"); v != nil {
		return v
	}
	for i := range x.ids {
		if v := x.apply(fmt.Sprintf("wu %d 1000000", i)); v != nil {
			return v
		}
	}
	for i, id := range x.ids {
		spec := c07Spec(i, x.sizes[i], x.kinds[i])
		if d, cls := checkSentRequest(spec, x.srv.Streams[id]); d != "" {
			return x.viol("upload-incomplete "+cls, fmt.Sprintf("after every window was opened, upload on stream %d: %s", id, d))
		}
	}
	// answer everything: every caller must complete
	for i, id := range x.ids {
		x.h.Send(0, x.srv.RespFrames(id, []ref.Field{{Name: ":status", Value: "200"}}, nil, nil, nil, -1)...)
		if !x.calls[i].Done || x.calls[i].Err != nil {
			return x.viol("caller-not-resolved", fmt.Sprintf("upload %d answered with 200 but RoundTrip: done=%v err=%v", i, x.calls[i].Done, x.calls[i].Err))
		}
	}
	if len(x.h.S.Panics) > 0 {
		return x.viol("process-would-crash", strings.Join(x.h.S.Panics, "; "))
	}
	return nil
}

func c07Exec(cfg c07Cfg, path []int, closing bool) (menu int, v *fw.Violation, x *c07Run, evs []string) {
	x, v = newC07(cfg)
	if v != nil {
		return 0, v, x, nil
	}
	for i, c := range path {
		m := x.menu()
		if c >= len(m) {
			return 0, nil, x, evs
		}
		evs = append(evs, m[c])
		if vv := x.apply(m[c]); vv != nil {
			if i == len(path)-1 {
				return 0, vv, x, evs
			}
			return 0, nil, x, evs
		}
	}
	menu = len(x.menu())
	if closing {
		if vv := x.finishAll(); vv != nil {
			return 0, vv, x, evs
		}
	}
	return menu, nil, x, evs
}

func runC07(c *fw.Ctx) {
	runSpxFamily(c, "C07")
	if c.Tier == "thorough" {
		runC07Hist(c) // the thorough exploration uses its whole budget: the long histories go first there
	} else {
		defer runC07Hist(c) // last: if the time budget runs out it is the long histories that are cut short
	}
	thorough := c.Tier == "thorough"
	cfgs := []c07Cfg{
		{0, []int{3}, []int{0}, 0}, {1, []int{6}, []int{1}, 0}, {5, []int{6, 3}, []int{0, 2}, 0}, {1, []int{3, 1}, []int{2, 0}, 0},
		{5, []int{16385}, []int{0}, 0}, {0, []int{0, 3}, []int{2, 1}, 0}, {70000, []int{6, 6}, []int{0, 0}, 0},
		{5, nil, nil, 0}, {70000, nil, nil, 0}, // nothing in flight at first: SETTINGS and grants arrive on an idle connection, uploads start later
	}
	// uploads that start while the server allows 64 KiB frames; the limit is lowered (and raised) while they wait for credit
	cfgs = append(cfgs, c07Cfg{5, []int{40000}, []int{0}, 65536}, c07Cfg{5, []int{40000, 20000}, []int{1, 2}, 65536})
	depth := 3
	if thorough {
		depth = 4
		cfgs = append(cfgs, c07Cfg{1, []int{40000, 6}, []int{1, 0}, 0}, c07Cfg{5, []int{16384, 1}, []int{0, 2}, 0}, c07Cfg{0, []int{1, 3, 6}, []int{0, 1, 2}, 0}, c07Cfg{70000, []int{6, 6, 6}, []int{0, 1, 2}, 0})
	}
	c.Bound["depth"] = depth
	c.Bound["configs"] = len(cfgs)
	sampled := 0
	for _, cfg := range cfgs {
		cfg := cfg
		harness.Explore(c, fmt.Sprintf("C07 %v", cfg), depth, 2, func(path []int) int {
			menu, v, x, evs := c07Exec(cfg, path, true)
			defer x.h.Close()
			js, _ := json.Marshal(c07Case{Cfg: cfg, Path: path})
			c.Eval(nt(x.blocked, js))
			c.AddTransitions(int64(x.h.Events))
			c.AddTraces(1)
			c.State(fw.Hash(fmt.Sprint(cfg), x.l.conn, x.windows(), x.l.sent, x.maxFrame))
			if v != nil {
				v.Replay = map[string]any{"family": "c07", "case": c07Case{Cfg: cfg, Path: append([]int{}, path...), Events: evs}}
				c.Violate(*v)
				c.Outcome(v.Rule)
				return 0
			}
			c.Outcome("within-windows-and-complete")
			if sampled < 3 && len(path) == depth && x.blocked {
				sampled++
				c.Sample(map[string]any{"cfg": cfg, "trace": x.trace})
			}
			return menu
		})
	}
}

func replayC07(raw json.RawMessage) (string, bool) {
	var fam struct {
		Family string `json:"family"`
	}
	json.Unmarshal(raw, &fam)
	if fam.Family == "c07hist" {
		return replayC07Hist(raw)
	}
	var r struct {
		Case c07Case `json:"case"`
	}
	if err := json.Unmarshal(raw, &r); err != nil {
		return err.Error(), false
	}
	_, v, x, _ := c07Exec(r.Case.Cfg, r.Case.Path, true)
	defer x.h.Close()
	if v != nil {
		return v.Rule + " [" + v.Shape + "]: " + v.Detail, true
	}
	return "windows respected and uploads complete: " + strings.Join(x.trace, " ; "), false
}
