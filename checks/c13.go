package checks

import (
	"encoding/json"
	"fmt"
	"strings"

	"verif/fw"
	"verif/harness"
	"verif/peer"
	"verif/ref"
	"verif/vsched"
)

// C13 — server work and memory per connection stay within the configured limits.

func init() {
	fw.Register(&fw.Check{
		ID: "C13", Level: "model_checking",
		Rule:   "ELX with slow (gated) handlers, MaxConcurrentStreams=2, MaxRequestBodySize=8, MaxHeaderListSize=400: every sequence up to the depth bound over the adversarial moves {request (HEADERS+ES) on a new id, half-open request, RST_STREAM of the newest stream, PRIORITY / WINDOW_UPDATE on a new idle id, HEADERS without END_HEADERS, CONTINUATION with more fields, DATA over the body limit, mis-declared content-length, PING, SETTINGS, oldest handler returns}; plus every non-fatal sequence pumped x8 and x32 to separate 'bounded by the limits' from 'grows with the frames sent'. Oracle at every quiescent state: handlers running <= MaxConcurrentStreams; body and header list seen by a handler within the limits; objects the connection holds (pool gauges of the controlled runtime: Stream, RequestCtx, FrameHeader, frame bodies) within limit-derived bounds and equal for both pump counts. Non-trivial: sequence has >= 3 moves or is pumped; distinct by (sequence, pump).",
		Assume: []string{"per-connection state is observed as outstanding pooled objects (Get minus Put) of the deterministic pools the overlay substitutes for sync.Pool; the closed-stream ring (bounded by a constant in the code) is not observable this way", "canonical internal schedule between events"},
		Run:    runC13, Replay: replayC13, Policies: 1, QuickS: 200, ThoroughS: 900,
	})
}

var c13Moves = []string{"request", "half-open", "rst-newest", "priority-new", "window-update-new", "headers-open-block", "headers-open-block-malformed", "continuation", "continuation-end", "continuation-unfinished-field", "data-over-limit", "data-over-limit+ES", "data-at-limit+ES", "content-length-over", "request-huge-path", "request-head-and-trailers-each-under-the-limit", "ping", "settings", "finish-oldest", "finish-oldest-with-a-body-above-the-connection-window", "request-timeout"}

type c13Case struct {
	Path  []int    `json:"path"`
	Pump  int      `json:"pump"`
	Moves []string `json:"moves,omitempty"`
}

type c13Run struct {
	h          *harness.Server
	next       uint32
	newest     uint32
	block      uint32 // stream with an open header block
	trace      []string
	dead       bool
	limit      int
	maxBody    int
	maxHdr     int
	blockBytes int // bytes of an unfinished field sent in the open header block
}

func newC13() *c13Run {
	x := &c13Run{next: 1, limit: 2, maxBody: 8, maxHdr: 400}
	// ReadTimeout: the server gives requests up on its own when the (virtual) timer is fired by the move "request-timeout"
	x.h = harness.NewServer(harness.ServerOpts{MaxConcurrentStreams: x.limit, MaxRequestBodySize: x.maxBody, MaxHeaderListSize: x.maxHdr, ReadTimeout: 1000000000})
	return x
}

func (x *c13Run) newID() uint32 {
	id := x.next
	x.next += 2
	x.newest = id
	return id
}

func (x *c13Run) menu() []string {
	var m []string
	for _, mv := range c13Moves {
		switch mv {
		case "continuation", "continuation-end", "continuation-unfinished-field":
			if x.block == 0 {
				continue
			}
		case "rst-newest", "data-over-limit", "data-over-limit+ES", "data-at-limit+ES":
			if x.newest == 0 || x.block != 0 {
				continue
			}
		case "request-timeout":
			if len(x.h.S.Armed()) == 0 || x.block != 0 {
				continue
			}
		case "finish-oldest", "finish-oldest-with-a-body-above-the-connection-window":
			has := false
			for _, c := range x.h.Calls {
				has = has || !c.Returned
			}
			if !has {
				continue
			}
		default:
			if x.block != 0 && mv != "ping" && mv != "settings" {
				// anything but CONTINUATION inside a block is a connection error: keep two of them
				if mv != "request" {
					continue
				}
			}
		}
		m = append(m, mv)
	}
	return m
}

func (x *c13Run) apply(mv string) {
	h := x.h
	switch mv {
	case "request":
		id := x.newID()
		h.SendFrames(peer.Headers(id, reqBlock(id, "GET"), peer.HeadersOpt{EndStream: true, EndHeaders: true, Pad: -1}))
	case "half-open":
		id := x.newID()
		h.SendFrames(peer.Headers(id, reqBlock(id, "POST"), peer.HeadersOpt{EndHeaders: true, Pad: -1}))
	case "rst-newest":
		h.SendFrames(peer.RstStream(x.newest, 8))
	case "priority-new":
		id := x.next + 10
		x.next += 2
		h.SendFrames(peer.Priority(id, 0, false, 1))
	case "window-update-new":
		h.SendFrames(peer.WindowUpdate(x.next+10, 1))
	case "headers-open-block":
		id := x.newID()
		x.block = id
		h.SendFrames(peer.Headers(id, reqBlock(id, "POST"), peer.HeadersOpt{Pad: -1}))
	case "headers-open-block-malformed":
		// the block opens with an upper-case name: the server resets the stream while the block goes on
		id := x.newID()
		x.block = id
		fields := append([]ref.Field{{Name: "X-Upper", Value: "v"}}, harness.ReqFields("POST", "https", "h", "/m", [2]string{"x-sid", fmt.Sprint(id)})...)
		h.SendFrames(peer.Headers(id, staticBlock(fields), peer.HeadersOpt{Pad: -1}))
	case "continuation":
		h.SendFrames(peer.Continuation(x.block, staticBlock([]ref.Field{{Name: "x-more", Value: valOfLen(40)}}), false))
	case "continuation-end":
		h.SendFrames(peer.Continuation(x.block, staticBlock([]ref.Field{{Name: "x-last", Value: "v"}}), true))
		x.block = 0
	case "data-over-limit":
		h.SendFrames(peer.Data(x.newest, []byte("0123456789abcdef"), false, -1))
	case "data-over-limit+ES":
		// the frame that crosses the limit also ends the stream
		h.SendFrames(peer.Data(x.newest, []byte("0123456"), false, -1))
		h.SendFrames(peer.Data(x.newest, []byte("789abcdef"), true, -1))
	case "data-at-limit+ES":
		h.SendFrames(peer.Data(x.newest, []byte("01234567"), true, -1))
	case "request-huge-path":
		id := x.newID()
		fields := harness.ReqFields("GET", "https", "h", "/"+valOfLen(300), [2]string{"x-sid", fmt.Sprint(id)})
		h.SendFrames(peer.Headers(id, staticBlock(fields), peer.HeadersOpt{EndStream: true, EndHeaders: true, Pad: -1}))
	case "request-head-and-trailers-each-under-the-limit":
		// the opening block (397 octets by the RFC 7540 6.5.2 measure) and the trailer section (340) each stay under
		// MaxHeaderListSize = 400; the list a handler would be given is both
		id := x.newID()
		fields := harness.ReqFields("POST", "https", "h", "/t", [2]string{"x-sid", fmt.Sprint(id)}, [2]string{"x-fill-a", valOfLen(150 - len(fmt.Sprint(id)) + 1)})
		h.SendFrames(peer.Headers(id, staticBlock(fields), peer.HeadersOpt{EndHeaders: true, Pad: -1}))
		h.SendFrames(peer.Data(id, []byte("abc"), false, -1))
		h.SendFrames(peer.Headers(id, staticBlock([]ref.Field{{Name: "x-fill-t", Value: valOfLen(300)}}), peer.HeadersOpt{EndStream: true, EndHeaders: true, Pad: -1}))
	case "continuation-unfinished-field":
		// a literal whose declared length (1 MiB) never completes: the bytes can only be buffered
		if x.blockBytes == 0 {
			h.SendFrames(peer.Continuation(x.block, append([]byte{0x00, 0x01, 'k', 0x7f, 0x81, 0xff, 0x3f}, make([]byte, 12000)...), false))
			x.blockBytes = 12000
		} else {
			h.SendFrames(peer.Continuation(x.block, make([]byte, 16000), false))
			x.blockBytes += 16000
		}
	case "content-length-over":
		id := x.newID()
		fields := harness.ReqFields("POST", "https", "h", "/big", [2]string{"x-sid", fmt.Sprint(id)}, [2]string{"content-length", "1000000"})
		h.SendFrames(peer.Headers(id, staticBlock(fields), peer.HeadersOpt{EndHeaders: true, Pad: -1}))
	case "content-length-0-open", "content-length-4-open":
		// only used as the opening of a retained-heap case: a declared length below the limit, stream left open
		id := x.newID()
		fields := harness.ReqFields("POST", "https", "h", "/cl", [2]string{"x-sid", fmt.Sprint(id)}, [2]string{"content-length", strings.Split(mv, "-")[2]})
		h.SendFrames(peer.Headers(id, staticBlock(fields), peer.HeadersOpt{EndHeaders: true, Pad: -1}))
	case "request-timeout":
		h.FireTimer()
	case "ping":
		h.SendFrames(peer.Ping(false, [8]byte{1}))
	case "settings":
		h.SendFrames(peer.Settings())
	case "finish-oldest":
		for _, c := range h.Calls {
			if !c.Returned {
				h.Finish(c.Idx, harness.Resp{Status: 200, Body: []byte("ok")})
				break
			}
		}
	case "finish-oldest-with-a-body-above-the-connection-window":
		// the peer never opens its windows: the response stays half sent, and its stream keeps its slot
		for _, c := range h.Calls {
			if !c.Returned {
				h.Finish(c.Idx, harness.Resp{Status: 200, Body: []byte(valOfLen(70000))})
				break
			}
		}
	}
	x.trace = append(x.trace, mv)
	if len(h.GoAways) > 0 || h.C.Closed() || h.Returned {
		x.dead = true
	}
}

// check evaluates the invariants at the current quiescent state.
func (x *c13Run) check() (rule, shape, detail string) {
	h := x.h
	if h.MaxRunning > x.limit {
		return "handlers-above-limit", "running", fmt.Sprintf("%d handlers ran at once, MaxConcurrentStreams is %d", h.MaxRunning, x.limit)
	}
	for _, c := range h.Calls {
		if len(c.Req.Body) > x.maxBody {
			return "body-above-limit", "body", fmt.Sprintf("handler got a %d-byte body, MaxRequestBodySize is %d", len(c.Req.Body), x.maxBody)
		}
		sz := len(":method") + len(c.Req.Method) + 32 + len(":path") + len(c.Req.URI) + 32 + len(":scheme") + 5 + 32
		for _, kv := range c.Req.Headers {
			sz += len(kv[0]) + len(kv[1]) + 32
		}
		if sz > x.maxHdr+64 {
			return "header-list-above-limit", "headers", fmt.Sprintf("handler got a header list of %d (RFC 7540 6.5.2 size), MaxHeaderListSize is %d", sz, x.maxHdr)
		}
	}
	if !x.dead && x.blockBytes > x.maxHdr+16384+4096 {
		return "header-bytes-buffered-above-limit", "unfinished-field", fmt.Sprintf("%d bytes of one unfinished header field were accepted in CONTINUATION frames with MaxHeaderListSize=%d and no error was raised: they can only be sitting in a buffer", x.blockBytes, x.maxHdr)
	}
	// Gets - Puts per pool; when the execution is one that follows objects with finalizers (a re-run of
	// a suspicious one), only what the server can still reach: an object left to the collector is not state
	g := harness.Gauge()
	if vsched.TrackLive {
		g = harness.GaugeReachable()
	}
	if n := g["*http2.Stream"]; n > x.limit+2 {
		return "state-above-limit", "Stream objects", fmt.Sprintf("connection holds %d Stream objects with MaxConcurrentStreams=%d (gauges %v)", n, x.limit, g)
	}
	if n := g["*fasthttp.RequestCtx"]; n > x.limit+2 {
		return "state-above-limit", "RequestCtx objects", fmt.Sprintf("connection holds %d RequestCtx objects with MaxConcurrentStreams=%d (gauges %v)", n, x.limit, g)
	}
	if n := g["*http2.FrameHeader"]; n > 140 {
		return "state-above-limit", "queued frames", fmt.Sprintf("connection holds %d FrameHeader objects (gauges %v)", n, g)
	}
	if p := h.Panicked(); len(p) > 0 {
		return "server-panic", "panic", strings.Join(p, "; ")
	}
	if ev := h.PoolEvents(); len(ev) > 0 {
		return "pool-misuse", "pool", strings.Join(ev, "; ")
	}
	return "", "", ""
}

// c13Exec runs path (pumped: the whole path is repeated pump times while the
// connection lives), checking the invariants after every move.
func c13Exec(path []int, pump int) (menu int, v *fw.Violation, x *c13Run, gauge map[string]int) {
	menu, v, x, gauge = c13ExecG(path, pump, false)
	if v != nil && v.Rule == "state-above-limit" {
		// suspicious by the cheap count: decide on the same (deterministic) execution with reachability
		x.h.Close()
		return c13ExecG(path, pump, true)
	}
	return
}

// c13ExecG: with reach, the gauges returned count only objects still reachable after a settled collection.
func c13ExecG(path []int, pump int, reach bool) (menu int, v *fw.Violation, x *c13Run, gauge map[string]int) {
	gaugeFn := harness.Gauge
	if reach {
		gaugeFn = harness.GaugeReachable
	}
	vsched.TrackLive = reach
	defer func() { vsched.TrackLive = false }()
	x = newC13()
	mk := func(rule, shape, detail string) *fw.Violation {
		tr := x.trace
		if len(tr) > 30 {
			tr = append([]string{fmt.Sprintf("…%d moves…", len(tr)-30)}, tr[len(tr)-30:]...)
		}
		return &fw.Violation{Rule: rule, Shape: shape, Detail: detail + "\n    moves: " + strings.Join(tr, " ; ")}
	}
	for rep := 0; rep < pump && !x.dead; rep++ {
		for _, c := range path {
			m := x.menu()
			if c >= len(m) {
				if rep == 0 {
					return 0, nil, x, nil
				}
				continue
			}
			x.apply(m[c])
			if r, s, d := x.check(); r != "" {
				return 0, mk(r, s, d), x, nil
			}
			if x.dead {
				break
			}
		}
	}
	if x.dead {
		return 0, nil, x, gaugeFn()
	}
	return len(x.menu()), nil, x, gaugeFn()
}

func runC13(c *fw.Ctx) {
	runSpxFamily(c, "C13")
	if vsched.DefaultPolicy == 0 {
		runC13Heap(c)
	}
	thorough := c.Tier == "thorough"
	depth := 5
	if thorough {
		depth = 7
	}
	c.Bound["depth"] = depth
	c.Bound["pumps"] = []int{8, 32}
	sampled := 0
	harness.Explore(c, "C13", depth, 2, func(path []int) int {
		menu, v, x, _ := c13Exec(path, 1)
		moves := append([]string{}, x.trace...)
		dead := x.dead
		x.h.Close()
		js, _ := json.Marshal(path)
		if len(path) > 0 {
			c.Eval(nt(len(path) >= 3, js))
			c.AddTransitions(int64(len(path)))
			c.AddTraces(1)
			c.State(fw.Hash("c13", moves, dead))
			if v != nil {
				v.Replay = map[string]any{"family": "c13", "case": c13Case{Path: append([]int{}, path...), Pump: 1, Moves: moves}}
				c.Violate(*v)
				c.Outcome(v.Rule)
				return 0
			}
			c.Outcome("within-limits")
		}
		// pumped versions of complete sequences that leave the connection alive
		if len(path) >= 2 && !dead && (len(path) == depth || len(path) == 2) {
			var gauges []map[string]int
			for _, pump := range []int{8, 32} {
				_, pv, px, g := c13Exec(path, pump)
				c.Eval(nt(true, append(js, byte(pump))))
				c.AddTransitions(int64(len(px.trace)))
				c.AddTraces(1)
				alive := !px.dead
				px.h.Close()
				if pv != nil {
					pv.Shape += " pumped"
					pv.Replay = map[string]any{"family": "c13", "case": c13Case{Path: append([]int{}, path...), Pump: pump, Moves: moves}}
					c.Violate(*pv)
					c.Outcome(pv.Rule)
					return menu
				}
				if alive {
					gauges = append(gauges, g)
				}
			}
			if len(gauges) == 2 {
				grows := false
				for _, k := range []string{"*http2.Stream", "*fasthttp.RequestCtx", "*http2.FrameHeader", "*http2.HeaderField"} {
					grows = grows || gauges[1][k] > gauges[0][k]
				}
				if grows {
					// Gets - Puts grows with the repetitions: measure what is still reachable instead
					for i, pump := range []int{8, 32} {
						_, _, px, g := c13ExecG(path, pump, true)
						px.h.Close()
						gauges[i] = g
					}
				}
				for _, k := range []string{"*http2.Stream", "*fasthttp.RequestCtx", "*http2.FrameHeader", "*http2.HeaderField"} {
					if gauges[1][k] > gauges[0][k] {
						c.Violate(fw.Violation{Rule: "state-grows-with-frames", Shape: k, Detail: fmt.Sprintf("repeating the sequence %v 8 times leaves %d %s objects held, 32 times leaves %d: per-connection state grows with the number of frames sent", moves, gauges[0][k], k, gauges[1][k]),
							Replay: map[string]any{"family": "c13", "case": c13Case{Path: append([]int{}, path...), Pump: 32, Moves: moves}}})
						c.Outcome("state-grows-with-frames")
					}
				}
			}
			if sampled < 3 && len(path) == depth {
				sampled++
				c.Sample(map[string]any{"moves": moves, "pumped": []int{8, 32}, "gauges": gauges})
			}
		}
		return menu
	})
}

func replayC13(raw json.RawMessage) (string, bool) {
	var fam struct {
		Family string `json:"family"`
	}
	json.Unmarshal(raw, &fam)
	if fam.Family == "c13heap" {
		return replayC13Heap(raw)
	}
	var r struct {
		Case c13Case `json:"case"`
	}
	if err := json.Unmarshal(raw, &r); err != nil {
		return err.Error(), false
	}
	_, v, x, g := c13Exec(r.Case.Path, max(r.Case.Pump, 1))
	defer x.h.Close()
	if v != nil {
		return v.Rule + " [" + v.Shape + "]: " + v.Detail, true
	}
	if r.Case.Pump > 8 {
		x.h.Close()
		_, _, x, g = c13ExecG(r.Case.Path, r.Case.Pump, true)
		_, _, x8, g8 := c13ExecG(r.Case.Path, 8, true)
		x8.h.Close()
		for k, n := range g {
			if n > g8[k] && strings.HasPrefix(k, "*") {
				return fmt.Sprintf("state grows with frames: %s %d (x8) -> %d (x%d)", k, g8[k], n, r.Case.Pump), true
			}
		}
	}
	return fmt.Sprintf("within limits; gauges %v", g), false
}
