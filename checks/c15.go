package checks

import (
	"bytes"
	"encoding/hex"
	"encoding/json"
	"fmt"

	"github.com/dgrr/http2"
	"golang.org/x/net/http2/hpack"

	"verif/fw"
	"verif/ref"
)

// C15 — Huffman coding is the RFC 7541 code: lossless, canonical, strict.
//
// BX: exhaustive strings up to a length, on the real HuffmanEncode/Decode,
// against ref.Huff* (RFC 7541 5.2 from the code tree) and x/net.
// AX: explicit-state search over the byte-level decoding automaton of the
// reference (states = tree positions reachable at byte boundaries); every
// state is reached on the implementation by two different access strings and
// every (state, next byte, completion) transition is compared.

func init() {
	fw.Register(&fw.Check{
		ID: "C15", Level: "model_checking",
		Rule:   "BX: every byte string up to the stated length through HuffmanEncode and HuffmanDecode vs the RFC 7541 reference and x/net; AX: BFS over the reference decoding automaton (tree position at byte boundaries), each state reached by 2 access strings, each state x next byte x 7 completions compared. A case is non-trivial when the reference rejects it or it decodes/encodes at least 2 symbols; distinct by input bytes.",
		Assume: []string{"ref/hufftab.go is RFC 7541 Appendix B (transcribed from x/net, compared symbol by symbol with x/net at run time)", "decoder behaviour depends only on (tree position, pending bits): tested by the second access string per state, not proved"},
		Run:    runC15, Replay: replayC15, QuickS: 120, ThoroughS: 600,
	})
}

func implDecode(src []byte) ([]byte, bool) {
	return implDecodeInto(nil, src)
}

// implDecodeInto: a panic is reported as a failed decode whose "output" names the panic.
func implDecodeInto(dst, src []byte) (out []byte, ok bool) {
	defer func() {
		if r := recover(); r != nil {
			out, ok = []byte(fmt.Sprintf("PANIC: %v", r)), false
		}
	}()
	out, err := http2.HuffmanDecode(dst, src)
	if err != nil {
		return nil, false
	}
	return out, true
}

func huffDecodeClass(src []byte) string {
	_, err := ref.HuffDecode(src)
	switch err {
	case nil:
		return "accept"
	case ref.ErrHuffEOS:
		return "reject(EOS in string)"
	}
	// padding error: classify
	n := ref.HuffRoot
	for _, b := range src {
		var eos bool
		n, _, eos = ref.HuffStep(n, b)
		if eos {
			return "reject(EOS in string)"
		}
	}
	if !n.Ones {
		return "reject(padding not EOS prefix)"
	}
	return "reject(padding longer than 7 bits)"
}

// c15Decode compares one decode input; returns a violation or nil.
func c15Decode(src []byte) *fw.Violation {
	want, werr := ref.HuffDecode(src)
	got, ok := implDecode(src)
	cls := huffDecodeClass(src)
	rep := map[string]any{"family": "decode", "hex": hex.EncodeToString(src)}
	if !ok && bytes.HasPrefix(got, []byte("PANIC")) {
		return &fw.Violation{Rule: "huffman-decode-panics", Shape: "ref=" + cls,
			Detail: fmt.Sprintf("HuffmanDecode(%x) panicked instead of returning a string or an error (%s); RFC 7541: %s", src, got, cls), Replay: rep}
	}
	if werr != nil {
		if ok {
			return &fw.Violation{Rule: "huffman-decode-strict", Shape: "ref=" + cls + " impl=accept",
				Detail: fmt.Sprintf("HuffmanDecode(%x) accepted (-> %q) but RFC 7541 5.2 requires a decoding error: %s", src, got, cls), Replay: rep}
		}
		return nil
	}
	if !ok {
		return &fw.Violation{Rule: "huffman-decode-accept", Shape: "ref=accept impl=reject",
			Detail: fmt.Sprintf("HuffmanDecode(%x) failed (%s) but it is a valid encoding of %q", src, got, want), Replay: rep}
	}
	if !bytes.Equal(got, want) {
		return &fw.Violation{Rule: "huffman-decode-output", Shape: "output differs",
			Detail: fmt.Sprintf("HuffmanDecode(%x) = %q, RFC 7541 gives %q", src, got, want), Replay: rep}
	}
	return nil
}

func c15Encode(s []byte) *fw.Violation {
	want := ref.HuffEncode(s)
	got := http2.HuffmanEncode(nil, s)
	rep := map[string]any{"family": "encode", "hex": hex.EncodeToString(s)}
	if !bytes.Equal(got, want) {
		return &fw.Violation{Rule: "huffman-encode-canonical", Shape: fmt.Sprintf("len=%d", min(len(s), 3)),
			Detail: fmt.Sprintf("HuffmanEncode(%x) = %x, RFC 7541 Appendix B code padded with 1s is %x", s, got, want), Replay: rep}
	}
	back, ok := implDecode(got)
	if !ok || !bytes.Equal(back, s) {
		return &fw.Violation{Rule: "huffman-roundtrip", Shape: fmt.Sprintf("len=%d", min(len(s), 3)),
			Detail: fmt.Sprintf("HuffmanDecode(HuffmanEncode(%x)) = %q ok=%v", s, back, ok), Replay: rep}
	}
	return nil
}

// c15Into: the destination the caller passes (empty with little room, or holding earlier output) is appended to
// and nothing else about it matters.
func c15Into(s []byte) *fw.Violation {
	enc := ref.HuffEncode(s)
	for _, dst := range [][]byte{make([]byte, 0, 1), append(make([]byte, 0, 3), "xy"...), append(make([]byte, 0, 4096), "xy"...)} {
		pre := string(dst)
		out, ok := implDecodeInto(dst, enc)
		if !ok || string(out) != pre+string(s) {
			return &fw.Violation{Rule: "huffman-decode-appends", Shape: fmt.Sprintf("dst len=%d cap=%d", len(dst), cap(dst)),
				Detail: fmt.Sprintf("HuffmanDecode(dst holding %q with capacity %d, %x) = %q ok=%v, want %q", pre, cap(dst), enc, out, ok, pre+string(s)), Replay: map[string]any{"family": "encode", "hex": hex.EncodeToString(s)}}
		}
		eo := http2.HuffmanEncode(append([]byte{}, dst...), s)
		if string(eo) != pre+string(enc) {
			return &fw.Violation{Rule: "huffman-encode-appends", Shape: fmt.Sprintf("dst len=%d cap=%d", len(dst), cap(dst)),
				Detail: fmt.Sprintf("HuffmanEncode(dst holding %q, %x) = %x, want %q followed by %x", pre, s, eo, pre, enc), Replay: map[string]any{"family": "encode", "hex": hex.EncodeToString(s)}}
		}
	}
	return nil
}

func xnetAgrees(c *fw.Ctx, src []byte) {
	want, werr := ref.HuffDecode(src)
	got, xerr := hpack.HuffmanDecodeToString(src)
	if (werr == nil) != (xerr == nil) || (werr == nil && got != string(want)) {
		c.Disagree()
	}
}

func runC15(c *fw.Ctx) {
	thorough := c.Tier == "thorough"
	var item int64
	// (a) table, symbol by symbol, three ways
	for s := 0; s < 256; s++ {
		in := []byte{byte(s)}
		if !bytes.Equal(ref.HuffEncode(in), hpack.AppendHuffmanString(nil, string(in))) {
			c.Disagree()
		}
		if item++; c.Mine(item) {
			c.Eval(0)
			if v := c15Encode(in); v != nil {
				v.Rule = "huffman-table"
				v.Shape = "single symbol"
				c.Violate(*v)
			}
		}
	}
	c.Family("table-symbols")

	// (b) encode: all strings of length <= 2, length 3 over an alphabet (quick) or all (thorough)
	alpha := []byte{}
	seenLen := map[uint8]bool{}
	for s := 0; s < 256; s++ {
		_, n := ref.HuffCode(byte(s))
		if !seenLen[n] {
			seenLen[n] = true
			alpha = append(alpha, byte(s))
		}
	}
	for _, b := range []byte{0x00, 0xff, 'a', '0', ' ', 0x7f, 0x80} {
		if !bytes.Contains(alpha, []byte{b}) {
			alpha = append(alpha, b)
		}
	}
	c.Bound["encode_len3_alphabet"] = len(alpha)
	encOne := func(s []byte) {
		c.Eval(nt(len(s) >= 2, s))
		c.AddTransitions(int64(len(s)))
		if v := c15Encode(s); v != nil {
			c.Violate(*v)
		}
	}
	for a := 0; a < 256; a++ {
		if c.Expired("encode len<=2") {
			break
		}
		for b := 0; b < 256; b++ {
			if item++; c.Mine(item) {
				encOne([]byte{byte(a), byte(b)})
			}
		}
	}
	c.Family("encode-len2")
	if thorough {
		c.Bound["encode_len3"] = "all 2^24"
	outer:
		for a := 0; a < 256; a++ {
			for b := 0; b < 256; b++ {
				if c.Expired("encode len 3 (all)") {
					break outer
				}
				if item++; !c.Mine(item) {
					continue
				}
				for d := 0; d < 256; d++ {
					encOne([]byte{byte(a), byte(b), byte(d)})
				}
			}
		}
	} else {
		for _, a := range alpha {
			for _, b := range alpha {
				for _, d := range alpha {
					if item++; c.Mine(item) {
						encOne([]byte{a, b, d})
					}
				}
			}
		}
	}
	c.Family("encode-len3")
	// (b2) encoder phases. An encoder's state between symbols is the bits not yet flushed (0..7 of them, any value)
	// and, if it takes several symbols per step, the position modulo its step. Prefixes of 0..3 symbols over codes of
	// 5, 6, 7 and 8 bits reach every number of pending bits at every offset parity; after each prefix every ordered
	// pair of octets (and, over the one-symbol-per-code-length alphabet, every triple and quadruple) is encoded.
	pre := []byte{'a', ' ', ';', '&'} // code lengths 5, 6, 8, 8; with 'j' (7)
	pre = append(pre, 'j')
	var prefixes [][]byte
	var genPre func(cur []byte)
	genPre = func(cur []byte) {
		prefixes = append(prefixes, append([]byte{}, cur...))
		if len(cur) == 3 {
			return
		}
		for _, b := range pre {
			genPre(append(cur, b))
		}
	}
	genPre(nil)
	phases := map[[2]int]bool{}
	var usePre [][]byte
	for _, p := range prefixes {
		bits := 0
		for _, b := range p {
			_, n := ref.HuffCode(b)
			bits += int(n)
		}
		k := [2]int{bits % 8, len(p) % 4}
		if !phases[k] || thorough {
			phases[k] = true
			usePre = append(usePre, p)
		}
	}
	c.Bound["encode_phase_prefixes"] = len(usePre)
	buf := make([]byte, 0, 8)
phase:
	for _, p := range usePre {
		for a := 0; a < 256; a++ {
			if c.Expired("encode phases (pairs)") {
				break phase
			}
			if item++; !c.Mine(item) {
				continue
			}
			for b := 0; b < 256; b++ {
				buf = append(append(buf[:0], p...), byte(a), byte(b))
				encOne(buf)
			}
		}
		for _, a := range alpha {
			if item++; !c.Mine(item) {
				continue
			}
			for _, b := range alpha {
				for _, d := range alpha {
					buf = append(append(buf[:0], p...), a, b, d)
					encOne(buf)
					if thorough || len(p) < 2 {
						for _, e := range alpha {
							encOne(append(buf, e))
						}
					}
				}
			}
		}
	}
	c.Family("encode-phases")

	// (c') density: besides the tree position, a decoder's only other state is how much it has read and written.
	// Strings at both extremes of the expansion ratio (runs of one symbol per code length: 8/5 symbols per octet
	// down to 8/30), of every length up to 70 symbols, each also with one symbol of every other code length at
	// every position (runs up to 24), and every string of up to 9 symbols over two 5-bit, one 6-bit and one
	// 8-bit code: encoded, compared, decoded back, into empty, short and occupied destinations.
	denseOne := func(s []byte) {
		encOne(s)
		if v := c15Into(s); v != nil {
			c.Violate(*v)
		}
	}
	reps := alpha[:len(seenLen)]
	c.Bound["density_run_max"] = 70
	for _, a := range reps {
		if item++; !c.Mine(item) {
			continue
		}
		if c.Expired("density runs") {
			break
		}
		for k := 1; k <= 70; k++ {
			run := bytes.Repeat([]byte{a}, k)
			denseOne(run)
			if k > 24 {
				continue
			}
			for p := 0; p < k; p++ {
				for _, b := range reps {
					if b != a {
						t := append([]byte{}, run...)
						t[p] = b
						denseOne(t)
					}
				}
			}
		}
	}
	small := []byte{'0', 'a', ' ', '&'}
	c.Bound["density_small_alphabet_max_len"] = 9
	var genSmall func(cur []byte)
	genSmall = func(cur []byte) {
		if len(cur) >= 5 {
			denseOne(cur)
		}
		if len(cur) == 9 {
			return
		}
		for _, b := range small {
			genSmall(append(cur, b))
		}
	}
	for _, a := range small {
		for _, b := range small {
			if item++; c.Mine(item) && !c.Expired("density small alphabet") {
				genSmall([]byte{a, b})
			}
		}
	}
	c.Family("density")
	c.Sample(map[string]any{"family": "encode", "input_hex": "61ff00", "encoded_hex": hex.EncodeToString(ref.HuffEncode([]byte{0x61, 0xff, 0x00}))})

	// (c) decode BX
	decOne := func(src []byte) {
		want, werr := ref.HuffDecode(src)
		c.Eval(nt(werr != nil || len(want) >= 2, src))
		c.AddTransitions(int64(len(src)))
		c.Outcome(huffDecodeClass(src))
		if v := c15Decode(src); v != nil {
			c.Violate(*v)
		}
	}
	if c.Mine(0) {
		decOne(nil)
	}
	for a := 0; a < 256; a++ {
		if item++; c.Mine(item) {
			decOne([]byte{byte(a)})
			xnetAgrees(c, []byte{byte(a)})
		}
		for b := 0; b < 256; b++ {
			if item++; c.Mine(item) {
				decOne([]byte{byte(a), byte(b)})
				xnetAgrees(c, []byte{byte(a), byte(b)})
			}
		}
	}
	c.Family("decode-len<=2")
	c.Bound["decode_bx_len"] = 2
	if thorough {
		c.Bound["decode_bx_len"] = 3
	outer3:
		for a := 0; a < 256; a++ {
			for b := 0; b < 256; b++ {
				if c.Expired("decode len 3") {
					break outer3
				}
				if item++; !c.Mine(item) {
					continue
				}
				for d := 0; d < 256; d++ {
					decOne([]byte{byte(a), byte(b), byte(d)})
				}
			}
		}
		c.Family("decode-len3")
	}

	// (d) decode AX over the reference automaton
	type st struct {
		n      *ref.HNode
		access []byte
	}
	access := map[int][]byte{0: {}}
	order := []*ref.HNode{ref.HuffRoot}
	for i := 0; i < len(order); i++ {
		n := order[i]
		for b := 0; b < 256; b++ {
			nx, _, eos := ref.HuffStep(n, byte(b))
			if eos {
				continue
			}
			if _, ok := access[nx.ID]; !ok {
				access[nx.ID] = append(append([]byte{}, access[n.ID]...), byte(b))
				order = append(order, nx)
			}
		}
	}
	c.Bound["automaton_states_reachable_at_byte_boundaries"] = len(order)
	c.Bound["automaton_internal_nodes"] = len(ref.HuffNodes)
	completions := [][]byte{{}, {0xff}, {0xff, 0xff}, {0xff, 0xff, 0xff}, {0xff, 0xff, 0xff, 0xff}, {0x7f}, {0xfe}}
	var sampled bool
	for _, n := range order {
		if c.Expired("AX automaton") {
			break
		}
		if item++; !c.Mine(item) {
			continue
		}
		c.State(fw.Hash("huffstate", n.ID))
		acc1 := access[n.ID]
		acc2 := append([]byte{0xf8}, acc1...) // 0xf8 is the complete 8-bit code of '&': emits a symbol and returns to the root
		// hidden-state test: the two access strings must leave the implementation in the same place
		for b := 0; b < 256; b++ {
			for _, comp := range completions {
				for ai, acc := range [][]byte{acc1, acc2} {
					in := append(append(append([]byte{}, acc...), byte(b)), comp...)
					want, werr := ref.HuffDecode(in)
					c.Eval(nt(werr != nil || len(want) >= 2, in))
					c.AddTransitions(1)
					if ai == 0 {
						c.Outcome(huffDecodeClass(in))
					}
					if v := c15Decode(in); v != nil {
						v.Replay.(map[string]any)["family"] = "decode"
						c.Violate(*v)
					}
					if !sampled && b == 0x1f && len(comp) == 1 && n.ID == 3 {
						sampled = true
						c.Sample(map[string]any{"family": "AX transition", "state_depth": n.Depth, "access_hex": hex.EncodeToString(acc), "byte": b, "completion_hex": hex.EncodeToString(comp), "reference": huffDecodeClass(in)})
					}
				}
			}
			nx, _, eos := ref.HuffStep(n, byte(b))
			if !eos {
				c.State(fw.Hash("huffstate", nx.ID))
			}
		}
	}
	c.Family("decode-AX")
	c.AddTraces(c.Evals)
}

// nt returns a non-zero distinctness key when cond holds.
func nt(cond bool, key []byte) uint64 {
	if !cond {
		return 0
	}
	h := fw.Hash(key)
	if h == 0 {
		h = 1
	}
	return h
}

func replayC15(raw json.RawMessage) (string, bool) {
	var r struct {
		Family string `json:"family"`
		Hex    string `json:"hex"`
	}
	json.Unmarshal(raw, &r)
	b, _ := hex.DecodeString(r.Hex)
	var v *fw.Violation
	if r.Family == "encode" {
		v = c15Encode(b)
	} else {
		v = c15Decode(b)
	}
	if v != nil {
		return v.Detail, true
	}
	return fmt.Sprintf("%s %x: implementation agrees with the reference", r.Family, b), false
}
