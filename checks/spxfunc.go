package checks

import (
	"encoding/json"
	"fmt"
	"os"
	"strings"

	"github.com/dgrr/http2"

	"verif/fw"
	"verif/harness"
	"verif/peer"
	"verif/ref"
	"verif/vsched"
)

// Functional oracles on explored schedules: the ELX checks run the internal
// goroutines in their canonical order between two environment events. Here the
// same properties are judged on every schedule with a bounded number of
// deviations from that order (SPX), on the eight harnesses of C19, with the
// race detector off. Each property evaluates its own rules only.

func init() {
	fw.ReplayHook = replaySpxFunc
	fw.SetPolicy = func(p int) { vsched.DefaultPolicy = p }
}

// DescribeSpxFamilies appends the SPX family to the rule text of every check
// that has one. Called from main once every check is registered.
func DescribeSpxFamilies() {
	for prop, hs := range spxProps {
		fw.AppendRule(prop, "SPX family: harnesses "+strings.Join(hs, ", ")+" of C19 (environment steps as low-priority threads; decision points at every synchronisation operation), every schedule with <= 2 (server) / <= 1 (client) deviations from the run-to-quiescence order in quick and <= 3 / <= 2 in thorough, judged by this property's rules; a schedule is non-trivial if it has a decision point, distinct by (harness, choice prefix).")
	}
}

// spxProps says which harnesses each property's SPX family explores.
var spxProps = map[string][]string{
	"C01": {"S1", "S2", "S9", "S17"},
	"C09": {"S14", "S9", "S18"},
	"C13": {"S16", "S9"},
	"C06": {"S4", "S10"},
	"C10": {"S3", "S4", "S13"},
	"C17": {"S1", "S2", "S3", "S4", "S9", "S10", "S13", "S14", "S16", "S17", "S18"},
	"C18": {"S1", "S6", "S12"},
	"C02": {"S5", "S8", "S12", "S19"},
	"C07": {"S8"},
	"C11": {"S7", "S15"},
	"C12": {"S5", "S6", "S7", "S8", "S11", "S12", "S15", "S19"},
}

func spxScenarioFor(name string) *spxScenario {
	for _, sc := range append(serverScenarios(), clientScenarios()...) {
		if strings.HasPrefix(sc.Name, name+"-") || sc.Name == name {
			return sc
		}
	}
	return nil
}

// runSpxFamily explores the harnesses of prop and reports its rules.
func runSpxFamily(c *fw.Ctx, prop string) {
	if vsched.DefaultPolicy != 0 {
		return // schedule exploration does not depend on the canonical policy: once is enough
	}
	completed := map[string]int{}
	capped := map[string]bool{}
	for b := 1; b <= 3; b++ {
		for hi, short := range spxProps[prop] {
			sc := spxScenarioFor(short)
			top := 1
			if sc.Role == "server" {
				top = 2
			}
			if c.Tier == "thorough" {
				top++
			}
			if b > top || capped[sc.Name] {
				continue
			}
			item := int64(1)<<50 + int64(hi)<<40
			cp, n, pts := spxSearch(c, prop+" spx "+sc.Name, "spx:"+sc.Name, b, b, &item, func(prefix []int) spxOutcome {
				return spxFuncExec(sc, prefix, prop)
			})
			if cp {
				capped[sc.Name] = true
				c.Bound["spx capped:"+sc.Name] = fmt.Sprintf("time budget reached at deviation bound %d after %d schedules of this shard", b, n)
			} else {
				completed[sc.Name] = b
			}
			c.Bound["spx points:"+sc.Name] = pts
		}
	}
	for _, short := range spxProps[prop] {
		sc := spxScenarioFor(short)
		c.Bound["spx deviation_bound_completed:"+sc.Name] = completed[sc.Name]
		c.Family("spx:" + sc.Name)
	}
}

func replaySpxFunc(prop string, raw json.RawMessage) (string, bool, bool) {
	var r struct {
		Family   string `json:"family"`
		Scenario string `json:"scenario"`
		Prefix   []int  `json:"prefix"`
	}
	if json.Unmarshal(raw, &r) != nil || r.Family != "spxfunc" {
		return "", false, false
	}
	sc := spxScenarioFor(r.Scenario)
	if sc == nil {
		return "unknown scenario " + r.Scenario, false, true
	}
	out := spxFuncExec(sc, r.Prefix, prop)
	if len(out.Viol) > 0 {
		var ds []string
		for _, v := range out.Viol {
			ds = append(ds, v.Rule+" ["+v.Shape+"]: "+v.Detail)
		}
		return strings.Join(ds, "\n"), true, true
	}
	return fmt.Sprintf("schedule %v of %s: %d decision points, every rule of %s holds", r.Prefix, sc.Name, len(out.Points), prop), false, true
}

// spxFuncExec runs one schedule and evaluates prop's rules.
func spxFuncExec(sc *spxScenario, prefix []int, prop string) spxOutcome {
	x := sc.Build()
	if x.cl != nil && len(x.cl.Conns) > 0 {
		x.mark = len(x.cl.Conns[0].Out)
		x.markStreams = len(x.cl.Conns[0].Order)
	}
	x.start()
	dbg := os.Getenv("VERIF_SPX_TRACE") != ""
	if dbg {
		x.s.Debug = true
		x.s.Trace = nil
	}
	pts := harness.RunExplored(x.s, prefix)
	if dbg {
		fmt.Printf("TRACE %s prefix=%v\n", sc.Name, prefix)
		for _, l := range x.s.Trace {
			fmt.Println("  " + l)
		}
		x.s.Trace = nil
	}
	out := spxOutcome{Points: pts, Steps: x.s.Steps}
	rep := map[string]any{"family": "spxfunc", "scenario": sc.Name, "prefix": prefix}
	add := func(rule, shape, detail string) {
		out.Viol = append(out.Viol, fw.Violation{Rule: rule, Shape: "spx " + sc.Name + " " + shape, Detail: detail + "\n    environment order: " + envOrder(x), Replay: rep})
	}
	if x.s.Diverge != "" {
		add("harness-divergence", "", x.s.Diverge)
	}
	if x.srv != nil {
		spxServerRules(x, sc, prop, add)
		out.Obs = x.srv.Digest()
		x.srv.Close()
	} else {
		spxClientRules(x, sc, prop, add)
		out.Obs = x.cl.Digest()
		x.cl.Close()
	}
	return out
}

// envOrder lists the environment steps in the order they happened, with the
// number of bytes the implementation had written when each one did.
func envOrder(x *spxInst) string {
	type e struct {
		seq  int
		text string
	}
	var es []e
	for _, t := range x.env {
		for i := range t.Steps {
			st := &t.Steps[i]
			if st.Ran {
				es = append(es, e{st.Seq, fmt.Sprintf("%s:%s@%d", t.Name, st.String(), st.OutAt)})
			}
		}
	}
	for i := range es {
		for j := i + 1; j < len(es); j++ {
			if es[j].seq < es[i].seq {
				es[i], es[j] = es[j], es[i]
			}
		}
	}
	var out []string
	for _, v := range es {
		out = append(out, v.text)
	}
	return strings.Join(out, " ; ")
}

// ---- server ----

func spxServerRules(x *spxInst, sc *spxScenario, prop string, add func(rule, shape, detail string)) {
	h := x.srv
	h.Collect()
	explored := len(h.Out) // frames of the explored phase end here
	short := sc.Name[:strings.Index(sc.Name, "-")]

	// what the environment did
	finish := map[int]*harness.EnvStep{}
	for _, st := range x.steps("finish") {
		finish[st.Call] = st
	}
	peerClosed := false
	for _, st := range x.steps("peerclose") {
		peerClosed = peerClosed || st.Ran
	}
	resetBy := map[uint32]*harness.EnvStep{}
	type grant struct {
		stream uint32
		inc    int64
		at     int
	}
	var grants []grant
	for _, st := range x.steps("inject") {
		if !st.Ran {
			continue
		}
		fs, _ := peer.Parse(st.Bytes)
		for _, f := range fs {
			switch f.Type {
			case peer.TRstStream:
				resetBy[f.Stream] = st
			case peer.TWindowUpdate:
				sem, _ := peer.SemOf(f)
				grants = append(grants, grant{f.Stream, int64(sem.Inc), st.OutAt})
			}
		}
	}

	switch prop {
	case "C01", "C09":
		if prop == "C09" {
			for _, g := range h.GoAways {
				add("stream-error-ended-the-connection", "", fmt.Sprintf("GOAWAY(%s) although only stream-level offences were committed", peer.CodeName(g.Code)))
			}
		}
		seen := map[uint32]int{}
		for _, cl := range h.Calls {
			seen[cl.Stream]++
			if seen[cl.Stream] > 1 {
				add("dispatched-twice", "", fmt.Sprintf("stream %d reached the handler %d times", cl.Stream, seen[cl.Stream]))
			}
			wantBody := ""
			if (short == "S2" || short == "S18") && cl.Stream == 3 {
				wantBody = "abc"
			}
			if cl.Stream != 1 && (cl.Req.Method != "POST" || cl.Req.URI != fmt.Sprint("/s", cl.Stream) || string(cl.Req.Body) != wantBody) {
				add("request-not-intact", "", fmt.Sprintf("stream %d: handler saw %s %s body %q", cl.Stream, cl.Req.Method, cl.Req.URI, cl.Req.Body))
			}
		}
		if short == "S14" {
			if seen[5] != 0 {
				add("malformed-request-dispatched", "", "the request with an upper-case field name reached the handler")
			}
			for _, id := range []uint32{3, 7} {
				if seen[id] != 1 {
					add("neighbour-not-dispatched", "", fmt.Sprintf("well-formed request on stream %d dispatched %d times next to a refused one (dispatched: %v)", id, seen[id], h.DispatchedIDs()))
				}
			}
			if so := h.Streams[5]; so == nil || len(so.Rst) == 0 {
				add("malformed-request-not-refused", "", "no RST_STREAM on stream 5")
			}
		} else if short == "S9" {
			// one slot: a request is either dispatched or refused, never both, never neither
			for _, id := range []uint32{3, 5, 7} {
				refused := false
				if so := h.Streams[id]; so != nil {
					for _, code := range so.Rst {
						// RFC 7540 5.1.2: over the limit is a stream error of type PROTOCOL_ERROR or REFUSED_STREAM
						refused = refused || code == cREFUSED || code == cPROTOCOL
					}
				}
				if refused == (seen[id] == 1) {
					add("dispatch-xor-refusal", "", fmt.Sprintf("stream %d: dispatched %d times, refused=%v", id, seen[id], refused))
				}
			}
		} else {
			for _, id := range []uint32{3, 5} {
				if seen[id] != 1 {
					add("not-dispatched", "", fmt.Sprintf("complete request on stream %d dispatched %d times (dispatched: %v)", id, seen[id], h.DispatchedIDs()))
				}
			}
		}
		for idx, st := range finish {
			if !st.Ran || idx >= len(h.Calls) {
				continue
			}
			id := h.Calls[idx].Stream
			if resetBy[id] != nil {
				continue // the peer gave the stream up: nothing is owed on it
			}
			so := h.Streams[id]
			if so == nil || len(so.HeaderBlocks) != 1 || so.EndStream != 1 || string(so.Data) != string(st.Resp.Body) || harness.Status(so.HeaderBlocks[0]) != "200" || so.AfterEnd != 0 {
				got := "nothing"
				if so != nil {
					got = fmt.Sprintf("%d header blocks, body %q, END_STREAM x%d, %d frames after it", len(so.HeaderBlocks), so.Data, so.EndStream, so.AfterEnd)
				}
				add("response-not-intact", "", fmt.Sprintf("stream %d: handler returned 200 %q, the peer received %s", id, st.Resp.Body, got))
				continue
			}
			for _, kv := range st.Resp.Headers {
				if !hasKV(so.HeaderBlocks[0], strings.ToLower(kv[0]), kv[1]) {
					add("response-not-intact", "field", fmt.Sprintf("stream %d: field %s: %s missing from %v", id, kv[0], kv[1], so.HeaderBlocks[0]))
				}
			}
		}
		if h.HpackErr != "" {
			add("response-not-intact", "hpack", h.HpackErr)
		}
		if len(h.ProtoErrs) > 0 {
			add("response-not-intact", "framing", strings.Join(h.ProtoErrs, "; "))
		}
	case "C13":
		// one slot: never two handlers at once, whatever the peer resets
		if h.MaxRunning > 1 {
			add("handlers-above-max-concurrent-streams", "", fmt.Sprintf("%d handlers were running at once with MaxConcurrentStreams=1 (dispatched: %v)", h.MaxRunning, h.DispatchedIDs()))
		}
	case "C18":
		// one ACK for the one SETTINGS frame; the first header block after it starts with a size update <= 100
		acks, ackAt := 0, -1
		for i := 0; i < explored; i++ {
			if h.OutOffset[i] >= 0 && h.Out[i].Type == peer.TSettings && h.Out[i].Has(peer.FAck) {
				acks++
				if ackAt < 0 {
					ackAt = i
				}
			}
		}
		if acks != 1 {
			add("settings-ack-count", "", fmt.Sprintf("%d acknowledgements for one SETTINGS frame", acks))
		}
		if h.HpackErr != "" {
			add("header-block-invalid-for-peer", "hpack", h.HpackErr)
		}
		// strict decode in wire order with the peer's limit switching at the ACK
		mirror := ref.NewTable()
		first := true
		type blk struct {
			at  int
			id  uint32
			raw []byte
		}
		var blks []blk
		for id, so := range h.Streams {
			for i, raw := range so.RawBlocks {
				blks = append(blks, blk{so.HeadersIdx[i], id, raw})
			}
		}
		for i := range blks {
			for j := i + 1; j < len(blks); j++ {
				if blks[j].at < blks[i].at {
					blks[i], blks[j] = blks[j], blks[i]
				}
			}
		}
		for _, b := range blks {
			after := ackAt >= 0 && b.at > ackAt
			if after && first {
				mirror.SettingsMax = 100
			}
			fs, err := ref.DecodeBlock(mirror, b.raw)
			if err != nil {
				add("header-block-invalid-for-peer", "hpack", fmt.Sprintf("block on stream %d (frame %d, ACK at frame %d): %v", b.id, b.at, ackAt, err))
				break
			}
			if after && first {
				first = false
				if len(fs) == 0 || fs[0].Rep != ref.RepSizeUpdate || fs[0].NewMax > 100 {
					add("table-size-reduction-not-signalled", "hpack", fmt.Sprintf("first header block after the ACK (stream %d) starts with %v", b.id, firstRep(fs)))
				}
			}
			if after && mirror.Size() > 100 {
				add("table-above-peer-limit", "hpack", fmt.Sprintf("table holds %d bytes after the block on stream %d, the peer allows 100", mirror.Size(), b.id))
			}
		}
		for i := 0; i < explored; i++ {
			if len(h.Out[i].Payload) > 20000 || (ackAt < 0 || i < ackAt) && len(h.Out[i].Payload) > 16384 {
				add("frame-above-peer-max-frame-size", "", fmt.Sprintf("%s of %d bytes", peer.TypeName(h.Out[i].Type), len(h.Out[i].Payload)))
			}
		}
	case "C06":
		// S4: stream 3 starts with a window of 4 (S10: 100000), the connection with 65535 minus the warm body
		if short == "S10" {
			all := true
			for _, t := range x.env {
				for i := range t.Steps {
					all = all && t.Steps[i].Ran
				}
			}
			if all {
				for idx, st := range finish {
					id := h.Calls[idx].Stream
					if so := h.Streams[id]; so == nil || len(so.Data) != len(st.Resp.Body) || so.EndStream != 1 {
						n := 0
						if so != nil {
							n = len(so.Data)
						}
						add("stuck-with-open-windows", "", fmt.Sprintf("every grant was delivered (connection window 65531+70000, stream windows 100000), stream %d has %d of %d body bytes", id, n, len(st.Resp.Body)))
					}
				}
			}
		}
		sent := map[uint32]int64{}
		var connSent int64
		for i := 0; i < explored; i++ {
			f := h.Out[i]
			if f.Type != peer.TData || h.OutOffset[i] < 0 {
				continue
			}
			n := int64(len(f.Payload))
			sent[f.Stream] += n
			connSent += n
			allowS, allowC := int64(4), int64(65535-4)
			if short == "S10" {
				allowS = 100000
			}
			for _, g := range grants {
				if g.at <= h.OutOffset[i] {
					if g.stream == f.Stream {
						allowS += g.inc
					} else if g.stream == 0 {
						allowC += g.inc
					}
				}
			}
			if sent[f.Stream] > allowS {
				add("stream-window-exceeded", "", fmt.Sprintf("stream %d: %d DATA bytes written by offset %d, the peer had granted %d by then", f.Stream, sent[f.Stream], h.OutOffset[i], allowS))
			}
			if connSent > allowC {
				add("connection-window-exceeded", "", fmt.Sprintf("%d DATA bytes written by offset %d, the connection window allowed %d", connSent, h.OutOffset[i], allowC))
			}
		}
	}

	// canonical teardown: the peer goes away, handlers return, timers fire
	dispatchedBefore := len(h.Calls)
	h.PeerClose()
	for i, cl := range h.Calls {
		if !cl.Returned {
			h.Finish(i, harness.Resp{Status: 200})
		}
	}
	h.Drain(8)
	switch prop {
	case "C17":
		for _, p := range h.Panicked() {
			add("server-panic", "", p)
		}
		if !h.Returned {
			add("serveconn-never-returns", "", fmt.Sprintf("peer gone, handlers returned, timers fired: ServeConn has not returned; live: %v", h.S.Live()))
		} else if live := notEnv(h.S.LiveNames()); len(live) > 0 {
			add("goroutine-left-behind", live[0], fmt.Sprintf("ServeConn returned, still alive: %v", live))
		}
		for _, e := range h.PoolEvents() {
			add("pool-ownership", poolShape(e), e)
		}
	case "C10":
		var top uint32
		for _, cl := range h.Calls[:dispatchedBefore] {
			if cl.Stream > top {
				top = cl.Stream
			}
		}
		for _, g := range h.GoAways {
			if g.Last < top {
				add("goaway-understates-last-stream", "", fmt.Sprintf("GOAWAY last-stream-id %d, but stream %d was dispatched", g.Last, top))
			}
		}
		if len(h.Calls) > dispatchedBefore {
			add("dispatched-after-the-end", "", "a request was dispatched after the peer had gone")
		}
		if !h.Returned {
			add("serveconn-never-returns", "", fmt.Sprintf("ServeConn has not returned; live: %v", h.S.Live()))
		}
	}
	_ = peerClosed
}

// notEnv drops environment threads (one whose step never became enabled is not the implementation's).
func notEnv(live []string) []string {
	var own []string
	for _, l := range live {
		if !strings.HasPrefix(l, "env:") {
			own = append(own, l)
		}
	}
	return own
}

// ---- client ----

func spxClientRules(x *spxInst, sc *spxScenario, prop string, add func(rule, shape, detail string)) {
	h := x.cl
	h.Collect()
	short := sc.Name[:strings.Index(sc.Name, "-")]
	srv := h.Conns[0]
	phase := srv.Out[x.mark:] // what the client wrote during the explored phase

	// what the script answered, per stream
	answered := map[uint32]string{}
	switch short {
	case "S5", "S19":
		answered[3], answered[5] = "first", "second"
	case "S6":
		answered[3] = "late"
	}
	switch prop {
	case "C02":
		// per scripted connection: what the script answers on which stream
		answeredBy := map[int]map[uint32]string{0: answered}
		if short == "S12" {
			answeredBy = map[int]map[uint32]string{0: {3: "first", 5: "second", 7: "third"}, 1: {1: "n1", 3: "n2"}}
		}
		paths := map[string]int{}
		for ci, sv := range h.Conns {
			var lastID uint32
			for _, id := range sv.Order {
				if id%2 == 0 || id <= lastID {
					add("stream-id-order", "", fmt.Sprintf("connection %d: streams opened in the order %v", ci, sv.Order))
				}
				lastID = id
			}
			for _, id := range sv.Order {
				st := sv.Streams[id]
				p := hdrVal(st.Fields, ":path")
				paths[p]++
				if paths[p] > 1 {
					add("request-sent-twice", "", fmt.Sprintf("%s reached the servers on %d streams", p, paths[p]))
				}
				if p != "/warm" && (short == "S5" || short == "S12" || short == "S19") {
					if hdrVal(st.Fields, ":method") != "POST" || hdrVal(st.Fields, "x-common") != "the-same-value-every-time" || hdrVal(st.Fields, ":scheme") != "https" {
						add("request-not-intact", "fields", fmt.Sprintf("connection %d stream %d: the server received %v", ci, id, st.Fields))
					}
				}
			}
			if sv.HpackErr != "" {
				add("request-not-intact", "hpack", fmt.Sprintf("connection %d: %s", ci, sv.HpackErr))
			}
			if len(sv.ProtoErrs) > 0 {
				add("request-not-intact", "framing", strings.Join(sv.ProtoErrs, "; "))
			}
		}
		for _, cl := range h.Calls {
			if !cl.Done || cl.Err != nil || cl.Tag == "warm" {
				continue
			}
			// which connection and stream carried this caller's request
			ci, sid := -1, uint32(0)
			for i, sv := range h.Conns {
				for _, id := range sv.Order {
					if hdrVal(sv.Streams[id].Fields, ":path") == "/"+cl.Tag {
						ci, sid = i, id
					}
				}
			}
			want, ok := answeredBy[ci][sid]
			if !ok {
				add("response-from-nowhere", "", fmt.Sprintf("caller %s (connection %d stream %d) reports success with body %q although the server never answered that stream", cl.Tag, ci, sid, cl.Body))
			} else if string(cl.Body) != want || cl.Status != 200 {
				add("wrong-response-delivered", "", fmt.Sprintf("caller %s (connection %d stream %d) got %d %q, the server sent 200 %q on that stream", cl.Tag, ci, sid, cl.Status, cl.Body, want))
			}
		}
	case "C11":
		// S7: GOAWAY(1) with one request in flight; S15: GOAWAY(2^31-1) then GOAWAY(3) with two in flight,
		// stream 3 answered afterwards. A second scripted connection answers its streams 1 and 3.
		last := uint32(1)
		answered0 := map[uint32]string{}
		if short == "S15" {
			last = 3
			answered0[3] = "first"
		}
		answered1 := map[uint32]string{1: "n1", 3: "n2"}
		answered2 := map[uint32]string{1: "m1"}
		// the acknowledgement of the PING that follows the GOAWAY: nothing may be opened on the connection after it
		ackAt := -1
		for i, f := range phase {
			if f.Type == peer.TPing && f.Has(peer.FAck) && len(f.Payload) == 8 && f.Payload[0] == 7 {
				ackAt = i
			}
		}
		if ackAt >= 0 {
			for i, f := range phase {
				if i > ackAt && f.Type == peer.THeaders {
					add("new-stream-after-goaway", "", fmt.Sprintf("stream %d opened on the connection after the client had read the GOAWAY (its PING acknowledgement is frame %d of the phase, the HEADERS frame %d)", f.Stream, ackAt, i))
				}
			}
		}
		for _, cl := range h.Calls {
			if cl.Tag == "warm" {
				continue
			}
			var id0, id1, id2 uint32
			n0, n1 := 0, 0
			for ci, sc := range h.Conns {
				for _, id := range sc.Order {
					if hdrVal(sc.Streams[id].Fields, ":path") != "/"+cl.Tag {
						continue
					}
					switch ci {
					case 0:
						id0 = id
						n0++
					case 1:
						id1 = id
						n1++
					default:
						id2 = id
						n1++
					}
				}
			}
			where := fmt.Sprintf("connection 0 stream %d, connection 1 stream %d, connection 2 stream %d", id0, id1, id2)
			if n0 > 1 || n1 > 1 || (n0 == 1 && n1 == 1 && id0 <= last) {
				add("request-sent-twice", "", fmt.Sprintf("request %s reached the servers %d+%d times (%s); last-stream-id %d", cl.Tag, n0, n1, where, last))
			}
			disclaimed := id0 > last || id0 == 0
			switch {
			case cl.Done && cl.Err == nil:
				ok := id1 != 0 && string(cl.Body) == answered1[id1] || id2 != 0 && string(cl.Body) == answered2[id2]
				if want, has := answered0[id0]; has && id0 <= last && string(cl.Body) == want {
					ok = true
				}
				if !ok {
					add("wrong-or-disclaimed-success", "", fmt.Sprintf("request %s reports success with body %q (%s; last-stream-id %d)", cl.Tag, cl.Body, where, last))
				}
			case cl.Done:
				if cl.Retry && !disclaimed {
					add("retryable-although-processed", "", fmt.Sprintf("request %s on stream %d (at or below last-stream-id %d) reported retryable: %v", cl.Tag, id0, last, cl.Err))
				}
			default:
				// at the quiescent state after every environment step: whatever was disclaimed, or never sent, must have ended or moved on
				if id1 == 0 && id2 == 0 && (id0 == 0 || id0 > last) && ackAt >= 0 {
					add("disclaimed-request-left-waiting", "", fmt.Sprintf("request %s (%s) is still waiting at quiescence although the client has read GOAWAY(last-stream-id %d); live: %v", cl.Tag, where, last, h.S.Live()))
				}
				if id0 != 0 && id0 <= last && answered0[id0] != "" {
					add("promised-response-not-delivered", "", fmt.Sprintf("request %s on stream %d was answered after the GOAWAY and is still waiting", cl.Tag, id0))
				}
			}
		}
	case "C07":
		// S8: every stream starts with 4, SETTINGS raises the initial window to 9, grants as injected
		type grant struct {
			stream uint32
			inc    int64
			at     int
			all    bool
		}
		var grants []grant
		for _, st := range x.steps("inject") {
			if !st.Ran {
				continue
			}
			fs, _ := peer.Parse(st.Bytes)
			for _, f := range fs {
				if f.Type == peer.TWindowUpdate {
					sem, _ := peer.SemOf(f)
					grants = append(grants, grant{stream: f.Stream, inc: int64(sem.Inc), at: st.OutAt})
				}
				if f.Type == peer.TSettings && !f.Has(peer.FAck) {
					for _, p := range peer.ParseSettings(f.Payload) {
						if p.ID == peer.SInitialWindowSize {
							grants = append(grants, grant{inc: int64(p.Val) - 4, at: st.OutAt, all: true})
						}
					}
				}
			}
		}
		sent := map[uint32]int64{}
		off := 0
		for _, f := range phase {
			start := off
			off += 9 + len(f.Payload)
			if f.Type != peer.TData {
				continue
			}
			sent[f.Stream] += int64(len(f.Payload))
			allow := int64(4)
			for _, g := range grants {
				if g.at <= start && (g.all || g.stream == f.Stream) {
					allow += g.inc
				}
			}
			if sent[f.Stream] > allow {
				add("stream-window-exceeded", "", fmt.Sprintf("stream %d: %d DATA bytes written by offset %d, the server had granted %d by then", f.Stream, sent[f.Stream], start, allow))
			}
		}
	case "C18":
		if short == "S12" {
			// MAX_CONCURRENT_STREAMS=1 on every connection: a second stream may only be opened
			// once the answer that closed the first had been injected
			for ci, sc := range h.Conns {
				mark := 0
				if ci == 0 {
					mark = x.mark
				}
				off := 0
				opened := 0
				for _, f := range sc.Out[mark:] {
					start := off
					off += 9 + len(f.Payload)
					if f.Type != peer.THeaders {
						continue
					}
					opened++
					closedBy := 0
					for _, st := range x.steps("inject") {
						if st.Ran && st.Conn == ci && st.WaitHeaders > 0 && st.OutAt <= start {
							closedBy++
						}
					}
					if opened-closedBy > 1 {
						add("streams-above-peer-max-concurrent", "", fmt.Sprintf("connection %d: stream %d opened at offset %d while %d earlier streams of the phase were still unanswered (MAX_CONCURRENT_STREAMS=1)", ci, f.Stream, start, opened-1-closedBy))
					}
				}
			}
			break
		}
		// S6: SETTINGS(table=0, window, streams=10) between two requests: one ACK, next request block signals the reduction
		acks, ackAt := 0, -1
		for i, f := range phase {
			if f.Type == peer.TSettings && f.Has(peer.FAck) {
				acks++
				if ackAt < 0 {
					ackAt = i
				}
			}
		}
		injected := false
		for _, st := range x.steps("inject") {
			fs, _ := peer.Parse(st.Bytes)
			for _, f := range fs {
				if st.Ran && f.Type == peer.TSettings && !f.Has(peer.FAck) {
					injected = true
				}
			}
		}
		if injected && acks != 1 && !srv.C.Closed() {
			add("settings-ack-count", "", fmt.Sprintf("%d acknowledgements for one SETTINGS frame", acks))
		}
		if srv.HpackErr != "" {
			add("header-block-invalid-for-peer", "hpack", srv.HpackErr)
		}
		// request blocks after the ACK: the first must start with a size update to 0
		first := true
		for i, f := range phase {
			if f.Type != peer.THeaders {
				continue
			}
			id := f.Stream
			st := srv.Streams[id]
			if ackAt >= 0 && i > ackAt && first && st != nil && len(st.RawBlock) > 0 {
				first = false
				if st.RawBlock[0]&0xe0 != 0x20 {
					add("table-size-reduction-not-signalled", "hpack", fmt.Sprintf("first request block after the ACK (stream %d) starts with byte %#x, not a dynamic table size update", id, st.RawBlock[0]))
				}
			}
		}
	}

	// canonical teardown
	for i := range h.Conns {
		if !h.Conns[i].C.Closed() {
			h.ServerClose(i)
		}
	}
	for i := 0; i < 10; i++ {
		pending := false
		for _, cl := range h.Calls {
			pending = pending || !cl.Done
		}
		if !pending || !h.FireTimer("") {
			break
		}
	}
	if prop == "C12" {
		for _, p := range h.S.Panics {
			add("process-would-crash", "", p)
		}
		for _, cl := range h.Calls {
			if !cl.Done {
				add("request-never-resolved", "", fmt.Sprintf("request %q: RoundTrip has not returned although the server is gone and every armed timer fired; live: %v", cl.Tag, h.S.Live()))
			} else if cl.Resolved != 1 {
				add("resolved-more-than-once", "", fmt.Sprintf("request %q: RoundTrip returned %d times", cl.Tag, cl.Resolved))
			}
		}
		h.CloseClient()
		for i := 0; i < 6 && len(h.S.LiveNames()) > 0; i++ {
			if !h.FireTimer("") {
				break
			}
		}
		if own := notEnv(h.S.LiveNames()); len(own) > 0 {
			add("goroutine-left-behind", own[0], fmt.Sprintf("after Client.Close: %v still alive", own))
		}
		for _, conn := range http2.VerifClientConns(h.Cl) {
			in, o, queued, pending := http2.VerifConnQueues(conn)
			if in+o+queued+pending > 0 {
				add("requests-stranded", "", fmt.Sprintf("after Close a connection still holds in=%d out=%d queued=%d pending=%d", in, o, queued, pending))
			}
		}
	}
}
