package checks

import (
	"encoding/json"
	"fmt"
	"strings"

	"verif/fw"
	"verif/harness"
	"verif/peer"
	"verif/vsched"
)

// C06, family "history". The other families explore every short sequence of events around a handful of responses;
// an accounting error of an octet per response, per SETTINGS change or per refill only shows after many of them.
// Here one connection serves a long run of responses (sizes around every boundary: 0, 1, the frame size, the
// window, one more; buffered and the four streamed kinds) to a peer that keeps the authoritative ledger and grants
// credit in one of several rhythms (exactly what is missing, small pieces, stream first then connection, the
// connection far ahead), changing SETTINGS_INITIAL_WINDOW_SIZE every few requests (down below what open streams
// have used, up again). Oracle at every quiescent state: C06's own — no DATA beyond either window, no frame above
// 16384, a stream with bytes left and both windows positive is being served, END_STREAM arrives exactly once.

type c06HistCase struct {
	N       int    `json:"responses"`
	InitWin uint32 `json:"init_window"`
	Grant   string `json:"grant_rhythm"`
	Retune  int    `json:"settings_change_every"`
	Two     bool   `json:"two_at_a_time"`
}

func c06HistRun(cs c06HistCase) (*fw.Violation, *harness.Server) {
	h := harness.NewServer(harness.ServerOpts{MaxConcurrentStreams: 8, PeerSettings: []peer.Setting{{ID: peer.SInitialWindowSize, Val: cs.InitWin}}})
	l := newLedger(cs.InitWin)
	seen := 0
	mk := func(rule, shape, detail string) *fw.Violation {
		ev := h.EventLog
		if len(ev) > 10 {
			ev = append([]string{fmt.Sprintf("…%d events…", len(ev)-10)}, ev[len(ev)-10:]...)
		}
		return &fw.Violation{Rule: rule, Shape: "history " + shape, Detail: detail + "\n    events: " + strings.Join(ev, " ; "), Replay: map[string]any{"family": "c06hist", "case": cs}}
	}
	account := func() *fw.Violation {
		for ; seen < len(h.Out); seen++ {
			f := h.Out[seen]
			if f.Type != peer.TData {
				continue
			}
			n := int64(len(f.Payload))
			if n > 16384 {
				return mk("frame-above-max-frame-size", "frame", fmt.Sprintf("DATA frame of %d bytes on stream %d", n, f.Stream))
			}
			sw, ok := l.stream[f.Stream]
			if !ok {
				continue
			}
			if n > 0 && (sw < n || l.conn < n) {
				which := "stream"
				if l.conn < n {
					which = "connection"
				}
				return mk("window-exceeded", which, fmt.Sprintf("DATA of %d bytes on stream %d with stream window %d and connection window %d (response %d of the run)", n, f.Stream, sw, l.conn, (f.Stream-1)/2))
			}
			l.stream[f.Stream] -= n
			l.conn -= n
			l.sent[f.Stream] += int(n)
		}
		return nil
	}
	w := int(cs.InitWin)
	sizes := []int{0, 1, 100, 16384, 16385, w - 1, w, w + 1, 2*w + 7, 40000, 3, 163839, 163841} // the last two straddle the write buffer
	wins := []uint32{cs.InitWin, cs.InitWin / 2, 0, cs.InitWin * 2, 1, cs.InitWin}
	id := uint32(1)
	retunes := 0
	per := 1
	if cs.Two {
		per = 2
	}
	for i := 0; i < cs.N; i += per {
		type open struct {
			id   uint32
			size int
			call int
		}
		var ops []open
		for k := 0; k < per && i+k < cs.N; k++ {
			size := sizes[(i+k)%len(sizes)]
			if size < 0 {
				size = 0
			}
			calls := len(h.Calls)
			h.SendFrames(peer.Headers(id, reqBlock(id, "GET"), peer.HeadersOpt{EndStream: true, EndHeaders: true, Pad: -1}))
			l.open(id)
			if len(h.Calls) != calls+1 {
				return mk("request-not-dispatched", "setup", fmt.Sprintf("request %d (stream %d) was not dispatched: %s", i+k, id, h.Reaction(0))), h
			}
			ops = append(ops, open{id, size, calls})
			id += 2
		}
		for k, o := range ops {
			kind := (i + k) % 5
			h.Finish(o.call, c06Resp(o.size, kind != 0, kind-1))
		}
		if v := account(); v != nil { // what was sent before the peer changes its mind
			return v, h
		}
		if cs.Retune > 0 && (i/per)%cs.Retune == cs.Retune-1 {
			retunes++
			v := wins[retunes%len(wins)]
			h.SendFrames(peer.Settings(peer.Setting{ID: peer.SInitialWindowSize, Val: v}))
			l.settings(v)
		}
		for guard := 0; ; guard++ {
			if v := account(); v != nil {
				return v, h
			}
			if len(h.GoAways) > 0 || h.C.Closed() {
				return mk("connection-error-on-legal-history", "conn", fmt.Sprintf("response %d: %s", i, h.Reaction(0))), h
			}
			pending := false
			for _, o := range ops {
				so := h.Streams[o.id]
				left := o.size - l.sent[o.id]
				ended := so != nil && so.EndStream > 0
				if ended && so.EndStream > 1 {
					return mk("end-stream-twice", "end", fmt.Sprintf("stream %d: END_STREAM %d times", o.id, so.EndStream)), h
				}
				if ended && left > 0 {
					return mk("response-truncated", "end", fmt.Sprintf("stream %d ended after %d of %d bytes", o.id, l.sent[o.id], o.size)), h
				}
				if ended {
					continue
				}
				pending = true
				if left > 0 && l.stream[o.id] > 0 && l.conn > 0 {
					return mk("stuck-with-open-windows", "stuck", fmt.Sprintf("response %d: stream %d has %d unsent bytes, stream window %d, connection window %d, and nothing more is sent", i, o.id, left, l.stream[o.id], l.conn)), h
				}
				if left == 0 {
					return mk("stuck-with-open-windows", "end-stream-missing", fmt.Sprintf("response %d: all %d bytes of stream %d sent but END_STREAM never arrived (stream window %d, connection window %d)", i, o.size, o.id, l.stream[o.id], l.conn)), h
				}
				// grant
				need := int64(left)
				sNeed, cNeed := need-l.stream[o.id], need-l.conn
				switch cs.Grant {
				case "small":
					// pieces of about a thousand octets (an eighth of what is left for the large bodies)
					sNeed, cNeed = min(sNeed, max(1000, need/8)), min(cNeed, max(700, need/9))
				case "stream-first":
					if sNeed > 0 {
						cNeed = 0
					}
				case "connection-ahead":
					if cNeed > 0 {
						cNeed += 100000
					}
				}
				if sNeed > 0 {
					h.SendFrames(peer.WindowUpdate(o.id, uint32(sNeed)))
					l.stream[o.id] += sNeed
				}
				if cNeed > 0 {
					h.SendFrames(peer.WindowUpdate(0, uint32(cNeed)))
					l.conn += cNeed
				}
				break // one grant at a time: see what it releases
			}
			if !pending {
				break
			}
			if guard > 2000 {
				return mk("harness-horizon", "guard", "response did not complete within 2000 grants"), h
			}
		}
		// keep the connection window from growing without bound in the "ahead" rhythm: nothing to do, it is legal
		if l.conn > 1<<30 {
			break
		}
	}
	if p := h.Panicked(); len(p) > 0 {
		return mk("server-panic", "panic", strings.Join(p, "; ")), h
	}
	return nil, h
}

func runC06Hist(c *fw.Ctx) {
	if vsched.DefaultPolicy != 0 {
		return
	}
	n := 52
	if c.Tier == "thorough" {
		n = 330
	}
	i := 0
	for _, win := range []uint32{65535, 20000, 100} {
		for _, g := range []string{"exact", "small", "stream-first", "connection-ahead"} {
			for _, rt := range []int{0, 3} {
				for _, two := range []bool{false, true} {
					i++
					if !c.Mine(int64(1)<<46 + int64(i)) {
						continue
					}
					if c.Expired("C06 history") {
						return
					}
					cs := c06HistCase{N: n, InitWin: win, Grant: g, Retune: rt, Two: two}
					v, h := c06HistRun(cs)
					js, _ := json.Marshal(cs)
					c.Eval(nt(true, append([]byte("hist"), js...)))
					c.AddTransitions(int64(h.Events))
					c.AddTraces(1)
					c.State(fw.Hash(h.Digest()))
					if v != nil {
						c.Violate(*v)
						c.Outcome(v.Rule)
					} else {
						c.Outcome("within-windows-and-finished:history")
					}
					h.Close()
				}
			}
		}
	}
	c.Family("history")
}

func replayC06Hist(raw json.RawMessage) (string, bool) {
	var r struct {
		Case c06HistCase `json:"case"`
	}
	if err := json.Unmarshal(raw, &r); err != nil {
		return err.Error(), false
	}
	v, h := c06HistRun(r.Case)
	defer h.Close()
	if v != nil {
		return v.Rule + " [" + v.Shape + "]: " + v.Detail, true
	}
	return "every response within the windows and finished", false
}
