package checks

import (
	"encoding/json"
	"fmt"
	"os"
	"runtime"
	"strings"

	"verif/fw"
	"verif/harness"
	"verif/peer"
	"verif/ref"
)

// C17 — the server outlives any peer: no panic, no stuck or leaked connection.

func init() {
	fw.Register(&fw.Check{
		ID: "C17", Level: "model_checking",
		Rule:   "ELX fault enumeration on the real ServeConn: a recorded well-formed client byte stream (3 requests with CONTINUATION, padded DATA, priority, trailers, WINDOW_UPDATE, PING, RST_STREAM) cut at EVERY byte offset (EOF) with handlers returning before or after the cut; every single structural mutation of it (delete / duplicate / swap frames, every flag bit, every type 0..10, stream id in {0, +2, -2, even}, length field +-1; pairs in thorough); every sequence of <= 3 (quick) / 4 (thorough) frames of a 'soup' alphabet with malformed sizes; the server's k-th transport Write failing for every k; a peer that stops reading and then closes. Oracle: no line from any recover() and no unrecovered panic; after the peer is gone, handlers have returned and armed virtual timers fired, ServeConn has returned and no managed goroutine is left; pool tracker silent (no double release, no request context recycled while its handler runs). Non-trivial: every faulted scenario; distinct by scenario.",
		Assume: []string{"canonical internal schedule between events (schedule-dependent teardown races are explored in C19)"},
		Run:    runC17, Replay: replayC17, Policies: 1, QuickS: 200, ThoroughS: 900,
	})
}

// c17Stream is the recorded client conversation, as frames after the preface.
func c17Frames() []peer.Frame {
	enc := harness.NewPeerEncoder()
	b1 := enc.Block(harness.ReqFields("POST", "https", "h", "/one", [2]string{"x-sid", "1"}, [2]string{"te", "trailers"}), nil)
	t1 := enc.Block([]ref.Field{{Name: "x-trailer", Value: "t"}}, nil)
	b3 := enc.Block(harness.ReqFields("GET", "https", "h", "/three", [2]string{"x-sid", "3"}), nil)
	b5 := enc.Block(harness.ReqFields("POST", "https", "h", "/five", [2]string{"x-sid", "5"}, [2]string{"content-length", "4"}), nil)
	b7 := enc.Block(harness.ReqFields("POST", "https", "h", "/seven", [2]string{"x-sid", "7"}), nil)
	return []peer.Frame{
		peer.Settings(peer.Setting{ID: peer.SInitialWindowSize, Val: 70000}),
		peer.SettingsAck(),
		peer.Headers(1, b1[:7], peer.HeadersOpt{Pad: -1}),
		peer.Continuation(1, b1[7:], true),
		peer.Data(1, []byte("hello"), false, -1),
		peer.Headers(3, b3, peer.HeadersOpt{EndStream: true, EndHeaders: true, Pad: 2, Prio: true, Dep: 1, Weight: 10}),
		peer.Data(1, []byte(" world"), false, 3),
		peer.WindowUpdate(0, 1000),
		peer.Headers(1, t1, peer.HeadersOpt{EndStream: true, EndHeaders: true, Pad: -1}),
		peer.Ping(false, [8]byte{1, 2, 3}),
		peer.Headers(5, b5, peer.HeadersOpt{EndHeaders: true, Pad: -1}),
		peer.Priority(5, 3, true, 200),
		peer.Data(5, []byte("data"), true, -1),
		peer.WindowUpdate(3, 10),
		peer.Headers(7, b7, peer.HeadersOpt{EndHeaders: true, Pad: -1}),
		peer.Data(7, []byte("partial"), false, -1),
		peer.RstStream(7, 8),
	}
}

type c17Case struct {
	Family string   `json:"family"` // cut | mutate | soup | writefail | stopreading
	Cut    int      `json:"cut,omitempty"`
	Late   bool     `json:"handlers_return_after_the_fault"`
	Mut    []string `json:"mutations,omitempty"`
	Soup   []int    `json:"soup,omitempty"`
	K      int      `json:"k,omitempty"`
	// Flood: kind of frame a non-reading peer floods the server with (K of them)
	Flood string `json:"flood,omitempty"`
	// Grid: one frame of the structure grid {type, flags, length, first octet, stream role, filler}
	Grid *c17Grid `json:"grid,omitempty"`
}

// c17Grid is a single frame given by its header fields and the octets that
// drive the parsers' structure decisions (pad length, first octet of a fixed
// field); it is sent on a live connection with one request open on stream 1.
type c17Grid struct {
	Type   uint8 `json:"type"`
	Flags  uint8 `json:"flags"`
	Len    int   `json:"len"`
	First  int   `json:"first"`  // value of payload[0] (when Len > 0)
	Stream int   `json:"stream"` // 0 | 1 (open, handler running) | 3 (new)
	Fill   uint8 `json:"fill"`
}

func (g c17Grid) frame() peer.Frame {
	p := make([]byte, g.Len)
	for i := range p {
		p[i] = g.Fill
	}
	if g.Len > 0 {
		p[0] = byte(g.First)
	}
	return peer.Frame{Type: g.Type, Flags: g.Flags, Stream: uint32(g.Stream), Payload: p}
}

func serialize(fs []peer.Frame) []byte {
	var b []byte
	for _, f := range fs {
		b = f.Append(b)
	}
	return b
}

// applyMutation returns the byte stream with one structural mutation applied.
func c17Mutate(fs []peer.Frame, m string) []byte {
	var kind string
	var i, a int
	fmt.Sscanf(m, "%s %d %d", &kind, &i, &a)
	out := append([]peer.Frame{}, fs...)
	if i >= len(out) { // a second mutation whose frame an earlier deletion removed: nothing left to change
		return serialize(out)
	}
	switch kind {
	case "delete":
		out = append(out[:i], out[i+1:]...)
	case "dup":
		out = append(out[:i+1], append([]peer.Frame{out[i]}, out[i+1:]...)...)
	case "swap":
		if i+1 < len(out) {
			out[i], out[i+1] = out[i+1], out[i]
		}
	case "flag":
		out[i].Flags ^= 1 << uint(a)
	case "type":
		out[i].Type = uint8(a)
	case "stream":
		switch a {
		case 0:
			out[i].Stream = 0
		case 1:
			out[i].Stream += 2
		case 2:
			if out[i].Stream > 2 {
				out[i].Stream -= 2
			} else {
				out[i].Stream = 9
			}
		case 3:
			out[i].Stream = 2
		}
	case "len":
		var b []byte
		for j, f := range out {
			if j == i {
				w := f.Bytes()
				n := len(f.Payload) + a
				if n < 0 {
					n = 0
				}
				w[0], w[1], w[2] = byte(n>>16), byte(n>>8), byte(n)
				b = append(b, w...)
			} else {
				b = f.Append(b)
			}
		}
		return b
	}
	return serialize(out)
}

var c17Soup = func() []peer.Frame {
	blk := reqBlock(1, "POST")
	return []peer.Frame{
		peer.Headers(1, blk, peer.HeadersOpt{EndHeaders: true, Pad: -1}),
		peer.Headers(1, blk, peer.HeadersOpt{EndStream: true, EndHeaders: true, Pad: -1}),
		peer.Headers(1, blk[:3], peer.HeadersOpt{Pad: -1}),
		peer.Headers(3, blk, peer.HeadersOpt{EndStream: true, EndHeaders: true, Pad: 255}),
		{Type: peer.THeaders, Stream: 1, Flags: peer.FPadded | peer.FEndHeaders, Payload: []byte{200, 0x82}},
		{Type: peer.THeaders, Stream: 1, Flags: peer.FPriority | peer.FEndHeaders, Payload: []byte{0, 0, 0}},
		peer.Continuation(1, blk[3:], true),
		peer.Continuation(1, nil, false),
		peer.Data(1, []byte("x"), false, -1),
		peer.Data(1, nil, true, -1),
		{Type: peer.TData, Stream: 1, Flags: peer.FPadded, Payload: []byte{9, 'x'}},
		{Type: peer.TData, Stream: 1, Flags: peer.FPadded},
		peer.RstStream(1, 8),
		{Type: peer.TRstStream, Stream: 1, Payload: []byte{0, 0}},
		peer.WindowUpdate(1, 1<<31-1),
		peer.WindowUpdate(0, 0),
		{Type: peer.TWindowUpdate, Stream: 1, Payload: []byte{0}},
		peer.Priority(1, 1, false, 0),
		{Type: peer.TPriority, Stream: 1, Payload: []byte{0, 0, 0, 0}},
		peer.Settings(peer.Setting{ID: peer.SInitialWindowSize, Val: 0}),
		peer.Settings(peer.Setting{ID: peer.SHeaderTableSize, Val: 0}),
		{Type: peer.TSettings, Payload: []byte{0, 4, 0}},
		peer.Ping(false, [8]byte{}),
		{Type: peer.TPing, Payload: []byte{1}},
		peer.GoAway(0, 0, ""),
		{Type: peer.TGoAway, Payload: []byte{0, 0}},
		{Type: peer.TPushPromise, Stream: 1, Flags: peer.FEndHeaders, Payload: []byte{0, 0, 0, 2, 0x82}},
		{Type: 0x0b, Stream: 1, Payload: []byte("ext")},
	}
}()

func c17Exec(cs c17Case) (*fw.Violation, *harness.Server) {
	so := harness.ServerOpts{MaxConcurrentStreams: 4, NoHandshake: true}
	if cs.Family == "flood" && strings.HasPrefix(cs.Flood, "running-handlers") {
		so.MaxConcurrentStreams = 1024 // the library's default: that many handlers may be running when the peer goes
	}
	h := harness.NewServer(so)
	mk := func(rule, shape, detail string) *fw.Violation {
		ev := h.EventLog
		if len(ev) > 16 {
			ev = append([]string{fmt.Sprintf("…%d events…", len(ev)-16)}, ev[len(ev)-16:]...)
		}
		return &fw.Violation{Rule: rule, Shape: shape, Detail: detail + "\n    events: " + strings.Join(ev, " ; ") + fmt.Sprintf("\n    live goroutines: %v\n    log: %v", h.S.Live(), clipLog(h.Log)), Replay: map[string]any{"family": "c17", "case": cs}}
	}
	frames := c17Frames()
	finishNew := func() {
		if cs.Late {
			return
		}
		for _, c := range h.Calls {
			if !c.Returned {
				h.Finish(c.Idx, harness.Resp{Status: 200, Body: []byte("response-body"), Headers: [][2]string{{"X-R", "r"}}})
			}
		}
	}
	feed := func(b []byte) {
		// deliver frame by frame (and the remainder), letting handlers return in between
		for len(b) > 0 && !h.Returned {
			n := len(b)
			if len(b) >= 9 {
				l := 9 + (int(b[0])<<16 | int(b[1])<<8 | int(b[2]))
				if l < n {
					n = l
				}
			}
			h.Send(b[:n])
			b = b[n:]
			finishNew()
		}
	}
	shape := cs.Family
	switch cs.Family {
	case "cut":
		all := append(append([]byte{}, peer.Preface...), serialize(frames)...)
		h.Send(all[:min(cs.Cut, len(peer.Preface))])
		if cs.Cut > len(peer.Preface) {
			feed(all[len(peer.Preface):cs.Cut])
		}
		// where the cut falls
		off := cs.Cut - len(peer.Preface)
		shape = "cut-in-preface"
		if off >= 0 {
			shape = "cut-at-frame-boundary"
			pos := 0
			for _, f := range frames {
				l := 9 + len(f.Payload)
				if off > pos && off < pos+l {
					where := "payload"
					if off < pos+9 {
						where = "header"
					}
					shape = "cut-inside-" + peer.TypeName(f.Type) + "-" + where
				}
				pos += l
			}
		}
	case "mutate":
		h.Send(peer.Preface)
		var b []byte
		if len(cs.Mut) == 1 {
			b = c17Mutate(frames, cs.Mut[0])
		} else {
			// two mutations: apply the second to the frames changed by the first (frame-level ones only)
			b = c17Mutate(frames, cs.Mut[0])
			fs, rest := peer.Parse(b)
			if len(rest) == 0 {
				b = c17Mutate(fs, cs.Mut[1])
			}
		}
		feed(b)
		k := strings.Fields(cs.Mut[0])
		shape = "mutate-" + k[0]
	case "soup":
		h.Send(peer.Preface)
		h.SendFrames(peer.Settings())
		for _, i := range cs.Soup {
			if h.Returned {
				break
			}
			h.SendFrames(c17Soup[i])
			finishNew()
		}
	case "grid":
		h.Send(peer.Preface)
		h.SendFrames(peer.Settings())
		h.SendFrames(peer.Headers(1, reqBlock(1, "POST"), peer.HeadersOpt{EndHeaders: true, Pad: -1}))
		if !h.Returned {
			h.SendFrames(cs.Grid.frame())
			finishNew()
		}
		if !h.Returned {
			// the connection is still there: it has to carry a request
			h.SendFrames(peer.Headers(5, reqBlock(5, "GET"), peer.HeadersOpt{EndStream: true, EndHeaders: true, Pad: -1}))
			finishNew()
		}
		shape = "grid-" + peer.TypeName(cs.Grid.Type)
	case "flood":
		// a peer that has stopped reading keeps sending frames each of which is owed an answer (more of them than any
		// of the server's queues holds), then goes away
		h.Send(peer.Preface)
		h.SendFrames(peer.Settings())
		if strings.Contains(cs.Flood, "error+") {
			// a connection error (raised on the read loop: PING of 7 octets; or on the stream loop: RST_STREAM on an
			// idle id), and right behind it in the same segment more frames than the hand-off channels hold
			b := peer.Frame{Type: peer.TPing, Payload: make([]byte, 7)}.Bytes()
			if strings.HasPrefix(cs.Flood, "stream-loop-") {
				b = peer.RstStream(99, 8).Bytes()
			}
			for i := 0; i < cs.K; i++ {
				switch strings.TrimPrefix(cs.Flood, "stream-loop-") {
				case "error+window-updates":
					b = peer.WindowUpdate(0, 1).Append(b)
				case "error+settings":
					b = peer.Settings(peer.Setting{ID: peer.SInitialWindowSize, Val: uint32(1000 + i)}).Append(b)
				case "error+pings":
					b = peer.Ping(false, [8]byte{byte(i)}).Append(b)
				case "error+requests":
					id := uint32(2*i + 1)
					b = peer.Headers(id, reqBlock(id, "GET"), peer.HeadersOpt{EndStream: true, EndHeaders: true, Pad: -1}).Append(b)
				}
			}
			if cs.Late {
				h.C.TakeAll()
				h.C.SetOutCapacity(1)
			}
			h.Send(b)
			shape = "flood-" + cs.Flood
			break
		}
		if cs.Flood == "big-response-peer-stops-reading" {
			// the peer has opened both windows as far as they go, asks for an 8 MB response (more DATA frames than
			// any queue holds), stops reading, sends K more frames of its own and goes away: the write fails
			// with the write queue full and the stream loop still holding hundreds of frames
			h.SendFrames(peer.Settings(peer.Setting{ID: peer.SInitialWindowSize, Val: 1<<31 - 1}))
			h.SendFrames(peer.WindowUpdate(0, 1<<31-1-65535))
			h.SendFrames(peer.Headers(1, reqBlock(1, "GET"), peer.HeadersOpt{EndStream: true, EndHeaders: true, Pad: -1}))
			h.C.TakeAll()
			h.C.SetOutCapacity(1)
			for _, c := range h.Calls {
				if !c.Returned {
					h.Finish(c.Idx, harness.Resp{Status: 200, Body: make([]byte, 8<<20)})
				}
			}
			for i := 0; i < cs.K && !h.Returned; i++ {
				h.SendFrames(peer.Priority(uint32(2*i+3), 0, false, 1))
			}
			shape = "flood-" + cs.Flood
			break
		}
		if strings.HasPrefix(cs.Flood, "running-handlers") {
			// K requests whose handlers are all still running when the peer disappears (reading to the end, or
			// having stopped reading); they return afterwards, more of them than any hand-back queue holds
			if cs.Flood == "running-handlers-peer-not-reading" {
				h.C.TakeAll()
				h.C.SetOutCapacity(1)
			}
			for i := 0; i < cs.K && !h.Returned; i++ {
				id := uint32(2*i + 1)
				h.SendFrames(peer.Headers(id, reqBlock(id, "GET"), peer.HeadersOpt{EndStream: true, EndHeaders: true, Pad: -1}))
			}
			if !cs.Late {
				// half of them are given up by the peer first
				for i := 0; i < cs.K/2 && !h.Returned; i++ {
					h.SendFrames(peer.RstStream(uint32(2*i+1), 8))
				}
			}
			shape = "flood-" + cs.Flood
			break
		}
		h.C.TakeAll()
		h.C.SetOutCapacity(1)
		for i := 0; i < cs.K && !h.Returned; i++ {
			switch cs.Flood {
			case "ping":
				h.SendFrames(peer.Ping(false, [8]byte{byte(i)}))
			case "settings":
				h.SendFrames(peer.Settings(peer.Setting{ID: peer.SInitialWindowSize, Val: uint32(1000 + i)}))
			case "requests":
				id := uint32(2*i + 1)
				h.SendFrames(peer.Headers(id, reqBlock(id, "GET"), peer.HeadersOpt{EndStream: true, EndHeaders: true, Pad: -1}))
				finishNew()
			case "rst-on-idle", "unknown-stream-data":
				h.SendFrames(peer.Ping(false, [8]byte{byte(i)}))
			}
		}
		shape = "flood-" + cs.Flood + "-peer-not-reading"
	case "writefail":
		h.C.WriteFailAt = cs.K
		h.Send(peer.Preface)
		feed(serialize(frames))
		shape = "write-fails"
	case "stopreading":
		h.Send(peer.Preface)
		h.C.TakeAll()
		h.C.SetOutCapacity(cs.K)
		feed(serialize(frames))
		shape = "peer-stops-reading"
	}
	h.PeerClose()
	for _, c := range h.Calls {
		if !c.Returned {
			h.Finish(c.Idx, harness.Resp{Status: 200, Body: []byte("late-response")})
		}
	}
	h.Drain(10)
	if p := h.Panicked(); len(p) > 0 {
		return mk("server-panic", shape, strings.Join(p, "; ")), h
	}
	if ev := h.PoolEvents(); len(ev) > 0 {
		return mk("pool-misuse", shape, strings.Join(ev, "; ")), h
	}
	if !h.Returned {
		if os.Getenv("C17_DEBUG") != "" {
			buf := make([]byte, 1<<20)
			fmt.Println(string(buf[:runtime.Stack(buf, true)]))
		}
		return mk("serveconn-does-not-return", shape, "the peer is gone, every handler has returned, every armed timer has fired: ServeConn has not returned"), h
	}
	if live := h.S.LiveNames(); len(live) > 0 {
		return mk("goroutine-left-behind", shape+" "+live[0], fmt.Sprintf("ServeConn returned but %v still alive", live)), h
	}
	return nil, h
}

func clipLog(l []string) []string {
	var out []string
	for _, s := range l {
		if i := strings.IndexByte(s, '\n'); i >= 0 {
			s = s[:i]
		}
		if len(s) > 120 {
			s = s[:120]
		}
		out = append(out, s)
	}
	if len(out) > 6 {
		out = out[:6]
	}
	return out
}

func runC17(c *fw.Ctx) {
	runSpxFamily(c, "C17")
	runSegmentation(c, map[string]bool{"c17": true, "c10": true, "c09": true}, "C17")
	thorough := c.Tier == "thorough"
	var item int64
	sampled := 0
	do := func(cs c17Case) {
		if item++; !c.Mine(item) {
			return
		}
		if c.Expired("C17") {
			return
		}
		v, h := c17Exec(cs)
		js, _ := json.Marshal(cs)
		c.Eval(nt(true, js))
		c.AddTransitions(int64(h.Events))
		c.AddTraces(1)
		c.State(fw.Hash(h.Digest()))
		if v != nil {
			c.Violate(*v)
			c.Outcome(v.Rule)
		} else {
			c.Outcome("survives:" + cs.Family)
		}
		if sampled < 3 && cs.Family == "mutate" {
			sampled++
			c.Sample(map[string]any{"case": cs, "events": len(h.EventLog)})
		}
		h.Close()
	}
	frames := c17Frames()
	total := len(peer.Preface) + len(serialize(frames))
	c.Bound["recorded_stream_bytes"] = total
	for cut := 0; cut <= total; cut++ {
		for _, late := range []bool{false, true} {
			do(c17Case{Family: "cut", Cut: cut, Late: late})
		}
	}
	c.Family("cut")
	var muts []string
	for i := range frames {
		muts = append(muts, fmt.Sprintf("delete %d 0", i), fmt.Sprintf("dup %d 0", i), fmt.Sprintf("swap %d 0", i))
		for bit := 0; bit < 8; bit++ {
			muts = append(muts, fmt.Sprintf("flag %d %d", i, bit))
		}
		for t := 0; t <= 10; t++ {
			if uint8(t) != frames[i].Type {
				muts = append(muts, fmt.Sprintf("type %d %d", i, t))
			}
		}
		for s := 0; s < 4; s++ {
			muts = append(muts, fmt.Sprintf("stream %d %d", i, s))
		}
		muts = append(muts, fmt.Sprintf("len %d 1", i), fmt.Sprintf("len %d -1", i))
	}
	c.Bound["single_mutations"] = len(muts)
	for _, m := range muts {
		for _, late := range []bool{false, true} {
			do(c17Case{Family: "mutate", Mut: []string{m}, Late: late})
		}
	}
	if thorough {
		for i, m1 := range muts {
			if strings.HasPrefix(m1, "len") {
				continue
			}
			for j, m2 := range muts {
				if j <= i || (i*31+j)%7 != 0 { // a fixed 1/7 slice of the pairs
					continue
				}
				do(c17Case{Family: "mutate", Mut: []string{m1, m2}, Late: (i+j)%2 == 0})
			}
		}
		c.Bound["mutation_pairs"] = "every 7th pair (deterministic slice)"
	}
	c.Family("mutate")
	depth := 3
	n := len(c17Soup)
	c.Bound["soup_alphabet"] = n
	c.Bound["soup_depth"] = depth
	var rec func(cur []int)
	rec = func(cur []int) {
		if len(cur) > 0 {
			do(c17Case{Family: "soup", Soup: append([]int{}, cur...), Late: len(cur)%2 == 0})
		}
		if len(cur) == depth {
			return
		}
		for i := 0; i < n; i++ {
			rec(append(cur, i))
		}
	}
	rec(nil)
	if thorough {
		// depth 4 over the frames that keep a connection alive
		alive := []int{0, 1, 2, 6, 8, 9, 12, 14, 17, 19, 22}
		var rec4 func(cur []int)
		rec4 = func(cur []int) {
			if len(cur) == 4 {
				do(c17Case{Family: "soup", Soup: append([]int{}, cur...), Late: true})
				return
			}
			for _, i := range alive {
				rec4(append(cur, i))
			}
		}
		rec4(nil)
	}
	c.Family("soup")
	// structure grid: every type x defined-flag subset x length 0..12 x first octet x stream role x filler
	ng := 0
	for t := 0; t <= 10; t++ {
		for _, fl := range []uint8{0, 0x1, 0x4, 0x5, 0x8, 0x9, 0xc, 0xd, 0x20, 0x21, 0x24, 0x25, 0x28, 0x29, 0x2c, 0x2d} {
			for l := 0; l <= 12; l++ {
				firsts := []int{0}
				if l > 0 {
					firsts = []int{0, 1, l - 1, l, 0x80, 255}
				}
				seen := map[int]bool{}
				for _, f := range firsts {
					if seen[f] {
						continue
					}
					seen[f] = true
					for _, st := range []int{0, 1, 3} {
						for _, fill := range []uint8{0, 0x82} {
							if !thorough && fill == 0 && t != 1 && t != 5 && t != 9 {
								continue // quick: the zero filler only where a header block is decoded
							}
							ng++
							do(c17Case{Family: "grid", Late: ng%2 == 0, Grid: &c17Grid{Type: uint8(t), Flags: fl, Len: l, First: f, Stream: st, Fill: fill}})
						}
					}
				}
			}
		}
	}
	c.Bound["grid_frames"] = ng
	c.Family("grid")
	for _, fl := range []string{"big-response-peer-stops-reading", "running-handlers", "running-handlers-peer-not-reading", "ping", "settings", "requests", "error+window-updates", "error+settings", "error+pings", "error+requests", "stream-loop-error+window-updates", "stream-loop-error+settings", "stream-loop-error+pings", "stream-loop-error+requests"} {
		for _, k := range []int{1, 10, 127, 128, 129, 140, 300} {
			for _, late := range []bool{false, true} {
				do(c17Case{Family: "flood", Flood: fl, K: k, Late: late})
			}
		}
	}
	c.Family("flood")
	for k := 1; k <= 14; k++ {
		for _, late := range []bool{false, true} {
			do(c17Case{Family: "writefail", K: k, Late: late})
		}
	}
	for _, k := range []int{1, 50, 200} {
		for _, late := range []bool{false, true} {
			do(c17Case{Family: "stopreading", K: k, Late: late})
		}
	}
	c.Family("write-faults")
}

func replayC17(raw json.RawMessage) (string, bool) {
	var segFam struct {
		Family string `json:"family"`
	}
	json.Unmarshal(raw, &segFam)
	if segFam.Family == "segmentation" {
		return replaySegmentation(raw)
	}
	var r struct {
		Case c17Case `json:"case"`
	}
	if err := json.Unmarshal(raw, &r); err != nil {
		return err.Error(), false
	}
	v, h := c17Exec(r.Case)
	defer h.Close()
	if v != nil {
		return v.Rule + " [" + v.Shape + "]: " + v.Detail, true
	}
	return "server survived: " + fmt.Sprint(len(h.EventLog)) + " events", false
}
