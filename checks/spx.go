package checks

import (
	"encoding/json"
	"fmt"

	"verif/fw"
	"verif/vsched"
)

// spxOutcome is what one explored schedule produced.
type spxOutcome struct {
	Points []vsched.Point
	Steps  int
	Obs    string
	Viol   []fw.Violation
}

// spxSearch is the deviation-bounded depth-first search by re-execution: exec
// runs the scenario following prefix (then the default choice at every later
// decision point) and reports the decision points it met; every alternative at
// every point beyond the prefix is explored while the number of deviations
// stays within bound. Level-1 subtrees are the unit of sharding; the root is
// executed by every shard and accounted by shard 0.
//
// level >= 0 restricts accounting and oracles to the executions with exactly
// that many deviations (the shallower ones were judged by an earlier call with
// a smaller bound: iterative deepening, so that a time budget cuts the deepest
// level first and never a whole harness).
func spxSearch(c *fw.Ctx, what, name string, bound, level int, item *int64, exec func(prefix []int) spxOutcome) (capped bool, schedules, maxPts int) {
	var rec func(prefix []int, devs int, owned bool)
	rec = func(prefix []int, devs int, owned bool) {
		if capped {
			return
		}
		if c.Expired(what) {
			capped = true
			return
		}
		r := exec(prefix)
		judge := level < 0 || devs == level || (level == 1 && devs == 0)
		if judge && (owned || len(prefix) == 0 && c.Shard == 0) {
			schedules++
			if len(r.Points) > maxPts {
				maxPts = len(r.Points)
			}
			key, _ := json.Marshal(prefix)
			c.Eval(nt(len(r.Points) > 0, append([]byte(name), key...)))
			c.AddTraces(1)
			c.AddTransitions(int64(r.Steps))
			c.State(fw.Hash(name, r.Obs))
			c.Outcome(name + ":" + fmt.Sprint(fw.Hash(r.Obs)%1000))
		}
		if judge {
			for _, v := range r.Viol {
				c.Violate(v)
			}
		}
		if devs >= bound {
			return
		}
		for i := len(prefix); i < len(r.Points); i++ {
			for alt := 1; alt < r.Points[i].N; alt++ {
				own := owned
				if len(prefix) == 0 {
					*item++
					own = c.Mine(*item)
					if !own {
						continue
					}
				}
				np := make([]int, i+1)
				for j := 0; j < i; j++ {
					np[j] = r.Points[j].Chosen
				}
				np[i] = alt
				rec(np, devs+1, own)
				if capped {
					return
				}
			}
		}
	}
	rec(nil, 0, false)
	return capped, schedules, maxPts
}
