package checks

import (
	"encoding/json"
	"fmt"
	"strings"

	"github.com/dgrr/http2"

	"verif/fw"
	"verif/harness"
	"verif/peer"
	"verif/ref"
)

// C11 — the client honours GOAWAY; only a never-processed request is retryable.

func init() {
	fw.Register(&fw.Check{
		ID: "C11", Level: "model_checking",
		Rule:   "ELX on the real Client against scripted servers: n in {1,2,3} requests in flight (each in state HEADERS-sent / response HEADERS received / partial body), GOAWAY(last-stream-id in {0, each in-flight id, above all}, code in {NO_ERROR, PROTOCOL_ERROR}) at every such position, followed by every ordering of {complete the response of a promised stream, RST_STREAM(REFUSED_STREAM) on a stream, a new request by a new caller, server closes the connection, timer}. Oracle per request tag: its HEADERS reach a server at most once unless every earlier copy was disclaimed (id above last-stream-id, or REFUSED_STREAM); retry=true or an internal re-send only in that case; no new stream on a connection after its GOAWAY; requests above last-stream-id are resolved with an error (never success) at the quiescent state after the GOAWAY; requests at or below it that the script answers complete with exactly that answer. Non-trivial: every scenario; distinct by scenario.",
		Assume: []string{"'promptly' = at the quiescent state reached after the GOAWAY was delivered, without any timer firing", "canonical internal schedule between events"},
		Run:    runC11, Replay: replayC11, Policies: 1, QuickS: 120, ThoroughS: 600,
	})
}

type c11Case struct {
	N        int      `json:"n"`        // requests in flight
	Progress []int    `json:"progress"` // per request: 0 headers sent, 1 response headers received, 2 partial body
	Last     int      `json:"last"`     // last-stream-id index: -1 => 0, i => id of request i, N => above all
	Code     uint32   `json:"code"`
	After    []string `json:"after"` // events after the GOAWAY
	// Graceful: the GOAWAY is preceded by GOAWAY(2^31-1, NO_ERROR), the announced shutdown of RFC 7540 6.8
	Graceful bool `json:"graceful_first,omitempty"`
}

func c11Exec(cs c11Case) (*fw.Violation, *harness.Client) {
	h := harness.NewClient(harness.ClientOpts{})
	mk := func(rule, shape, detail string) *fw.Violation {
		return &fw.Violation{Rule: rule, Shape: shape, Detail: detail + "\n    events: " + strings.Join(h.EventLog, " ; ") + fmt.Sprintf("\n    live: %v", h.Live()), Replay: map[string]any{"family": "c11", "case": cs}}
	}
	var calls []*harness.CCall
	for i := 0; i < cs.N; i++ {
		calls = append(calls, h.Go(harness.ReqSpec{Tag: fmt.Sprint("r", i), Method: "GET", Path: fmt.Sprint("/r", i), Headers: [][2]string{{"X-Tag", fmt.Sprint("r", i)}}}))
	}
	if len(h.Conns) != 1 || len(h.Conns[0].Order) != cs.N {
		return mk("harness", "setup", "requests not all sent on one connection"), h
	}
	srv := h.Conns[0]
	// ids as the client chose them (any fresh odd increasing id is legal)
	sid := func(i int) uint32 { return srv.Order[i] }
	respFields := func(i int) []ref.Field {
		return []ref.Field{{Name: ":status", Value: "200"}, {Name: "x-tag", Value: fmt.Sprint("r", i)}}
	}
	body := func(i int) string { return fmt.Sprintf("body-of-r%d", i) }
	sentHdr := make([]bool, cs.N)
	sentPart := make([]bool, cs.N)
	for i, p := range cs.Progress {
		id := sid(i)
		if p >= 1 {
			h.Send(0, srv.RespFrames(id, respFields(i), nil, nil, [][]byte{[]byte(body(i))}, -1)[0])
			sentHdr[i] = true
		}
		if p >= 2 {
			h.Send(0, peer.Data(id, []byte(body(i))[:4], false, -1))
			sentPart[i] = true
		}
	}
	last := uint32(0)
	switch {
	case cs.Last >= cs.N:
		last = sid(cs.N-1) + 2
	case cs.Last >= 0:
		last = sid(cs.Last)
	}
	if cs.Graceful {
		h.Send(0, peer.GoAway(1<<31-1, 0, "shutting down"))
		for i, c := range calls {
			if c.Done {
				return mk("request-ended-by-announcement", "graceful", fmt.Sprintf("GOAWAY(2^31-1) disclaims nothing, yet request r%d ended: err=%v", i, c.Err)), h
			}
		}
	}
	h.Send(0, peer.GoAway(last, cs.Code, "bye"))
	shape := fmt.Sprintf("n=%d last=%s code=%s", cs.N, map[bool]string{true: "0", false: map[bool]string{true: "above-all", false: "in-flight-id"}[cs.Last >= cs.N]}[cs.Last < 0], peer.CodeName(cs.Code))
	disclaimed := func(i int) bool { return sid(i) > last }
	// (4) requests above last-stream-id are resolved now, with an error
	for i, c := range calls {
		if !disclaimed(i) {
			continue
		}
		resent := false
		for _, sc := range h.Conns[1:] {
			for _, id := range sc.Order {
				for _, kv := range sc.Streams[id].Fields {
					resent = resent || (kv[0] == "x-tag" && kv[1] == fmt.Sprint("r", i))
				}
			}
		}
		if resent {
			continue // disclaimed, so the client was free to send it again on a new connection
		}
		if !c.Done {
			return mk("disclaimed-request-left-waiting", shape+fmt.Sprintf(" progress=%d", cs.Progress[i]), fmt.Sprintf("request r%d on stream %d is above last-stream-id %d: after the GOAWAY was processed its caller is still waiting", i, sid(i), last)), h
		}
		if c.Err == nil {
			return mk("disclaimed-request-succeeded", shape, fmt.Sprintf("request r%d on stream %d (above last-stream-id %d) was reported successful", i, sid(i), last)), h
		}
	}
	finished := make([]bool, cs.N)
	refused := make([]bool, cs.N)
	closed := false
	var newCalls []*harness.CCall
	streamsAtGoAway := len(srv.Order)
	for _, ev := range cs.After {
		var a int
		switch {
		case strings.HasPrefix(ev, "complete"):
			fmt.Sscanf(ev, "complete %d", &a)
			if a >= cs.N || closed || finished[a] || refused[a] || disclaimed(a) {
				continue // a server does not answer what it has disclaimed
			}
			id := sid(a)
			var fs []peer.Frame
			if !sentHdr[a] {
				fs = append(fs, srv.RespFrames(id, respFields(a), nil, nil, [][]byte{[]byte(body(a))}, -1)[0])
			}
			rest := []byte(body(a))
			if sentPart[a] {
				rest = rest[4:]
			}
			fs = append(fs, peer.Data(id, rest, true, -1))
			h.Send(0, fs...)
			finished[a] = true
		case strings.HasPrefix(ev, "refuse"):
			fmt.Sscanf(ev, "refuse %d", &a)
			if a >= cs.N || closed || finished[a] || refused[a] || sentHdr[a] {
				continue
			}
			h.Send(0, peer.RstStream(sid(a), 7))
			refused[a] = true
		case ev == "new-request":
			newCalls = append(newCalls, h.Go(harness.ReqSpec{Tag: fmt.Sprint("new", len(newCalls)), Method: "GET", Path: "/new", Headers: [][2]string{{"X-Tag", "new"}}}))
		case ev == "server-closes":
			if !closed {
				h.ServerClose(0)
				closed = true
			}
		}
	}
	// (3) no new stream on the connection after its GOAWAY
	if len(srv.Order) > streamsAtGoAway {
		return mk("stream-opened-after-goaway", shape, fmt.Sprintf("streams %v were opened on the connection after GOAWAY was read", srv.Order[streamsAtGoAway:])), h
	}
	// (1)+(2) a request's HEADERS reach a server at most once unless disclaimed
	count := map[string]int{}
	for _, sc := range h.Conns {
		for _, id := range sc.Order {
			for _, kv := range sc.Streams[id].Fields {
				if kv[0] == "x-tag" {
					count[kv[1]]++
				}
			}
		}
	}
	for i, c := range calls {
		tag := fmt.Sprint("r", i)
		safe := disclaimed(i) || refused[i]
		if count[tag] > 1 && !safe {
			return mk("request-sent-twice", shape, fmt.Sprintf("request %s reached servers %d times although the server never disclaimed it", tag, count[tag])), h
		}
		if c.Done && c.Retry && !safe {
			return mk("retryable-although-possibly-processed", shape+fmt.Sprintf(" progress=%d", cs.Progress[i]), fmt.Sprintf("request %s (stream %d <= last-stream-id %d, not refused) was reported retryable: err=%v", tag, sid(i), last, c.Err)), h
		}
		if c.Done && c.Err != nil && !safe && http2.VerifRetryable(c.Err) {
			return mk("retryable-although-possibly-processed", shape+" classification", fmt.Sprintf("request %s: error %v is classified retryable", tag, c.Err)), h
		}
		// (5) promised and answered => that answer
		if !disclaimed(i) && finished[i] {
			if !c.Done {
				return mk("promised-request-not-completed", shape+fmt.Sprintf(" progress=%d", cs.Progress[i]), fmt.Sprintf("request %s (stream %d <= last-stream-id %d) was answered in full by the server but its caller is still waiting", tag, sid(i), last)), h
			}
			if c.Err != nil || c.Status != 200 || string(c.Body) != body(i) {
				return mk("promised-request-not-completed", shape+fmt.Sprintf(" progress=%d", cs.Progress[i]), fmt.Sprintf("request %s (stream %d <= last-stream-id %d) was answered in full (200, %q) but the caller got status=%d body=%q err=%v", tag, sid(i), last, body(i), c.Status, c.Body, c.Err)), h
			}
		}
		if c.Done && c.Err == nil && !finished[i] {
			return mk("success-without-response", shape, fmt.Sprintf("request %s reported success but the server never completed its response", tag)), h
		}
		if c.Resolved > 1 {
			return mk("resolved-more-than-once", shape, fmt.Sprintf("request %s: RoundTrip returned %d times", tag, c.Resolved)), h
		}
	}
	if len(h.S.Panics) > 0 {
		return mk("process-would-crash", shape, strings.Join(h.S.Panics, "; ")), h
	}
	return nil, h
}

// c11Queued: requests that were handed to the connection before the GOAWAY was
// read but are still in its queue when it is (the write loop is held up by a
// server that has stopped reading for a while).
type c11QCase struct {
	InFlight int    `json:"in_flight"` // requests whose HEADERS are out before the stall
	Queued   int    `json:"queued"`    // requests issued while the write loop is stuck
	Last     uint32 `json:"last_stream_id"`
	Graceful bool   `json:"graceful_first,omitempty"`
}

func c11Queued(cs c11QCase) (*fw.Violation, *harness.Client) {
	h := harness.NewClient(harness.ClientOpts{})
	shape := fmt.Sprintf("queued-behind-stalled-write in-flight=%d queued=%d", cs.InFlight, cs.Queued)
	mk := func(rule, detail string) *fw.Violation {
		return &fw.Violation{Rule: rule, Shape: shape, Detail: detail + "\n    events: " + strings.Join(h.EventLog, " ; ") + fmt.Sprintf("\n    live: %v", h.Live()), Replay: map[string]any{"family": "c11queued", "case": cs}}
	}
	var calls []*harness.CCall
	spec := func(i int) harness.ReqSpec {
		return harness.ReqSpec{Tag: fmt.Sprint("r", i), Method: "GET", Path: fmt.Sprint("/r", i), Headers: [][2]string{{"X-Tag", fmt.Sprint("r", i)}}}
	}
	calls = append(calls, h.Go(spec(0)))
	for i := 1; i < cs.InFlight; i++ {
		calls = append(calls, h.Go(spec(i)))
	}
	if len(h.Conns) != 1 || len(h.Conns[0].Order) != cs.InFlight {
		return mk("harness", "setup failed"), h
	}
	srv := h.Conns[0]
	h.ServerStall(0)
	for i := 0; i < cs.Queued; i++ {
		calls = append(calls, h.Go(spec(cs.InFlight+i)))
	}
	if cs.Graceful {
		h.Send(0, peer.GoAway(1<<31-1, 0, "shutting down"))
	}
	h.Send(0, peer.GoAway(cs.Last, 0, "bye"), peer.Ping(false, [8]byte{7}))
	h.ServerResume(0)
	// the acknowledgement of the PING proves the GOAWAY had been read: nothing may be opened after it
	ackAt := -1
	for i, f := range srv.Out {
		if f.Type == peer.TPing && f.Has(peer.FAck) && len(f.Payload) == 8 && f.Payload[0] == 7 {
			ackAt = i
		}
	}
	if ackAt >= 0 {
		for i, f := range srv.Out {
			if i > ackAt && f.Type == peer.THeaders {
				return mk("stream-opened-after-goaway", fmt.Sprintf("stream %d was opened after the client had read the GOAWAY (PING acknowledgement is frame %d, the HEADERS frame %d)", f.Stream, ackAt, i)), h
			}
		}
	}
	where := map[string][]string{}
	for ci, sc := range h.Conns {
		for _, id := range sc.Order {
			where[hdrVal(sc.Streams[id].Fields, "x-tag")] = append(where[hdrVal(sc.Streams[id].Fields, "x-tag")], fmt.Sprintf("%d/%d", ci, id))
		}
	}
	for i, c := range calls {
		tag := fmt.Sprint("r", i)
		var id0 uint32
		elsewhere := false
		for _, w := range where[tag] {
			var ci int
			var id uint32
			fmt.Sscanf(w, "%d/%d", &ci, &id)
			if ci == 0 {
				id0 = id
			} else {
				elsewhere = true
			}
		}
		disclaimed := id0 == 0 || id0 > cs.Last
		if disclaimed && !elsewhere && !c.Done {
			return mk("disclaimed-request-left-waiting", fmt.Sprintf("request %s (%v; last-stream-id %d) is still waiting after the client has read the GOAWAY", tag, where[tag], cs.Last)), h
		}
		if c.Done && c.Err == nil {
			return mk("success-without-response", fmt.Sprintf("request %s reports success, no server answered anything", tag)), h
		}
		if c.Done && c.Retry && !disclaimed {
			return mk("retryable-although-possibly-processed", fmt.Sprintf("request %s on stream %d <= last-stream-id %d reported retryable: %v", tag, id0, cs.Last, c.Err)), h
		}
		if len(where[tag]) > 1 && !disclaimed {
			return mk("request-sent-twice", fmt.Sprintf("request %s reached servers on %v", tag, where[tag])), h
		}
	}
	if len(h.S.Panics) > 0 {
		return mk("process-would-crash", strings.Join(h.S.Panics, "; ")), h
	}
	return nil, h
}

// c11Fail: the transport fails with requests in flight. Their HEADERS have reached the server, which never
// disclaimed them: whatever ends them, they are not retryable and must not be sent again.
type c11FCase struct {
	InFlight int    `json:"in_flight"` // requests whose HEADERS the server has
	Kind     string `json:"kind"`      // what happens to the connection
	New      int    `json:"new"`       // requests issued when the outbound half is already dead
	Answered bool   `json:"first_partly_answered,omitempty"`
}

func c11Fail(cs c11FCase) (*fw.Violation, *harness.Client) {
	h := harness.NewClient(harness.ClientOpts{})
	shape := fmt.Sprintf("transport-failure %s in-flight=%d new=%d", cs.Kind, cs.InFlight, cs.New)
	mk := func(rule, detail string) *fw.Violation {
		return &fw.Violation{Rule: rule, Shape: shape, Detail: detail + "\n    events: " + strings.Join(h.EventLog, " ; ") + fmt.Sprintf("\n    live: %v", h.Live()), Replay: map[string]any{"family": "c11fail", "case": cs}}
	}
	var calls []*harness.CCall
	spec := func(i int) harness.ReqSpec {
		return harness.ReqSpec{Tag: fmt.Sprint("r", i), Method: "GET", Path: fmt.Sprint("/r", i), Headers: [][2]string{{"X-Tag", fmt.Sprint("r", i)}}}
	}
	for i := 0; i < cs.InFlight; i++ {
		calls = append(calls, h.Go(spec(i)))
	}
	if len(h.Conns) != 1 || len(h.Conns[0].Order) != cs.InFlight {
		return mk("harness", "setup failed"), h
	}
	srv := h.Conns[0]
	if cs.Answered {
		h.Send(0, srv.RespFrames(srv.Order[0], []ref.Field{{Name: ":status", Value: "200"}}, nil, nil, [][]byte{[]byte("part"), []byte("never sent")}, -1)[:2]...)
	}
	switch cs.Kind {
	case "writes-fail":
		srv.C.FailNextWrite()
	case "writes-fail-then-server-closes":
		srv.C.FailNextWrite()
	case "server-closes":
		h.ServerClose(0)
	}
	for i := 0; i < cs.New; i++ {
		calls = append(calls, h.Go(spec(cs.InFlight+i)))
	}
	if cs.Kind == "writes-fail-then-server-closes" {
		h.ServerClose(0)
	}
	for i := 0; i < 12; i++ {
		pending := false
		for _, c := range calls[:cs.InFlight] {
			pending = pending || !c.Done
		}
		if !pending || !h.FireTimer("") {
			break
		}
	}
	where := map[string][]string{}
	for ci, sc := range h.Conns {
		for _, id := range sc.Order {
			where[hdrVal(sc.Streams[id].Fields, "x-tag")] = append(where[hdrVal(sc.Streams[id].Fields, "x-tag")], fmt.Sprintf("%d/%d", ci, id))
		}
	}
	for i, c := range calls[:cs.InFlight] {
		tag := fmt.Sprint("r", i)
		if len(where[tag]) > 1 {
			return mk("request-sent-twice", fmt.Sprintf("request %s, whose HEADERS the first server had and never disclaimed, reached servers on %v", tag, where[tag])), h
		}
		if c.Done && c.Retry {
			return mk("retryable-although-possibly-processed", fmt.Sprintf("request %s (HEADERS received by the server, no GOAWAY, no REFUSED_STREAM) reported retryable: %v", tag, c.Err)), h
		}
		if c.Done && c.Err == nil {
			return mk("success-without-response", fmt.Sprintf("request %s reports success, no server completed a response", tag)), h
		}
		if c.Resolved > 1 {
			return mk("resolved-more-than-once", fmt.Sprintf("request %s: RoundTrip returned %d times", tag, c.Resolved)), h
		}
	}
	if len(h.S.Panics) > 0 {
		return mk("process-would-crash", strings.Join(h.S.Panics, "; ")), h
	}
	return nil, h
}

func runC11(c *fw.Ctx) {
	runSpxFamily(c, "C11")
	{
		var item int64 = 1 << 44
		for inflight := 1; inflight <= 3; inflight++ {
			for _, kind := range []string{"writes-fail", "writes-fail-then-server-closes", "server-closes"} {
				for nw := 0; nw <= 2; nw++ {
					for _, ans := range []bool{false, true} {
						if kind != "server-closes" && nw == 0 {
							continue // nothing is written: the failure is never met
						}
						if item++; !c.Mine(item) {
							continue
						}
						cs := c11FCase{InFlight: inflight, Kind: kind, New: nw, Answered: ans}
						v, h := c11Fail(cs)
						js, _ := json.Marshal(cs)
						c.Eval(nt(true, append([]byte("fail"), js...)))
						c.AddTransitions(int64(h.Events))
						c.AddTraces(1)
						c.State(fw.Hash("fail", h.Digest()))
						if v != nil {
							c.Violate(*v)
							c.Outcome(v.Rule)
						} else {
							c.Outcome("honoured:transport-failure")
						}
						h.Close()
					}
				}
			}
		}
		c.Family("transport-failure-with-requests-in-flight")
	}
	{
		var item int64 = 1 << 45
		for inflight := 1; inflight <= 2; inflight++ {
			for queued := 1; queued <= 3; queued++ {
				for _, last := range []uint32{0, 1, 3, 5, 9} {
					for _, g := range []bool{false, true} {
						if item++; !c.Mine(item) {
							continue
						}
						cs := c11QCase{InFlight: inflight, Queued: queued, Last: last, Graceful: g}
						v, h := c11Queued(cs)
						js, _ := json.Marshal(cs)
						c.Eval(nt(true, append([]byte("queued"), js...)))
						c.AddTransitions(int64(h.Events))
						c.AddTraces(1)
						c.State(fw.Hash("queued", h.Digest()))
						if v != nil {
							c.Violate(*v)
							c.Outcome(v.Rule)
						} else {
							c.Outcome("honoured:queued")
						}
						h.Close()
					}
				}
			}
		}
		c.Family("queued-behind-stalled-write")
	}
	thorough := c.Tier == "thorough"
	var item int64
	sampled := 0
	maxN := 2
	if thorough {
		maxN = 3
	}
	c.Bound["max_in_flight"] = maxN
	for n := 1; n <= maxN; n++ {
		// progress vectors
		var progs [][]int
		var rec func(cur []int)
		rec = func(cur []int) {
			if len(cur) == n {
				progs = append(progs, append([]int{}, cur...))
				return
			}
			for p := 0; p < 3; p++ {
				rec(append(cur, p))
			}
		}
		rec(nil)
		for _, prog := range progs {
			for last := -1; last <= n; last++ {
				for _, code := range []uint32{0, 1} {
					// after-events: every ordering of a small menu
					menu := []string{"new-request", "server-closes"}
					for i := 0; i < n; i++ {
						menu = append(menu, fmt.Sprintf("complete %d", i), fmt.Sprintf("refuse %d", i))
					}
					var seqs [][]string
					seqs = append(seqs, nil)
					depth := 2
					if thorough || n == 1 {
						depth = 3
					}
					var recs func(cur []string, used int)
					recs = func(cur []string, used int) {
						if len(cur) > 0 {
							seqs = append(seqs, append([]string{}, cur...))
						}
						if len(cur) == depth {
							return
						}
						for k, ev := range menu {
							if used>>uint(k)&1 == 1 {
								continue
							}
							recs(append(cur, ev), used|1<<uint(k))
						}
					}
					recs(nil, 0)
					for _, after := range seqs {
						for _, graceful := range []bool{false, true} {
							if item++; !c.Mine(item) {
								continue
							}
							if c.Expired("C11") {
								return
							}
							if !thorough && graceful != (len(after)%2 == 1 || last == n) {
								continue // quick: one of the two variants per case
							}
							cs := c11Case{N: n, Progress: prog, Last: last, Code: code, After: after, Graceful: graceful}
							v, h := c11Exec(cs)
							js, _ := json.Marshal(cs)
							c.Eval(nt(true, js))
							c.AddTransitions(int64(h.Events))
							c.AddTraces(1)
							c.State(fw.Hash(h.Digest()))
							if v != nil {
								c.Violate(*v)
								c.Outcome(v.Rule)
							} else {
								c.Outcome("honoured")
							}
							if sampled < 3 && n == 2 && len(after) == 2 {
								sampled++
								c.Sample(map[string]any{"case": cs, "events": h.EventLog})
							}
							h.Close()
						}
					}
				}
			}
		}
	}
}

func replayC11Queued(raw json.RawMessage) (string, bool) {
	var cs c11QCase
	json.Unmarshal(raw, &cs)
	v, h := c11Queued(cs)
	defer h.Close()
	if v != nil {
		return v.Rule + " [" + v.Shape + "]: " + v.Detail, true
	}
	return "GOAWAY honoured: " + strings.Join(h.EventLog, " ; "), false
}

func replayC11(raw json.RawMessage) (string, bool) {
	var fam struct {
		Family string          `json:"family"`
		Case   json.RawMessage `json:"case"`
	}
	if json.Unmarshal(raw, &fam) == nil && fam.Family == "c11queued" {
		return replayC11Queued(fam.Case)
	}
	if fam.Family == "c11fail" {
		var cs c11FCase
		json.Unmarshal(fam.Case, &cs)
		v, h := c11Fail(cs)
		defer h.Close()
		if v != nil {
			return v.Rule + " [" + v.Shape + "]: " + v.Detail, true
		}
		return "requests in flight neither retried nor called retryable: " + strings.Join(h.EventLog, " ; "), false
	}
	var r struct {
		Case c11Case `json:"case"`
	}
	if err := json.Unmarshal(raw, &r); err != nil {
		return err.Error(), false
	}
	v, h := c11Exec(r.Case)
	defer h.Close()
	if v != nil {
		return v.Rule + " [" + v.Shape + "]: " + v.Detail, true
	}
	return "GOAWAY honoured: " + strings.Join(h.EventLog, " ; "), false
}
