package checks

import (
	"encoding/json"
	"fmt"
	"strings"

	"github.com/dgrr/http2"

	"verif/fw"
	"verif/harness"
	"verif/peer"
	"verif/ref"
)

// C11 — the client honours GOAWAY; only a never-processed request is retryable.

func init() {
	fw.Register(&fw.Check{
		ID: "C11", Level: "model_checking",
		Rule:   "ELX on the real Client against scripted servers: n in {1,2,3} requests in flight (each in state HEADERS-sent / response HEADERS received / partial body), GOAWAY(last-stream-id in {0, each in-flight id, above all}, code in {NO_ERROR, PROTOCOL_ERROR}) at every such position, followed by every ordering of {complete the response of a promised stream, RST_STREAM(REFUSED_STREAM) on a stream, a new request by a new caller, server closes the connection, timer}. Oracle per request tag: its HEADERS reach a server at most once unless every earlier copy was disclaimed (id above last-stream-id, or REFUSED_STREAM); retry=true or an internal re-send only in that case; no new stream on a connection after its GOAWAY; requests above last-stream-id are resolved with an error (never success) at the quiescent state after the GOAWAY; requests at or below it that the script answers complete with exactly that answer. Non-trivial: every scenario; distinct by scenario.",
		Assume: []string{"'promptly' = at the quiescent state reached after the GOAWAY was delivered, without any timer firing", "canonical internal schedule between events"},
		Run:    runC11, Replay: replayC11, QuickS: 60, ThoroughS: 600,
	})
}

type c11Case struct {
	N        int      `json:"n"`        // requests in flight
	Progress []int    `json:"progress"` // per request: 0 headers sent, 1 response headers received, 2 partial body
	Last     int      `json:"last"`     // last-stream-id index: -1 => 0, i => id of request i, N => above all
	Code     uint32   `json:"code"`
	After    []string `json:"after"` // events after the GOAWAY
}

func c11Exec(cs c11Case) (*fw.Violation, *harness.Client) {
	h := harness.NewClient(harness.ClientOpts{})
	mk := func(rule, shape, detail string) *fw.Violation {
		return &fw.Violation{Rule: rule, Shape: shape, Detail: detail + "\n    events: " + strings.Join(h.EventLog, " ; ") + fmt.Sprintf("\n    live: %v", h.Live()), Replay: map[string]any{"family": "c11", "case": cs}}
	}
	var calls []*harness.CCall
	for i := 0; i < cs.N; i++ {
		calls = append(calls, h.Go(harness.ReqSpec{Tag: fmt.Sprint("r", i), Method: "GET", Path: fmt.Sprint("/r", i), Headers: [][2]string{{"X-Tag", fmt.Sprint("r", i)}}}))
	}
	if len(h.Conns) != 1 || len(h.Conns[0].Order) != cs.N {
		return mk("harness", "setup", "requests not all sent on one connection"), h
	}
	srv := h.Conns[0]
	respFields := func(i int) []ref.Field {
		return []ref.Field{{Name: ":status", Value: "200"}, {Name: "x-tag", Value: fmt.Sprint("r", i)}}
	}
	body := func(i int) string { return fmt.Sprintf("body-of-r%d", i) }
	sentHdr := make([]bool, cs.N)
	sentPart := make([]bool, cs.N)
	for i, p := range cs.Progress {
		id := uint32(2*i + 1)
		if p >= 1 {
			h.Send(0, srv.RespFrames(id, respFields(i), nil, nil, [][]byte{[]byte(body(i))}, -1)[0])
			sentHdr[i] = true
		}
		if p >= 2 {
			h.Send(0, peer.Data(id, []byte(body(i))[:4], false, -1))
			sentPart[i] = true
		}
	}
	last := uint32(0)
	switch {
	case cs.Last >= cs.N:
		last = uint32(2*cs.N + 1)
	case cs.Last >= 0:
		last = uint32(2*cs.Last + 1)
	}
	h.Send(0, peer.GoAway(last, cs.Code, "bye"))
	shape := fmt.Sprintf("n=%d last=%s code=%s", cs.N, map[bool]string{true: "0", false: map[bool]string{true: "above-all", false: "in-flight-id"}[cs.Last >= cs.N]}[cs.Last < 0], peer.CodeName(cs.Code))
	disclaimed := func(i int) bool { return uint32(2*i+1) > last }
	// (4) requests above last-stream-id are resolved now, with an error
	for i, c := range calls {
		if !disclaimed(i) {
			continue
		}
		resent := false
		for _, sc := range h.Conns[1:] {
			for _, id := range sc.Order {
				for _, kv := range sc.Streams[id].Fields {
					resent = resent || (kv[0] == "x-tag" && kv[1] == fmt.Sprint("r", i))
				}
			}
		}
		if resent {
			continue // disclaimed, so the client was free to send it again on a new connection
		}
		if !c.Done {
			return mk("disclaimed-request-left-waiting", shape+fmt.Sprintf(" progress=%d", cs.Progress[i]), fmt.Sprintf("request r%d on stream %d is above last-stream-id %d: after the GOAWAY was processed its caller is still waiting", i, 2*i+1, last)), h
		}
		if c.Err == nil {
			return mk("disclaimed-request-succeeded", shape, fmt.Sprintf("request r%d on stream %d (above last-stream-id %d) was reported successful", i, 2*i+1, last)), h
		}
	}
	finished := make([]bool, cs.N)
	refused := make([]bool, cs.N)
	closed := false
	var newCalls []*harness.CCall
	streamsAtGoAway := len(srv.Order)
	for _, ev := range cs.After {
		var a int
		switch {
		case strings.HasPrefix(ev, "complete"):
			fmt.Sscanf(ev, "complete %d", &a)
			if a >= cs.N || closed || finished[a] || refused[a] || disclaimed(a) {
				continue // a server does not answer what it has disclaimed
			}
			id := uint32(2*a + 1)
			var fs []peer.Frame
			if !sentHdr[a] {
				fs = append(fs, srv.RespFrames(id, respFields(a), nil, nil, [][]byte{[]byte(body(a))}, -1)[0])
			}
			rest := []byte(body(a))
			if sentPart[a] {
				rest = rest[4:]
			}
			fs = append(fs, peer.Data(id, rest, true, -1))
			h.Send(0, fs...)
			finished[a] = true
		case strings.HasPrefix(ev, "refuse"):
			fmt.Sscanf(ev, "refuse %d", &a)
			if a >= cs.N || closed || finished[a] || refused[a] || sentHdr[a] {
				continue
			}
			h.Send(0, peer.RstStream(uint32(2*a+1), 7))
			refused[a] = true
		case ev == "new-request":
			newCalls = append(newCalls, h.Go(harness.ReqSpec{Tag: fmt.Sprint("new", len(newCalls)), Method: "GET", Path: "/new", Headers: [][2]string{{"X-Tag", "new"}}}))
		case ev == "server-closes":
			if !closed {
				h.ServerClose(0)
				closed = true
			}
		}
	}
	// (3) no new stream on the connection after its GOAWAY
	if len(srv.Order) > streamsAtGoAway {
		return mk("stream-opened-after-goaway", shape, fmt.Sprintf("streams %v were opened on the connection after GOAWAY was read", srv.Order[streamsAtGoAway:])), h
	}
	// (1)+(2) a request's HEADERS reach a server at most once unless disclaimed
	count := map[string]int{}
	for _, sc := range h.Conns {
		for _, id := range sc.Order {
			for _, kv := range sc.Streams[id].Fields {
				if kv[0] == "x-tag" {
					count[kv[1]]++
				}
			}
		}
	}
	for i, c := range calls {
		tag := fmt.Sprint("r", i)
		safe := disclaimed(i) || refused[i]
		if count[tag] > 1 && !safe {
			return mk("request-sent-twice", shape, fmt.Sprintf("request %s reached servers %d times although the server never disclaimed it", tag, count[tag])), h
		}
		if c.Done && c.Retry && !safe {
			return mk("retryable-although-possibly-processed", shape+fmt.Sprintf(" progress=%d", cs.Progress[i]), fmt.Sprintf("request %s (stream %d <= last-stream-id %d, not refused) was reported retryable: err=%v", tag, 2*i+1, last, c.Err)), h
		}
		if c.Done && c.Err != nil && !safe && http2.VerifRetryable(c.Err) {
			return mk("retryable-although-possibly-processed", shape+" classification", fmt.Sprintf("request %s: error %v is classified retryable", tag, c.Err)), h
		}
		// (5) promised and answered => that answer
		if !disclaimed(i) && finished[i] {
			if !c.Done {
				return mk("promised-request-not-completed", shape+fmt.Sprintf(" progress=%d", cs.Progress[i]), fmt.Sprintf("request %s (stream %d <= last-stream-id %d) was answered in full by the server but its caller is still waiting", tag, 2*i+1, last)), h
			}
			if c.Err != nil || c.Status != 200 || string(c.Body) != body(i) {
				return mk("promised-request-not-completed", shape+fmt.Sprintf(" progress=%d", cs.Progress[i]), fmt.Sprintf("request %s (stream %d <= last-stream-id %d) was answered in full (200, %q) but the caller got status=%d body=%q err=%v", tag, 2*i+1, last, body(i), c.Status, c.Body, c.Err)), h
			}
		}
		if c.Done && c.Err == nil && !finished[i] {
			return mk("success-without-response", shape, fmt.Sprintf("request %s reported success but the server never completed its response", tag)), h
		}
		if c.Resolved > 1 {
			return mk("resolved-more-than-once", shape, fmt.Sprintf("request %s: RoundTrip returned %d times", tag, c.Resolved)), h
		}
	}
	if len(h.S.Panics) > 0 {
		return mk("process-would-crash", shape, strings.Join(h.S.Panics, "; ")), h
	}
	return nil, h
}

func runC11(c *fw.Ctx) {
	runSpxFamily(c, "C11")
	thorough := c.Tier == "thorough"
	var item int64
	sampled := 0
	maxN := 2
	if thorough {
		maxN = 3
	}
	c.Bound["max_in_flight"] = maxN
	for n := 1; n <= maxN; n++ {
		// progress vectors
		var progs [][]int
		var rec func(cur []int)
		rec = func(cur []int) {
			if len(cur) == n {
				progs = append(progs, append([]int{}, cur...))
				return
			}
			for p := 0; p < 3; p++ {
				rec(append(cur, p))
			}
		}
		rec(nil)
		for _, prog := range progs {
			for last := -1; last <= n; last++ {
				for _, code := range []uint32{0, 1} {
					// after-events: every ordering of a small menu
					menu := []string{"new-request", "server-closes"}
					for i := 0; i < n; i++ {
						menu = append(menu, fmt.Sprintf("complete %d", i), fmt.Sprintf("refuse %d", i))
					}
					var seqs [][]string
					seqs = append(seqs, nil)
					depth := 2
					if thorough || n == 1 {
						depth = 3
					}
					var recs func(cur []string, used int)
					recs = func(cur []string, used int) {
						if len(cur) > 0 {
							seqs = append(seqs, append([]string{}, cur...))
						}
						if len(cur) == depth {
							return
						}
						for k, ev := range menu {
							if used>>uint(k)&1 == 1 {
								continue
							}
							recs(append(cur, ev), used|1<<uint(k))
						}
					}
					recs(nil, 0)
					for _, after := range seqs {
						if item++; !c.Mine(item) {
							continue
						}
						if c.Expired("C11") {
							return
						}
						cs := c11Case{N: n, Progress: prog, Last: last, Code: code, After: after}
						v, h := c11Exec(cs)
						js, _ := json.Marshal(cs)
						c.Eval(nt(true, js))
						c.AddTransitions(int64(h.Events))
						c.AddTraces(1)
						c.State(fw.Hash(h.Digest()))
						if v != nil {
							c.Violate(*v)
							c.Outcome(v.Rule)
						} else {
							c.Outcome("honoured")
						}
						if sampled < 3 && n == 2 && len(after) == 2 {
							sampled++
							c.Sample(map[string]any{"case": cs, "events": h.EventLog})
						}
						h.Close()
					}
				}
			}
		}
	}
}

func replayC11(raw json.RawMessage) (string, bool) {
	var r struct {
		Case c11Case `json:"case"`
	}
	if err := json.Unmarshal(raw, &r); err != nil {
		return err.Error(), false
	}
	v, h := c11Exec(r.Case)
	defer h.Close()
	if v != nil {
		return v.Rule + " [" + v.Shape + "]: " + v.Detail, true
	}
	return "GOAWAY honoured: " + strings.Join(h.EventLog, " ; "), false
}
