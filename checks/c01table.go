package checks

import (
	"encoding/json"
	"fmt"
	"strings"

	"verif/fw"
	"verif/harness"
	"verif/peer"
	"verif/ref"
)

// C01, family "table-pressure". A connection has a history: the HPACK tables of both directions fill up and
// start evicting. The peer encodes like an ordinary encoder (a field that is in its table goes out as an index,
// a new one is inserted), request after request, until its table holds exactly Target octets (every value from
// well below to well above the 4096 the server advertised, so that "exactly full", "one octet short" and "evicts
// one / two entries" all occur); every request also carries the OLDEST entry of the peer's table (:authority, then
// the oldest x- fields) so that an entry the server dropped too early, or kept too long, is referenced at once.
// Responses carry fresh fields as well, so the server's encoder table goes through the same history against the
// harness's decoder. Oracle: C01's own (handler saw exactly what was sent, peer received exactly what the
// handler produced, no connection error).

type c01TableCase struct {
	Target int `json:"peer_table_octets_before_probe"`
	Entry  int `json:"entry_octets"`
	Resp   int `json:"response_fields_per_response"`
}

func c01TableRun(cs c01TableCase) (*fw.Violation, *harness.Server) {
	h := harness.NewServer(harness.ServerOpts{MaxConcurrentStreams: 8})
	mk := func(rule, shape, detail string) *fw.Violation {
		ev := h.EventLog
		if len(ev) > 10 {
			ev = append([]string{fmt.Sprintf("…%d events…", len(ev)-10)}, ev[len(ev)-10:]...)
		}
		return &fw.Violation{Rule: rule, Shape: shape, Detail: detail + "\n    events: " + strings.Join(ev, " ; "), Replay: map[string]any{"family": "c01table", "case": cs}}
	}
	indexed := func(int) ref.EncChoice { return ref.EncChoice{Rep: ref.RepIndexed, NameIndex: true} }
	id := uint32(1)
	seq := 0
	respSeq := 0
	oldest := func() []ref.Field {
		// the oldest entries of the peer's table that are regular fields (at most 2)
		var out []ref.Field
		n := uint64(62)
		for {
			if _, ok := h.PeerEnc.T.Lookup(n); !ok {
				break
			}
			n++
		}
		for i := n - 1; i >= 62 && len(out) < 2; i-- {
			f, _ := h.PeerEnc.T.Lookup(i)
			if !strings.HasPrefix(f.Name, ":") {
				out = append(out, f)
			}
		}
		return out
	}
	// one request: the oldest entries again, then `fresh` new fields; handler answers with cs.Resp new fields
	request := func(fresh []ref.Field) *fw.Violation {
		fields := harness.ReqFields("GET", "https", "table.example", "/", [2]string{"x-sid", fmt.Sprint(id)})
		fields = append(fields, oldest()...)
		fields = append(fields, fresh...)
		blk := h.PeerEnc.Block(fields, indexed)
		calls := len(h.Calls)
		h.SendFrames(peer.Headers(id, blk, peer.HeadersOpt{EndStream: true, EndHeaders: true, Pad: -1}))
		shape := fmt.Sprintf("entry=%d", cs.Entry)
		if len(h.GoAways) > 0 || h.C.Closed() {
			return mk("connection-error-on-legal-history", shape, fmt.Sprintf("request %d (stream %d) of a conforming history: %s; the peer's table held %d octets before it", seq, id, h.Reaction(0), cs.Target))
		}
		if len(h.Calls) != calls+1 {
			return mk("request-not-delivered-once", shape, fmt.Sprintf("stream %d: %d handler calls (reaction %s)", id, len(h.Calls)-calls, h.Reaction(0)))
		}
		call := h.Calls[calls]
		if d, cl := harness.CheckRequest(harness.WantReq{Fields: fields}, call.Req); d != "" {
			return mk("request-not-intact", shape+" "+cl, fmt.Sprintf("stream %d: %s (peer table %d octets)", id, d, h.PeerEnc.T.Size()))
		}
		resp := harness.Resp{Status: 200, Body: []byte("ok")}
		for i := 0; i < cs.Resp; i++ {
			respSeq++
			resp.Headers = append(resp.Headers, [2]string{fmt.Sprintf("x-r%03d", respSeq), valOfLen(cs.Entry - 32 - 6)})
		}
		if respSeq > 8 {
			// and one the server sent long ago
			resp.Headers = append(resp.Headers, [2]string{fmt.Sprintf("x-r%03d", respSeq-8), valOfLen(cs.Entry - 32 - 6)})
		}
		h.Finish(call.Idx, resp)
		if len(h.GoAways) > 0 || h.C.Closed() {
			return mk("connection-error-on-legal-history", shape, fmt.Sprintf("after the response on stream %d: %s", id, h.Reaction(0)))
		}
		if d, cl := harness.CheckResponse(h.Streams[id], resp); d != "" {
			return mk("response-not-intact", shape+" "+cl, fmt.Sprintf("stream %d: %s", id, d))
		}
		id += 2
		return nil
	}
	mkField := func(size int) ref.Field {
		seq++
		name := fmt.Sprintf("x-%04d", seq)
		return ref.Field{Name: name, Value: valOfLen(size - 32 - len(name))}
	}
	// fill: whole entries while they fit, then one entry cut (or stretched) to land on the target
	if v := request(nil); v != nil { // inserts :authority and x-sid
		return v, h
	}
	for guard := 0; guard < 400; guard++ {
		// each request inserts its own x-sid entry as well: account for it
		sid := 32 + len("x-sid") + len(fmt.Sprint(id))
		room := cs.Target - h.PeerEnc.T.Size() - sid
		if room < 40 {
			break
		}
		var fresh []ref.Field
		for k := 0; k < 6 && room >= 40; k++ {
			sz := cs.Entry
			if room < 2*cs.Entry {
				sz = room // the last one lands exactly on the target
				if sz > 4000 {
					sz = cs.Entry
				}
			}
			fresh = append(fresh, mkField(sz))
			room -= sz
		}
		if v := request(fresh); v != nil {
			return v, h
		}
	}
	// probes: three more requests, the oldest entries referenced each time
	for k := 0; k < 3; k++ {
		if v := request([]ref.Field{mkField(cs.Entry)}); v != nil {
			return v, h
		}
	}
	if h.PeerEnc.Disagree > 0 {
		return mk("reference-encoders-disagree", "harness", "the reference encoder and the x/net decoder disagree on a generated block"), h
	}
	return nil, h
}

func runC01Table(c *fw.Ctx) {
	lo, hi, step := 4096-70, 4096+70, 1
	entries := []int{64, 47}
	if c.Tier == "thorough" {
		lo, hi = 4096-200, 4096+200
		entries = []int{64, 47, 128, 33 + 8}
	}
	c.Bound["table_pressure_targets"] = fmt.Sprintf("%d..%d", lo, hi)
	n := 0
	for _, e := range entries {
		for t := lo; t <= hi; t += step {
			for _, rf := range []int{0, 3} {
				n++
				if !c.Mine(int64(1)<<47 + int64(n)) {
					continue
				}
				if c.Expired("C01 table pressure") {
					return
				}
				cs := c01TableCase{Target: t, Entry: e, Resp: rf}
				v, h := c01TableRun(cs)
				js, _ := json.Marshal(cs)
				c.Eval(nt(true, append([]byte("table"), js...)))
				c.AddTransitions(int64(h.Events))
				c.AddTraces(1)
				c.State(fw.Hash(h.Digest()))
				if v != nil {
					c.Violate(*v)
					c.Outcome(v.Rule)
				} else {
					c.Outcome("intact")
				}
				h.Close()
			}
		}
	}
	c.Family("table-pressure")
}

func replayC01Table(raw json.RawMessage) (string, bool) {
	var r struct {
		Case c01TableCase `json:"case"`
	}
	if err := json.Unmarshal(raw, &r); err != nil {
		return err.Error(), false
	}
	v, h := c01TableRun(r.Case)
	defer h.Close()
	if v != nil {
		return v.Rule + " [" + v.Shape + "]: " + v.Detail, true
	}
	return "history served intact", false
}

// Family "response-head-at-frame-size": the response header block is grown octet by octet across the peer's
// SETTINGS_MAX_FRAME_SIZE (and twice that), where the server has to start cutting it into HEADERS + CONTINUATION.
type c01HeadCase struct {
	MaxFrame uint32 `json:"peer_max_frame_size"`
	Mult     int    `json:"multiple"`
	Delta    int    `json:"delta"`
	Streamed bool   `json:"streamed_body"`
}

func c01HeadRun(cs c01HeadCase) (*fw.Violation, *harness.Server) {
	so := harness.ServerOpts{MaxConcurrentStreams: 8}
	if cs.MaxFrame != 16384 {
		so.PeerSettings = []peer.Setting{{ID: peer.SMaxFrameSize, Val: cs.MaxFrame}}
	}
	h := harness.NewServer(so)
	mk := func(rule, shape, detail string) *fw.Violation {
		ev := h.EventLog
		if len(ev) > 8 {
			ev = append([]string{fmt.Sprintf("…%d events…", len(ev)-8)}, ev[len(ev)-8:]...)
		}
		return &fw.Violation{Rule: rule, Shape: shape, Detail: detail + "\n    events: " + strings.Join(ev, " ; "), Replay: map[string]any{"family": "c01head", "case": cs}}
	}
	id := uint32(1)
	shape := fmt.Sprintf("head=%dx%d%+d", cs.Mult, cs.MaxFrame, cs.Delta)
	// one exchange with a filler of n octets; returns the size of the header block the peer received
	exchange := func(n int) (int, *fw.Violation) {
		calls := len(h.Calls)
		h.SendFrames(peer.Headers(id, reqBlock(id, "GET"), peer.HeadersOpt{EndStream: true, EndHeaders: true, Pad: -1}))
		if len(h.Calls) != calls+1 {
			return 0, mk("request-not-delivered-once", shape, fmt.Sprintf("stream %d: %d handler calls (%s)", id, len(h.Calls)-calls, h.Reaction(0)))
		}
		resp := harness.Resp{Status: 200, Headers: [][2]string{{"X-Fill", strings.Repeat("X", n)}}, Body: []byte("hello")}
		if cs.Streamed {
			resp.Body, resp.Stream = nil, &harness.BodyStream{Chunks: [][]byte{[]byte("hello")}, Declared: -1}
		}
		h.Finish(calls, resp)
		if len(h.GoAways) > 0 || h.C.Closed() {
			return 0, mk("connection-error-on-legal-history", shape, fmt.Sprintf("after the response on stream %d (X-Fill of %d octets): %s", id, n, h.Reaction(0)))
		}
		so := h.Streams[id]
		if d, cl := harness.CheckResponse(so, resp); d != "" {
			sz := 0
			if so != nil && len(so.BlockFrames) > 0 {
				for _, f := range so.BlockFrames[0] {
					sz += f
				}
			}
			return 0, mk("response-not-intact", shape+" "+cl, fmt.Sprintf("stream %d, X-Fill of %d octets (header block octets received so far: %d): %s", id, n, sz, d))
		}
		sz := 0
		for _, f := range so.BlockFrames[0] {
			if f > int(cs.MaxFrame) {
				return 0, mk("frame-above-max-frame-size", shape, fmt.Sprintf("stream %d: header block frame of %d octets, the peer allows %d", id, f, cs.MaxFrame))
			}
			sz += f
		}
		id += 2
		return sz, nil
	}
	base, v := exchange(300)
	if v != nil {
		return v, h
	}
	target := cs.Mult*int(cs.MaxFrame) + cs.Delta
	n := 300 + target - base
	got, v := exchange(n)
	if v != nil {
		return v, h
	}
	// the length prefix of the value may have grown by an octet: one correction
	if got != target {
		n += target - got
		if got, v = exchange(n); v != nil {
			return v, h
		}
	}
	if got != target {
		return mk("harness", shape, fmt.Sprintf("could not produce a header block of %d octets (got %d)", target, got)), h
	}
	// and the connection is still good for a plain exchange
	if _, v := exchange(3); v != nil {
		return v, h
	}
	return nil, h
}

func runC01Head(c *fw.Ctx) {
	n := 0
	for _, mf := range []uint32{16384, 20000} {
		for mult := 1; mult <= 2; mult++ {
			for d := -3; d <= 3; d++ {
				for _, st := range []bool{false, true} {
					n++
					if !c.Mine(int64(1)<<44 + int64(n)) {
						continue
					}
					if c.Expired("C01 response head sizes") {
						return
					}
					cs := c01HeadCase{MaxFrame: mf, Mult: mult, Delta: d, Streamed: st}
					v, h := c01HeadRun(cs)
					js, _ := json.Marshal(cs)
					c.Eval(nt(true, append([]byte("head"), js...)))
					c.AddTransitions(int64(h.Events))
					c.AddTraces(1)
					c.State(fw.Hash(h.Digest()))
					if v != nil {
						c.Violate(*v)
						c.Outcome(v.Rule)
					} else {
						c.Outcome("intact")
					}
					h.Close()
				}
			}
		}
	}
	c.Family("response-head-at-frame-size")
}

func replayC01Head(raw json.RawMessage) (string, bool) {
	var r struct {
		Case c01HeadCase `json:"case"`
	}
	if err := json.Unmarshal(raw, &r); err != nil {
		return err.Error(), false
	}
	v, h := c01HeadRun(r.Case)
	defer h.Close()
	if v != nil {
		return v.Rule + " [" + v.Shape + "]: " + v.Detail, true
	}
	return "responses intact", false
}
