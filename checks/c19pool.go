package checks

import (
	"bytes"
	"encoding/json"
	"fmt"
	"os"
	"strings"

	"verif/fw"
	"verif/harness"
	"verif/vsched"
)

// Pool transparency (C19): an endpoint that respects the ownership of pooled objects cannot tell whether a
// pool recycles them. Every scenario of this family is deterministic; it is executed twice, once with the
// LIFO pools (the object released last is handed out next) and once with pools that never reuse anything and
// scramble what is released. Whatever the peer, the handlers and the callers can observe must be identical:
// a difference means that somebody looked at an object after releasing it (use after release: the second run
// shows it scrambled) or relied on what a recycled object still contained (the second run starts it empty).

type c19PoolCase struct {
	Kind string          `json:"kind"` // c17 | c12 | c11 | c10 | c09
	Case json.RawMessage `json:"case"`
}

func c19PoolObserve(pc c19PoolCase, fresh bool) (obs string, events int, ok bool) {
	mode := ""
	if fresh {
		mode = "fresh-pools"
	}
	return transparencyObserve(pc, mode)
}

// transparencyObserve runs one deterministic scenario under an environment variation that a correct endpoint
// cannot notice and returns everything observable: "" (as given), "fresh-pools" (no recycling, scramble on
// release), "bytewise" / "read-1" / "read-7" (the same bytes reach the transport one octet per delivery, or whole
// but handed out 1 / 7 octets per Read).
func transparencyObserve(pc c19PoolCase, mode string) (obs string, events int, ok bool) {
	vsched.PoolFresh = mode == "fresh-pools"
	switch mode {
	case "bytewise":
		harness.SegMode = 1
	case "read-1":
		harness.SegMode = 2
	case "read-7":
		harness.SegMode = 3
	}
	defer func() {
		vsched.PoolFresh = false
		harness.SegMode = 0
		if r := recover(); r != nil {
			if mode != "" {
				// the scenario ran as given and cannot even be driven under the variation: that is a difference
				obs, events, ok = fmt.Sprintf("the scenario could not be driven to its end: %v", r), 0, true
				return
			}
			js, _ := json.Marshal(pc)
			panic(fmt.Sprintf("%v\n  while observing %s under %q", r, js, mode))
		}
	}()
	switch pc.Kind {
	case "c17":
		var cs c17Case
		json.Unmarshal(pc.Case, &cs)
		_, h := c17Exec(cs)
		defer h.Close()
		return h.Observation(), h.Events, true
	case "c10":
		var cs c10Case
		json.Unmarshal(pc.Case, &cs)
		_, h := c10Exec(cs)
		defer h.Close()
		return h.Observation(), h.Events, true
	case "c09":
		var cs c09Case
		json.Unmarshal(pc.Case, &cs)
		_, h, _ := c09Exec(cs)
		defer h.Close()
		return h.Observation(), h.Events, true
	case "c12":
		var cs c12Case
		json.Unmarshal(pc.Case, &cs)
		_, h := c12Exec(cs)
		defer h.Close()
		return h.Observation(), h.Events, true
	case "c11":
		var cs c11Case
		json.Unmarshal(pc.Case, &cs)
		_, h := c11Exec(cs)
		defer h.Close()
		return h.Observation(), h.Events, true
	}
	return "", 0, false
}

func firstDiff(a, b string) string {
	la, lb := strings.Split(a, "\n"), strings.Split(b, "\n")
	for i := 0; i < len(la) || i < len(lb); i++ {
		var x, y string
		if i < len(la) {
			x = la[i]
		}
		if i < len(lb) {
			y = lb[i]
		}
		if x != y {
			if len(x) > 300 {
				x = x[:300] + "…"
			}
			if len(y) > 300 {
				y = y[:300] + "…"
			}
			return fmt.Sprintf("recycling pools:   %s\n    no reuse, scrambled on release: %s", x, y)
		}
	}
	return ""
}

// diffShape names what differed without the values (one finding per kind of observable).
func poolDiffShape(d string) string {
	line := strings.TrimSpace(strings.SplitN(d, "\n", 2)[0])
	line = strings.TrimPrefix(line, "recycling pools:")
	f := strings.Fields(line)
	switch {
	case len(f) >= 3 && f[0] == "peer" && f[1] == "received":
		return "peer received " + strings.SplitN(f[2], "[", 2)[0]
	case len(f) >= 2 && f[0] == "server#0" || len(f) >= 1 && strings.HasPrefix(f[0], "server#"):
		return "server received"
	case len(f) >= 1 && strings.HasPrefix(f[0], "handler#"):
		return "what a handler saw"
	case len(f) >= 1 && f[0] == "caller":
		return "what a caller got"
	case len(f) >= 1 && strings.HasPrefix(f[0], "conn#"):
		return "Conn.LastErr"
	case len(f) >= 1 && f[0] == "log:":
		return "server log"
	}
	if len(f) > 0 {
		return f[0]
	}
	return "observation"
}

func c19PoolCases(thorough bool) []c19PoolCase {
	var out []c19PoolCase
	add := func(kind string, cs any) {
		js, _ := json.Marshal(cs)
		out = append(out, c19PoolCase{Kind: kind, Case: js})
	}
	// server: the recorded conversation cut at a grid of offsets, every single mutation, soup pairs
	frames := c17Frames()
	total := len(serialize(frames)) + 24
	step := 7
	if thorough {
		step = 1
	}
	for cut := 0; cut <= total; cut += step {
		add("c17", c17Case{Family: "cut", Cut: cut, Late: cut%2 == 0})
	}
	for i := range frames {
		for _, m := range []string{fmt.Sprintf("delete %d 0", i), fmt.Sprintf("dup %d 0", i), fmt.Sprintf("swap %d 0", i), fmt.Sprintf("flag %d 0", i), fmt.Sprintf("flag %d 2", i), fmt.Sprintf("flag %d 3", i), fmt.Sprintf("flag %d 5", i), fmt.Sprintf("type %d 3", i), fmt.Sprintf("stream %d 1", i), fmt.Sprintf("len %d -1", i)} {
			add("c17", c17Case{Family: "mutate", Mut: []string{m}, Late: i%2 == 0})
		}
	}
	n := len(c17Soup)
	for a := 0; a < n; a++ {
		add("c17", c17Case{Family: "soup", Soup: []int{a}, Late: true})
		for b := 0; b < n; b++ {
			if thorough || (a*7+b)%3 == 0 {
				add("c17", c17Case{Family: "soup", Soup: []int{a, b}, Late: (a+b)%2 == 0})
			}
		}
	}
	for _, off := range c10Offences {
		for _, running := range []bool{false, true} {
			for _, tr := range []string{"none", "request", "rst-running"} {
				add("c10", c10Case{Offence: off.Name, Before: 2, Running: running, Trailing: tr, Peer: "silent", Lead: 1})
			}
		}
	}
	for _, off := range c09Offences {
		for _, split := range []bool{false, true} {
			add("c09", c09Case{Offence: off, Split: split})
		}
	}
	// client: the recorded conversation cut, mutated, hostile servers, write failures, Close; GOAWAY cases
	script := c12Script(harness.NewPeerEncoder())
	ctotal := len(serialize(script))
	for cut := 0; cut <= ctotal; cut += step {
		add("c12", c12Case{Family: "cut", Cut: cut})
		add("c12", c12Case{Family: "cut", Cut: cut, Streamed: true, NoTimeout: true})
	}
	for i := range script {
		for _, m := range []string{fmt.Sprintf("delete %d 0", i), fmt.Sprintf("dup %d 0", i), fmt.Sprintf("flag %d 0", i), fmt.Sprintf("flag %d 2", i), fmt.Sprintf("type %d 7", i), fmt.Sprintf("type %d 3", i), fmt.Sprintf("stream %d 1", i), fmt.Sprintf("len %d 1", i)} {
			add("c12", c12Case{Family: "mutate", Mut: m})
		}
	}
	for _, name := range []string{"rst-one", "rst-refused", "goaway-0", "goaway-1-then-finish", "goaway-error-mid-response", "oversized-frame", "garbage", "push-promise", "silence", "late-response-after-timeout", "window-update-overflow", "settings-invalid", "headers-on-unknown-stream", "data-before-headers", "ping-flood", "early-response-to-blocked-upload", "early-reset-of-blocked-upload"} {
		for _, st := range []bool{false, true} {
			add("c12", c12Case{Family: "hostile", Name: name, Streamed: st})
			add("c12", c12Case{Family: "hostile", Name: name, Streamed: st, NoTimeout: true})
		}
	}
	for k := 1; k <= 16; k += 3 {
		add("c12", c12Case{Family: "writefail", K: k, Streamed: k%2 == 0})
	}
	for k := 0; k <= len(script); k += 2 {
		add("c12", c12Case{Family: "close", K: k})
		add("c12", c12Case{Family: "stalled-timeout", K: k, Streamed: true})
	}
	for nreq := 1; nreq <= 2; nreq++ {
		for last := -1; last <= nreq; last++ {
			for _, code := range []uint32{0, 11} {
				for _, after := range [][]string{nil, {"complete 0"}, {"new-request", "complete 0"}, {"server-closes"}, {"complete 1", "new-request"}} {
					prog := make([]int, nreq)
					for i := range prog {
						prog[i] = (i + len(after)) % 3
					}
					add("c11", c11Case{N: nreq, Progress: prog, Last: last, Code: code, After: after, Graceful: last%2 == 0})
				}
			}
		}
	}
	return out
}

// runSegmentation: family "segmentation" of C17 (server scenarios) and C12 (client scenarios). How a byte stream
// is cut into segments and reads is invisible to the protocol: the same scenario must give the same observations
// when the peer's bytes arrive one octet at a time or are read 1 / 7 octets at a time.
func runSegmentation(c *fw.Ctx, kinds map[string]bool, label string) {
	if vsched.DefaultPolicy != 0 {
		return
	}
	var cases []c19PoolCase
	for _, pc := range c19PoolCases(c.Tier == "thorough") {
		if kinds[pc.Kind] {
			cases = append(cases, pc)
		}
	}
	c.Bound["segmentation_scenarios"] = len(cases)
	for i, pc := range cases {
		if !c.Mine(int64(1)<<49 + int64(i)) {
			continue
		}
		if c.Expired(label + " segmentation") {
			break
		}
		a, ev, ok := transparencyObserve(pc, "")
		if !ok {
			continue
		}
		js, _ := json.Marshal(pc)
		for _, mode := range []string{"bytewise", "read-1", "read-7"} {
			if mode == "bytewise" && (bytes.Contains(pc.Case, []byte(`"lead":`)) || bytes.Contains(pc.Case, []byte(`-same-segment"`))) {
				// these scenarios are about what arrives together with the offending frame: how far the
				// stream loop has got when the read loop meets it (and so the truthful last-stream-id of the
				// GOAWAY) legitimately depends on it; delivering octet by octet is a different scenario
				continue
			}
			b, ev2, _ := transparencyObserve(pc, mode)
			c.Eval(nt(true, append([]byte(mode), js...)))
			c.AddTransitions(int64(ev + ev2))
			c.AddTraces(1)
			if a != b {
				d := firstDiff(a, b)
				d = strings.Replace(d, "recycling pools:  ", "as given:         ", 1)
				d = strings.Replace(d, "no reuse, scrambled on release:", mode+":", 1)
				c.Violate(fw.Violation{Rule: "segmentation-dependent", Shape: pc.Kind + " " + mode + ": " + poolDiffShape(firstDiff(a, b)), Detail: "the same bytes, delivered differently (" + mode + "), give different observations:\n    " + d + "\n    scenario: " + string(js), Replay: map[string]any{"family": "segmentation", "mode": mode, "case": pc}})
				c.Outcome("segmentation-dependent")
			} else {
				c.Outcome("segmentation-independent:" + mode)
			}
		}
	}
	c.Family("segmentation")
}

func replaySegmentation(raw json.RawMessage) (string, bool) {
	var r struct {
		Mode string      `json:"mode"`
		Case c19PoolCase `json:"case"`
	}
	if err := json.Unmarshal(raw, &r); err != nil {
		return err.Error(), false
	}
	a, _, _ := transparencyObserve(r.Case, "")
	b, _, _ := transparencyObserve(r.Case, r.Mode)
	if a != b {
		return "segmentation-dependent (" + r.Mode + "): " + firstDiff(a, b), true
	}
	return "observations identical under " + r.Mode, false
}

func runC19Pool(c *fw.Ctx) {
	cases := c19PoolCases(c.Tier == "thorough")
	c.Bound["pool_transparency_scenarios"] = len(cases)
	sampled := 0
	for i, pc := range cases {
		if !c.Mine(int64(1)<<50 + int64(i)) {
			continue
		}
		if c.Expired("C19 pool transparency") {
			break
		}
		a, ev, ok := c19PoolObserve(pc, false)
		if !ok {
			continue
		}
		b, ev2, _ := c19PoolObserve(pc, true)
		js, _ := json.Marshal(pc)
		c.Eval(nt(true, js))
		c.AddTransitions(int64(ev + ev2))
		c.AddTraces(2)
		c.State(fw.Hash("pool", a))
		if a != b {
			d := firstDiff(a, b)
			c.Violate(fw.Violation{Rule: "pool-transparency", Shape: pc.Kind + ": " + poolDiffShape(d), Detail: "the same deterministic scenario gives different observations when pools stop recycling objects and scramble what is released:\n    " + d + "\n    scenario: " + string(js), Replay: map[string]any{"family": "pool", "case": pc}})
			c.Outcome("pool-transparency")
		} else {
			c.Outcome("pool-transparent:" + pc.Kind)
		}
		if sampled < 2 {
			sampled++
			c.Sample(map[string]any{"pool_transparency_case": pc, "observation_lines": strings.Count(a, "\n")})
		}
	}
	// this family is driven event by event by the harness (whose own reads at quiescence the detector cannot
	// order); races are judged on the SPX schedules below, not here
	fw.RaceDelta()
	c.Family("pool-transparency")
}

func replayC19Pool(raw json.RawMessage) (string, bool) {
	var r struct {
		Case c19PoolCase `json:"case"`
	}
	if err := json.Unmarshal(raw, &r); err != nil {
		return err.Error(), false
	}
	a, _, _ := c19PoolObserve(r.Case, false)
	b, _, _ := c19PoolObserve(r.Case, true)
	if a != b {
		if os.Getenv("POOL_DEBUG") != "" {
			return "pool-transparency: " + firstDiff(a, b) + "\n--- recycling\n" + a + "\n--- fresh\n" + b, true
		}
		return "pool-transparency: " + firstDiff(a, b), true
	}
	return "observations identical with and without recycling", false
}
