package checks

import (
	"encoding/json"
	"fmt"
	"strings"

	"verif/fw"
	"verif/harness"
	"verif/peer"
	"verif/ref"
)

// C09 — a stream-level error never disturbs other streams or the compression
// context.

func init() {
	fw.Register(&fw.Check{
		ID: "C09", Level: "model_checking",
		Rule:   "ELX: catalogue of stream-scoped offences (malformed request with the offending field first / in the middle / last of a block that inserts dynamic-table entries, split over CONTINUATION or not; oversized body; content-length mismatch; refused stream over the concurrency limit with an inserting block; peer RST_STREAM before the body / mid-body / while the handler runs / while the response is flow-blocked; handler panic; stream WINDOW_UPDATE(0) and overflow; DATA, trailers(+CONTINUATION) and WINDOW_UPDATE in flight after the server's own reset) placed among well-formed streams V1 (opened before) and V2 (opened after, its header block referencing the entries the offending block inserted): all interleavings of the offending stream's frames with V1's frames, V2 afterwards, all handler completion orders. Oracle: V1 and V2 dispatched once, intact, answered intact; no GOAWAY, connection stays open. Non-trivial: every scenario (>= 2 streams); distinct by (offence, interleaving, completion order).",
		Assume: []string{"the peer keeps sending frames it had queued before the server's RST_STREAM arrives (frames in flight)", "canonical internal schedule between events"},
		Run:    runC09, Replay: replayC09, Policies: 1, QuickS: 120, ThoroughS: 600,
	})
}

type c09Case struct {
	Offence   string `json:"offence"`
	Split     bool   `json:"split"`      // offending header block continued in a CONTINUATION frame
	FinishMid bool   `json:"finish_mid"` // a victim's handler returns between the offending HEADERS and its CONTINUATION
	Order     []int  `json:"order"`      // interleaving of tracks 0 (V1) and 1 (X)
	Finish    []int  `json:"finish"`
	// Burst: the interleaved frames of V1 and the offending stream arrive in one segment
	Burst bool `json:"burst,omitempty"`
	// Early: handlers attach a response body stream as soon as they start (it is theirs until they return)
	Early bool `json:"early_body_stream,omitempty"`
}

var c09Offences = []string{
	"malformed-first", "malformed-middle", "malformed-last", "connection-specific", "bad-pseudo", "pseudo-after-regular", "te-gzip", "content-length-nan",
	"oversized-body", "content-length-mismatch", "refused",
	"peer-rst-before-body", "peer-rst-mid-body", "peer-rst-handler-running", "peer-rst-flow-blocked",
	"handler-panic", "response-body-fails-at-first-read", "response-body-fails-midway", "window-update-0", "window-update-overflow",
	"inflight-data", "inflight-trailers", "inflight-trailers-continuation", "inflight-window-update",
	"refused-after-malformed-with-size-update", "inflight-trailers-with-size-update",
	"window-update-0-handler-running", "window-update-overflow-handler-running",
}

// ins are the fields whose insertion into the dynamic table the victims rely on.
func c09Ins(tag string) []ref.Field {
	return []ref.Field{{Name: "x-ins-a", Value: "a-" + tag}, {Name: "x-ins-b", Value: "b-" + tag}}
}

type c09Run struct {
	h      *harness.Server
	wants  map[uint32]harness.WantReq
	xid    uint32
	nextID uint32
}

func (x *c09Run) newID() uint32 {
	id := x.nextID
	x.nextID += 2
	return id
}

// victim builds the track of a well-formed stream. Its block uses the
// incremental-indexing default, so entries inserted earlier are referenced by
// index and its own fields are inserted for later streams.
func (x *c09Run) victim(tag string, refs []ref.Field, withBody bool) []tframe {
	var id uint32
	var tr []tframe
	body := []byte("body-" + tag)
	tr = append(tr, tframe{f: func() []peer.Frame {
		id = x.newID()
		fields := harness.ReqFields("POST", "https", "h", "/"+tag, [2]string{"x-sid", fmt.Sprint(id)})
		fields = append(fields, refs...)
		fields = append(fields, ref.Field{Name: "x-own-" + tag, Value: "o"})
		w := harness.WantReq{ID: id, Fields: fields}
		if withBody {
			w.Body = body
		}
		x.wants[id] = w
		blk := x.h.PeerEnc.Block(fields, nil)
		return []peer.Frame{peer.Headers(id, blk, peer.HeadersOpt{EndStream: !withBody, EndHeaders: true, Pad: -1})}
	}})
	if withBody {
		tr = append(tr, tframe{f: func() []peer.Frame { return []peer.Frame{peer.Data(id, body[:3], false, -1)} }})
		tr = append(tr, tframe{f: func() []peer.Frame { return []peer.Frame{peer.Data(id, body[3:], true, -1)} }})
	}
	return tr
}

// offender builds the track of the offending stream X.
func (x *c09Run) offender(cs c09Case) (tr []tframe, after func()) {
	h := x.h
	var id uint32
	ins := c09Ins("x")
	base := func() []ref.Field {
		return harness.ReqFields("POST", "https", "h", "/x", [2]string{"x-sid", fmt.Sprint(id)})
	}
	block := func(fields []ref.Field, es bool) []tframe {
		var frags [2][]byte
		t := []tframe{{f: func() []peer.Frame {
			id = x.newID()
			x.xid = id
			for i := range fields {
				if fields[i].Name == "x-sid" {
					fields[i].Value = fmt.Sprint(id)
				}
			}
			blk := h.PeerEnc.Block(fields, nil)
			if cs.Split {
				cut := len(blk) / 2
				frags = [2][]byte{blk[:cut], blk[cut:]}
				return []peer.Frame{peer.Headers(id, frags[0], peer.HeadersOpt{EndStream: es, Pad: -1})}
			}
			return []peer.Frame{peer.Headers(id, blk, peer.HeadersOpt{EndStream: es, EndHeaders: true, Pad: -1})}
		}}}
		if cs.Split {
			t = append(t, tframe{cont: true, f: func() []peer.Frame { return []peer.Frame{peer.Continuation(id, frags[1], true)} }})
		}
		return t
	}
	data := func(b string, es bool) tframe {
		return tframe{f: func() []peer.Frame { return []peer.Frame{peer.Data(id, []byte(b), es, -1)} }}
	}
	with := func(pos int, bad ref.Field) []ref.Field {
		fs := base()
		reg := append([]ref.Field{}, ins...)
		switch pos {
		case 0:
			reg = append([]ref.Field{bad}, reg...)
		case 1:
			reg = []ref.Field{ins[0], bad, ins[1]}
		default:
			reg = append(reg, bad)
		}
		return append(fs, reg...)
	}
	good := func() []ref.Field { return append(base(), ins...) }
	switch cs.Offence {
	case "malformed-first":
		tr = append(block(with(0, ref.Field{Name: "X-Upper", Value: "v"}), false), data("late", true))
	case "malformed-middle":
		tr = append(block(with(1, ref.Field{Name: "X-Upper", Value: "v"}), false), data("late", true))
	case "malformed-last":
		tr = append(block(with(2, ref.Field{Name: "X-Upper", Value: "v"}), false), data("late", true))
	case "connection-specific":
		tr = append(block(with(0, ref.Field{Name: "connection", Value: "close"}), false), data("late", true))
	case "te-gzip":
		tr = append(block(with(1, ref.Field{Name: "te", Value: "gzip"}), false), data("late", true))
	case "content-length-nan":
		tr = append(block(with(0, ref.Field{Name: "content-length", Value: "abc"}), false), data("late", true))
	case "bad-pseudo":
		fs := append([]ref.Field{{Name: ":foo", Value: "bar"}}, good()...)
		tr = append(block(fs, false), data("late", true))
	case "pseudo-after-regular":
		fs := append(good(), ref.Field{Name: ":path", Value: "/again"})
		tr = append(block(fs, false), data("late", true))
	case "oversized-body":
		tr = append(block(good(), false), data("0123456789abcdef", false), data("more-in-flight", true))
	case "content-length-mismatch":
		fs := append(good(), ref.Field{Name: "content-length", Value: "3"})
		tr = append(block(fs, false), data("12345", true))
	case "refused":
		// the caller opens two gated streams first so that this one is over the limit
		tr = append(block(good(), false), data("in-flight-1", false), data("in-flight-2", true))
	case "refused-after-malformed-with-size-update":
		// an earlier malformed stream, then (over the limit) a refused one whose block opens with a
		// dynamic table size update
		mal := block(with(1, ref.Field{Name: "X-Upper", Value: "v"}), true)
		var sid uint32
		var rfr [2][]byte
		tr = append(mal, tframe{f: func() []peer.Frame {
			sid = x.newID()
			pre := h.PeerEnc.SizeUpdate(2048)
			fs := harness.ReqFields("POST", "https", "h", "/x2", [2]string{"x-sid", fmt.Sprint(sid)})
			fs = append(fs, ref.Field{Name: "x-ins-c", Value: "c-x"})
			blk := append(pre, h.PeerEnc.Block(fs, nil)...)
			if cs.Split {
				rfr = [2][]byte{blk[:len(pre)+3], blk[len(pre)+3:]}
				return []peer.Frame{peer.Headers(sid, rfr[0], peer.HeadersOpt{EndStream: true, Pad: -1})}
			}
			return []peer.Frame{peer.Headers(sid, blk, peer.HeadersOpt{EndStream: true, EndHeaders: true, Pad: -1})}
		}})
		if cs.Split {
			tr = append(tr, tframe{cont: true, f: func() []peer.Frame { return []peer.Frame{peer.Continuation(sid, rfr[1], true)} }})
		}
	case "inflight-trailers-with-size-update":
		tr = append(block(with(0, ref.Field{Name: "X-Upper", Value: "v"}), false), data("a", false))
		tr = append(tr, tframe{f: func() []peer.Frame {
			pre := h.PeerEnc.SizeUpdate(1024)
			blk := append(pre, h.PeerEnc.Block([]ref.Field{{Name: "x-ins-t", Value: "t"}}, nil)...)
			return []peer.Frame{peer.Headers(id, blk, peer.HeadersOpt{EndStream: true, EndHeaders: true, Pad: -1})}
		}})
	case "peer-rst-before-body":
		tr = append(block(good(), false), tframe{f: func() []peer.Frame { return []peer.Frame{peer.RstStream(id, 8)} }})
	case "peer-rst-mid-body":
		tr = append(block(good(), false), data("abc", false), tframe{f: func() []peer.Frame { return []peer.Frame{peer.RstStream(id, 8)} }})
	case "peer-rst-handler-running":
		tr = append(block(good(), true), tframe{f: func() []peer.Frame { return []peer.Frame{peer.RstStream(id, 8)} }})
	case "peer-rst-flow-blocked":
		tr = block(good(), true)
		after = func() {
			// answer with more than the 65535-byte window, then cancel while it is blocked
			for _, c := range h.Calls {
				if c.Stream == id && !c.Returned {
					h.Finish(c.Idx, harness.Resp{Status: 200, Body: []byte(valOfLen(70000))})
				}
			}
			h.SendFrames(peer.RstStream(id, 8))
			h.SendFrames(peer.WindowUpdate(0, 70000))
		}
	case "handler-panic":
		tr = block(good(), true)
		after = func() {
			for _, c := range h.Calls {
				if c.Stream == id && !c.Returned {
					h.Finish(c.Idx, harness.Resp{Panic: true})
				}
			}
		}
	case "response-body-fails-at-first-read", "response-body-fails-midway":
		// the handler answers 502 with a streamed body whose reader fails (at once, or after its first chunk): the
		// stream is lost, the header compression state shared with the later responses must not be
		tr = block(good(), true)
		after = func() {
			fail := 1
			if cs.Offence == "response-body-fails-midway" {
				fail = 2
			}
			for _, c := range h.Calls {
				if c.Stream == id && !c.Returned {
					h.Finish(c.Idx, harness.Resp{Status: 502, Headers: [][2]string{{"X-Upstream", "gone"}}, Stream: &harness.BodyStream{Chunks: [][]byte{[]byte("partial"), []byte("never")}, Declared: -1, FailAfter: fail}})
				}
			}
		}
	case "window-update-0":
		tr = append(block(good(), false), tframe{f: func() []peer.Frame { return []peer.Frame{peer.WindowUpdate(id, 0)} }}, data("late", true))
	case "window-update-overflow":
		tr = append(block(good(), false), tframe{f: func() []peer.Frame { return []peer.Frame{peer.WindowUpdate(id, 1<<31-1)} }}, data("late", true))
	case "window-update-0-handler-running", "window-update-overflow-handler-running":
		// the request is complete and its handler runs when the peer commits a stream-level flow-control error;
		// what the peer had in flight for the stream arrives after the server's RST_STREAM and before the handler returns
		inc := uint32(0)
		if cs.Offence == "window-update-overflow-handler-running" {
			inc = 1<<31 - 1
		}
		tr = append(block(good(), true),
			tframe{f: func() []peer.Frame { return []peer.Frame{peer.WindowUpdate(id, inc)} }},
			tframe{f: func() []peer.Frame { return []peer.Frame{peer.WindowUpdate(id, 10)} }},
			tframe{f: func() []peer.Frame { return []peer.Frame{peer.Priority(id, 0, false, 5)} }},
			tframe{f: func() []peer.Frame { return []peer.Frame{peer.RstStream(id, 8)} }})
	case "inflight-data":
		tr = append(block(with(0, ref.Field{Name: "X-Upper", Value: "v"}), false), data("a", false), data("b", false), data("c", true))
	case "inflight-trailers", "inflight-trailers-continuation":
		tr = append(block(with(0, ref.Field{Name: "X-Upper", Value: "v"}), false), data("a", false))
		var tf [2][]byte
		split := cs.Offence == "inflight-trailers-continuation"
		tr = append(tr, tframe{f: func() []peer.Frame {
			blk := h.PeerEnc.Block([]ref.Field{{Name: "x-ins-t", Value: "t"}}, nil)
			if split {
				tf = [2][]byte{blk[:2], blk[2:]}
				return []peer.Frame{peer.Headers(id, tf[0], peer.HeadersOpt{EndStream: true, Pad: -1})}
			}
			return []peer.Frame{peer.Headers(id, blk, peer.HeadersOpt{EndStream: true, EndHeaders: true, Pad: -1})}
		}})
		if split {
			tr = append(tr, tframe{cont: true, f: func() []peer.Frame { return []peer.Frame{peer.Continuation(id, tf[1], true)} }})
		}
	case "inflight-window-update":
		tr = append(block(with(0, ref.Field{Name: "X-Upper", Value: "v"}), false), tframe{f: func() []peer.Frame { return []peer.Frame{peer.WindowUpdate(id, 10)} }}, data("late", true))
	}
	return tr, after
}

func c09Exec(cs c09Case) (*fw.Violation, *harness.Server, int) {
	h := harness.NewServer(harness.ServerOpts{MaxConcurrentStreams: 3, MaxRequestBodySize: 12, EarlyBodyStream: cs.Early})
	x := &c09Run{h: h, wants: map[uint32]harness.WantReq{}, nextID: 1}
	mk := func(rule, shape, detail string) *fw.Violation {
		return &fw.Violation{Rule: rule, Shape: shape, Detail: detail + "\n    events: " + strings.Join(h.EventLog, " ; "), Replay: map[string]any{"family": "c09", "case": cs}}
	}
	shape := cs.Offence
	if cs.Split {
		shape += "+continuation"
	}
	if cs.FinishMid {
		shape += "+handler-returns-mid-block"
	}
	if cs.Burst {
		shape += "+one-segment"
	}
	if cs.Offence == "refused" || cs.Offence == "refused-after-malformed-with-size-update" {
		// two extra gated streams take the remaining slots (V1 holds the third)
		for i := 0; i < 2; i++ {
			for _, t := range x.victim(fmt.Sprintf("g%d", i), nil, false) {
				h.SendFrames(t.f()...)
			}
		}
	}
	v1 := x.victim("v1", nil, true)
	xt, after := x.offender(cs)
	tracks := [][]tframe{v1, xt}
	pos := []int{0, 0}
	order := cs.Order
	if order == nil {
		for t := range tracks {
			for range tracks[t] {
				order = append(order, t)
			}
		}
	}
	nOrder := 0
	var burst []peer.Frame
	for _, t := range order {
		if pos[t] >= len(tracks[t]) {
			continue
		}
		nOrder++
		for {
			if cs.Burst {
				burst = append(burst, tracks[t][pos[t]].f()...)
			} else {
				h.SendFrames(tracks[t][pos[t]].f()...)
			}
			pos[t]++
			if pos[t] >= len(tracks[t]) || !tracks[t][pos[t]].cont {
				break
			}
			if cs.FinishMid && t == 1 && pos[t] == len(tracks[t])-1 {
				// no frame may come between HEADERS and CONTINUATION, but a handler may return
				for _, c := range h.Calls {
					if !c.Returned && !strings.HasPrefix(c.Req.URI, "/g1") {
						h.Finish(c.Idx, harness.Resp{Status: 200, Body: []byte("ok"), Headers: [][2]string{{"X-R", "r"}}})
					}
				}
			}
		}
	}
	if cs.Burst {
		h.SendFrames(burst...)
	}
	if after != nil {
		after()
	}
	if cs.Offence == "refused" || cs.Offence == "refused-after-malformed-with-size-update" {
		// a slot-holder finishes, so that there is room for V2
		for _, c := range h.Calls {
			if strings.HasPrefix(c.Req.URI, "/g0") && !c.Returned {
				h.Finish(c.Idx, harness.Resp{Status: 200, Body: []byte("ok"), Headers: [][2]string{{"X-R", "r"}}})
			}
		}
	}
	// V2 comes after the offence and leans on what the offending block inserted
	refs := c09Ins("x")
	if strings.HasPrefix(cs.Offence, "inflight-trailers") {
		refs = append(refs, ref.Field{Name: "x-ins-t", Value: "t"})
	}
	if cs.Offence == "refused-after-malformed-with-size-update" {
		refs = append(refs, ref.Field{Name: "x-ins-c", Value: "c-x"})
	}
	for _, t := range x.victim("v2", refs, false) {
		h.SendFrames(t.f()...)
	}
	// handlers of the victims finish in the scenario's order
	var victims []uint32
	for id := range x.wants {
		victims = append(victims, id)
	}
	sortU32(victims)
	resp := harness.Resp{Status: 200, Body: []byte("ok"), Headers: [][2]string{{"X-R", "r"}}}
	check := func() *fw.Violation {
		if len(h.GoAways) > 0 || h.C.Closed() || h.Returned {
			return mk("connection-torn-down", shape+" -> "+reactionClass(h.Reaction(0)), fmt.Sprintf("stream-scoped offence %q on stream %d ended the connection: %s", cs.Offence, x.xid, h.Reaction(0)))
		}
		return nil
	}
	if v := check(); v != nil {
		return v, h, nOrder
	}
	for _, id := range victims {
		w := x.wants[id]
		var found []*harness.Call
		for _, c := range h.Calls {
			if c.Stream == id {
				found = append(found, c)
			}
		}
		role := "victim-opened-before"
		if strings.HasSuffix(w.Fields[3].Value, "v2") {
			role = "victim-opened-after"
		}
		if strings.HasPrefix(w.Fields[3].Value, "/g") {
			role = "slot-holder"
		}
		if len(found) != 1 {
			so := h.Streams[id]
			got := "nothing"
			if so != nil {
				got = fmt.Sprintf("rst=%v blocks=%d", so.Rst, len(so.HeaderBlocks))
			}
			return mk("victim-not-dispatched", shape+" "+role, fmt.Sprintf("well-formed stream %d (%s) was dispatched %d times after offence %q on stream %d; on that stream the peer saw %s", id, role, len(found), cs.Offence, x.xid, got)), h, nOrder
		}
		if d, cls := harness.CheckRequest(w, found[0].Req); d != "" {
			return mk("victim-request-not-intact", shape+" "+role+" "+cls, fmt.Sprintf("stream %d (%s): %s", id, role, d)), h, nOrder
		}
	}
	fin := cs.Finish
	if fin == nil {
		for i := range victims {
			fin = append(fin, i)
		}
	}
	for _, i := range fin {
		if i >= len(victims) {
			continue
		}
		for _, c := range h.Calls {
			if c.Stream == victims[i] && !c.Returned {
				h.Finish(c.Idx, resp)
			}
		}
	}
	if v := check(); v != nil {
		return v, h, nOrder
	}
	for _, id := range victims {
		if d, cls := harness.CheckResponse(h.Streams[id], resp); d != "" {
			return mk("victim-response-not-intact", shape+" "+cls, fmt.Sprintf("stream %d: %s", id, d)), h, nOrder
		}
	}
	if h.HpackErr != "" {
		return mk("response-header-block-invalid", shape, h.HpackErr), h, nOrder
	}
	var pan []string
	for _, p := range h.Panicked() {
		if !(cs.Offence == "handler-panic" && strings.Contains(p, "panic in the handler")) {
			pan = append(pan, p)
		}
	}
	if len(pan) > 0 {
		return mk("server-panic", shape, strings.Join(pan, "; ")), h, nOrder
	}
	if ev := h.PoolEvents(); len(ev) > 0 {
		return mk("pool-misuse", shape, strings.Join(ev, "; ")), h, nOrder
	}
	// afterwards: every handler returns, and the peer opens as many streams at once as the server advertised (3):
	// a concurrency slot the failed stream never gave back shows as a refusal here
	for _, c := range h.Calls {
		if !c.Returned {
			h.Finish(c.Idx, resp)
		}
	}
	var hi uint32
	for id := range h.Streams {
		if id > hi {
			hi = id
		}
	}
	for _, f := range h.Out {
		if f.Stream > hi {
			hi = f.Stream
		}
	}
	if x.xid > hi {
		hi = x.xid
	}
	hi |= 1
	before := len(h.Calls)
	var late []uint32
	for k := 0; k < 3; k++ {
		hi += 2
		late = append(late, hi)
		h.SendFrames(peer.Headers(hi, staticBlock(harness.ReqFields("GET", "https", "h", "/late", [2]string{"x-sid", fmt.Sprint(hi)})), peer.HeadersOpt{EndStream: true, EndHeaders: true, Pad: -1}))
	}
	if v := check(); v != nil {
		return v, h, nOrder
	}
	if len(h.Calls) != before+3 {
		var got []string
		for _, id := range late {
			if so := h.Streams[id]; so != nil {
				got = append(got, fmt.Sprintf("%d: rst=%v", id, so.Rst))
			}
		}
		return mk("later-streams-refused", shape, fmt.Sprintf("after offence %q on stream %d and with every handler returned, 3 requests opened at once (the advertised limit) led to %d handler calls (%s)", cs.Offence, x.xid, len(h.Calls)-before, strings.Join(got, ", "))), h, nOrder
	}
	// they are answered with statuses outside the static table (the only response fields the server's encoder puts
	// into its dynamic table): the response side of the compression context must have survived the failed stream
	for k, c := range h.Calls[before:] {
		late := harness.Resp{Status: []int{201, 502, 201}[k%3], Body: []byte("late"), Headers: [][2]string{{"X-R", "r"}}}
		h.Finish(c.Idx, late)
		if v := check(); v != nil {
			return v, h, nOrder
		}
		if d, cls := harness.CheckResponse(h.Streams[c.Stream], late); d != "" {
			return mk("later-response-not-intact", shape+" "+cls, fmt.Sprintf("stream %d, opened after offence %q on stream %d was over: %s", c.Stream, cs.Offence, x.xid, d)), h, nOrder
		}
	}
	if h.HpackErr != "" {
		return mk("response-header-block-invalid", shape, h.HpackErr), h, nOrder
	}
	return nil, h, nOrder
}

// c09TimeoutCase: the server itself gives a request up when its time is over (ReadTimeout) while frames for it
// are still on their way; the streams around it must not notice.
type c09TimeoutCase struct {
	Dispatched bool     `json:"dispatched"`      // the request was complete (handler running) when the timer fired
	InFlight   []string `json:"in_flight"`       // frames that arrive for the stream after the timer fired
	ReturnAt   int      `json:"handler_returns"` // position in InFlight at which the timed-out handler returns (len: afterwards)
}

func c09Timeout(cs c09TimeoutCase) (*fw.Violation, *harness.Server) {
	h := harness.NewServer(harness.ServerOpts{MaxConcurrentStreams: 3, ReadTimeout: 1000000000})
	x := &c09Run{h: h, wants: map[uint32]harness.WantReq{}, nextID: 1}
	shape := fmt.Sprintf("request-timeout dispatched=%v in-flight=%s", cs.Dispatched, strings.Join(cs.InFlight, ","))
	mk := func(rule, sh, detail string) *fw.Violation {
		return &fw.Violation{Rule: rule, Shape: sh, Detail: detail + "\n    events: " + strings.Join(h.EventLog, " ; "), Replay: map[string]any{"family": "c09timeout", "case": cs}}
	}
	resp := harness.Resp{Status: 200, Body: []byte("ok"), Headers: [][2]string{{"X-R", "r"}}}
	finish := func(id uint32) {
		for _, c := range h.Calls {
			if c.Stream == id && !c.Returned {
				h.Finish(c.Idx, resp)
			}
		}
	}
	// V1 completes before anything times out
	var v1 uint32
	for _, t := range x.victim("v1", nil, true) {
		h.SendFrames(t.f()...)
	}
	for id := range x.wants {
		v1 = id
	}
	finish(v1)
	// X: its block inserts the entries V2 will refer to
	xid := x.newID()
	fields := append(harness.ReqFields("POST", "https", "h", "/x", [2]string{"x-sid", fmt.Sprint(xid)}), c09Ins("x")...)
	h.SendFrames(peer.Headers(xid, h.PeerEnc.Block(fields, nil), peer.HeadersOpt{EndStream: cs.Dispatched, EndHeaders: true, Pad: -1}))
	if !cs.Dispatched {
		h.SendFrames(peer.Data(xid, []byte("part"), false, -1))
	}
	if !h.FireTimer() {
		return nil, h // no request timer armed: nothing to explore
	}
	for i := 0; i <= len(cs.InFlight); i++ {
		if i == cs.ReturnAt {
			finish(xid)
		}
		if i == len(cs.InFlight) || h.Returned {
			break
		}
		switch cs.InFlight[i] {
		case "WINDOW_UPDATE":
			h.SendFrames(peer.WindowUpdate(xid, 10))
		case "DATA":
			h.SendFrames(peer.Data(xid, []byte("late"), false, -1))
		case "DATA+ES":
			h.SendFrames(peer.Data(xid, []byte("late"), true, -1))
		case "PRIORITY":
			h.SendFrames(peer.Priority(xid, 0, false, 7))
		case "RST_STREAM":
			h.SendFrames(peer.RstStream(xid, 8))
		case "TRAILERS":
			h.SendFrames(peer.Headers(xid, h.PeerEnc.Block([]ref.Field{{Name: "x-ins-t", Value: "t"}}, nil), peer.HeadersOpt{EndStream: true, EndHeaders: true, Pad: -1}))
		}
	}
	// V2 leans on what X's block inserted
	for _, t := range x.victim("v2", c09Ins("x"), false) {
		h.SendFrames(t.f()...)
	}
	if len(h.GoAways) > 0 || h.C.Closed() || h.Returned {
		return mk("connection-torn-down", shape+" -> "+reactionClass(h.Reaction(0)), fmt.Sprintf("the server gave stream %d up on its own timeout; frames in flight for it ended the connection: %s", xid, h.Reaction(0))), h
	}
	for id, w := range x.wants {
		var found []*harness.Call
		for _, c := range h.Calls {
			if c.Stream == id {
				found = append(found, c)
			}
		}
		if len(found) != 1 {
			return mk("victim-not-dispatched", shape, fmt.Sprintf("well-formed stream %d was dispatched %d times next to a request that timed out", id, len(found))), h
		}
		if d, cls := harness.CheckRequest(w, found[0].Req); d != "" {
			return mk("victim-request-not-intact", shape+" "+cls, fmt.Sprintf("stream %d: %s", id, d)), h
		}
		finish(id)
		if d, cls := harness.CheckResponse(h.Streams[id], resp); d != "" {
			return mk("victim-response-not-intact", shape+" "+cls, fmt.Sprintf("stream %d: %s", id, d)), h
		}
	}
	if len(h.GoAways) > 0 || h.C.Closed() || h.Returned {
		return mk("connection-torn-down", shape+" -> "+reactionClass(h.Reaction(0)), "the connection ended after a request timed out: "+h.Reaction(0)), h
	}
	if p := h.Panicked(); len(p) > 0 {
		return mk("server-panic", shape, strings.Join(p, "; ")), h
	}
	if ev := h.PoolEvents(); len(ev) > 0 {
		return mk("pool-misuse", shape, strings.Join(ev, "; ")), h
	}
	return nil, h
}

// c09Junk: DATA that keeps arriving for a stream the server has reset or refused uses up connection window. The
// peer is a conforming sender (C14's model: it only sends what its ledger allows); a victim upload opened before must
// still be able to finish afterwards, i.e. the credit for the discarded DATA has come back.
type c09JunkCase struct {
	Offence string `json:"offence"` // malformed | refused | oversized
	Chunk   int    `json:"chunk"`
	Pad     int    `json:"pad"`
}

func c09Junk(cs c09JunkCase) (*fw.Violation, *harness.Server) {
	h := harness.NewServer(harness.ServerOpts{MaxConcurrentStreams: 2, MaxRequestBodySize: 1 << 20})
	shape := "junk-data-on-dead-stream " + cs.Offence
	mk := func(rule, detail string) *fw.Violation {
		ev := h.EventLog
		if len(ev) > 10 {
			ev = append([]string{fmt.Sprintf("…%d earlier events…", len(ev)-10)}, ev[len(ev)-10:]...)
		}
		return &fw.Violation{Rule: rule, Shape: shape, Detail: detail + "\n    last events: " + strings.Join(ev, " ; "), Replay: map[string]any{"family": "c09junk", "case": cs}}
	}
	s := &sender{h: h, conn: 65535, init: 65535, strm: map[uint32]int64{}}
	for _, st := range h.Settings {
		for _, p := range st {
			if p.ID == peer.SInitialWindowSize {
				s.init = int64(p.Val)
			}
		}
	}
	s.absorb()
	open := func(id uint32, extra ...ref.Field) {
		fields := harness.ReqFields("POST", "https", "h", fmt.Sprint("/j", id), [2]string{"x-sid", fmt.Sprint(id)})
		fields = append(fields, extra...)
		h.SendFrames(peer.Headers(id, staticBlock(fields), peer.HeadersOpt{EndHeaders: true, Pad: -1}))
		s.strm[id] = s.init
	}
	body := []byte(valOfLen(100000))
	open(1)
	sent := 0
	for sent < 70000 {
		n := min(16384, 70000-sent)
		if r, d := s.send(1, body[sent:sent+n], false, -1); r != "" {
			return mk("victim-upload-starved", "before the offence: "+d), h
		}
		sent += n
	}
	switch cs.Offence {
	case "malformed":
		open(3, ref.Field{Name: "X-Upper", Value: "v"})
	case "refused":
		open(3)
		open(5) // over the limit of 2
	case "oversized":
		open(3, ref.Field{Name: "content-length", Value: "4000000"}) // above MaxRequestBodySize: refused at HEADERS or at the first DATA
	}
	dead := uint32(3)
	if cs.Offence == "refused" {
		dead = 5
	}
	chunk := []byte(valOfLen(cs.Chunk))
	junk := 0
	for i := 0; i < 400; i++ {
		if r, _ := s.send(dead, chunk, false, cs.Pad); r != "" {
			break // the sender's own ledger says stop: a conforming peer sends no more
		}
		junk += len(chunk)
	}
	// the victim's last 30000 bytes
	for sent < len(body) {
		n := min(16384, len(body)-sent)
		if r, d := s.send(1, body[sent:sent+n], sent+n == len(body), -1); r != "" {
			return mk("victim-upload-starved", fmt.Sprintf("after %d bytes of DATA were discarded on stream %d (%s), the upload on stream 1 cannot go on at byte %d of %d: %s", junk, dead, cs.Offence, sent, len(body), d)), h
		}
		sent += n
	}
	if len(h.GoAways) > 0 || h.C.Closed() {
		return mk("connection-torn-down", "DATA in flight on a dead stream ended the connection: "+h.Reaction(0)), h
	}
	var got *harness.Call
	for _, c := range h.Calls {
		if c.Stream == 1 {
			got = c
		}
	}
	if got == nil || len(got.Req.Body) != len(body) {
		return mk("victim-not-dispatched", fmt.Sprintf("the upload on stream 1 was sent in full (%d bytes) but was not handed to the handler intact", len(body))), h
	}
	return nil, h
}

func sortU32(a []uint32) {
	for i := 1; i < len(a); i++ {
		for j := i; j > 0 && a[j] < a[j-1]; j-- {
			a[j], a[j-1] = a[j-1], a[j]
		}
	}
}

func runC09(c *fw.Ctx) {
	runSpxFamily(c, "C09")
	thorough := c.Tier == "thorough"
	var item int64
	sampled := 0
	for _, off := range c09Offences {
		for _, split := range []bool{false, true} {
			// learn the track lengths from a dry run
			_, h0, _ := c09Exec(c09Case{Offence: off, Split: split})
			h0.Close()
			x := &c09Run{h: harness.NewServer(harness.ServerOpts{}), wants: map[uint32]harness.WantReq{}, nextID: 1}
			xt, _ := x.offender(c09Case{Offence: off, Split: split})
			x.h.Close()
			nx := 0
			for _, t := range xt {
				if !t.cont {
					nx++
				}
			}
			harness.Interleavings([]int{3, nx}, func(order []int) bool {
				ord := append([]int{}, order...)
				if strings.HasPrefix(off, "refused") && ord[0] != 0 {
					return true // V1 has to hold its slot before X arrives
				}
				fins := [][]int{{0, 1}, {1, 0}}
				if strings.HasPrefix(off, "refused") {
					fins = [][]int{{0, 1, 2, 3}, {3, 2, 1, 0}, {1, 3, 0, 2}}
					if thorough {
						fins = permutations(4)
					}
				}
				pure := !strings.HasPrefix(off, "peer-rst") && off != "handler-panic"
				for _, fin := range fins {
					for _, mode := range []string{"", "one-segment", "finish-mid", "early-body-stream"} {
						burst := mode == "one-segment"
						if mode == "early-body-stream" && !(strings.HasSuffix(off, "handler-running") || strings.HasPrefix(off, "peer-rst") || off == "handler-panic") {
							continue // only matters where a handler is running when its stream ends
						}
						if burst && !pure {
							continue // the offending track of these reads the server's state between frames
						}
						if mode == "finish-mid" && !split {
							continue // a handler can only return between HEADERS and CONTINUATION if there is one
						}
						if item++; !c.Mine(item) {
							continue
						}
						cs := c09Case{Offence: off, Split: split, Order: ord, Finish: fin, Burst: burst, FinishMid: mode == "finish-mid", Early: mode == "early-body-stream"}
						v, h, _ := c09Exec(cs)
						js, _ := json.Marshal(cs)
						c.Eval(nt(true, js))
						c.AddTransitions(int64(h.Events))
						c.AddTraces(1)
						c.State(fw.Hash(h.Digest()))
						if v != nil {
							c.Violate(*v)
							c.Outcome(v.Rule)
						} else {
							c.Outcome("victims-intact")
						}
						if sampled < 3 && off == "refused" {
							sampled++
							c.Sample(map[string]any{"case": cs, "events": h.EventLog})
						}
						h.Close()
					}
				}
				return !c.Expired("C09")
			})
		}
	}
	c.Bound["offences"] = len(c09Offences)
	// the server's own request timeout with frames in flight
	kinds := []string{"WINDOW_UPDATE", "DATA", "DATA+ES", "PRIORITY", "RST_STREAM", "TRAILERS"}
	var seqs [][]string
	for _, a := range kinds {
		seqs = append(seqs, []string{a})
		for _, b := range kinds {
			seqs = append(seqs, []string{a, b})
		}
	}
	// what a conforming peer can still have in flight: nothing but WINDOW_UPDATE / PRIORITY / RST_STREAM once it has
	// ended the stream, nothing but PRIORITY once it has reset it
	legal := func(disp bool, sq []string) bool {
		ended, reset := disp, false
		for _, k := range sq {
			if reset && k != "PRIORITY" {
				return false
			}
			if ended && (k == "DATA" || k == "DATA+ES" || k == "TRAILERS") {
				return false
			}
			switch k {
			case "DATA+ES", "TRAILERS":
				ended = true
			case "RST_STREAM":
				reset = true
			}
		}
		return true
	}
	for _, disp := range []bool{true, false} {
		for _, sq := range seqs {
			if !legal(disp, sq) {
				continue
			}
			for ret := 0; ret <= len(sq); ret++ {
				if !disp && ret != len(sq) {
					continue
				}
				if item++; !c.Mine(item) {
					continue
				}
				cs := c09TimeoutCase{Dispatched: disp, InFlight: sq, ReturnAt: ret}
				v, h := c09Timeout(cs)
				js, _ := json.Marshal(cs)
				c.Eval(nt(true, js))
				c.AddTransitions(int64(h.Events))
				c.AddTraces(1)
				c.State(fw.Hash(h.Digest()))
				if v != nil {
					c.Violate(*v)
					c.Outcome(v.Rule)
				} else {
					c.Outcome("victims-intact:timeout")
				}
				h.Close()
			}
		}
	}
	c.Family("request-timeout")
	for _, off := range []string{"malformed", "refused", "oversized"} {
		for _, ch := range []int{16384, 1000} {
			for _, pad := range []int{-1, 200} {
				if pad >= 0 && ch+pad+1 > 16384 {
					continue
				}
				if item++; !c.Mine(item) {
					continue
				}
				cs := c09JunkCase{Offence: off, Chunk: ch, Pad: pad}
				v, h := c09Junk(cs)
				js, _ := json.Marshal(cs)
				c.Eval(nt(true, js))
				c.AddTransitions(int64(h.Events))
				c.AddTraces(1)
				c.State(fw.Hash(h.Digest()))
				if v != nil {
					c.Violate(*v)
					c.Outcome(v.Rule)
				} else {
					c.Outcome("victims-intact:junk")
				}
				h.Close()
			}
		}
	}
	c.Family("junk-data-on-dead-stream")
}

func replayC09(raw json.RawMessage) (string, bool) {
	var r struct {
		Family string  `json:"family"`
		Case   c09Case `json:"case"`
	}
	if err := json.Unmarshal(raw, &r); err != nil {
		return err.Error(), false
	}
	if r.Family == "c09junk" {
		var rj struct {
			Case c09JunkCase `json:"case"`
		}
		json.Unmarshal(raw, &rj)
		v, h := c09Junk(rj.Case)
		defer h.Close()
		if v != nil {
			return v.Rule + " [" + v.Shape + "]: " + v.Detail, true
		}
		return "victim upload completed", false
	}
	if r.Family == "c09timeout" {
		var rt struct {
			Case c09TimeoutCase `json:"case"`
		}
		json.Unmarshal(raw, &rt)
		v, h := c09Timeout(rt.Case)
		defer h.Close()
		if v != nil {
			return v.Rule + " [" + v.Shape + "]: " + v.Detail, true
		}
		return "victims intact: " + strings.Join(h.EventLog, " ; "), false
	}
	v, h, _ := c09Exec(r.Case)
	defer h.Close()
	if v != nil {
		return v.Rule + " [" + v.Shape + "]: " + v.Detail, true
	}
	return "victims intact: " + strings.Join(h.EventLog, " ; "), false
}
