package checks

import (
	"encoding/json"
	"fmt"
	"sort"
	"strings"

	"verif/fw"
	"verif/harness"
	"verif/peer"
	"verif/ref"
	"verif/vsched"
)

// C08 — the server reacts to each frame as its stream's RFC 7540 state
// prescribes. ELX: all sequences up to a depth over an alphabet of frames
// named by stream ROLE, on the real ServeConn run to quiescence after every
// frame, against a reference of RFC 7540 5.1 / 6 written with every leniency
// the RFC grants.

func init() {
	fw.Register(&fw.Check{
		ID: "C08", Level: "model_checking",
		Rule:   "ELX: every sequence of environment events up to the depth bound over {HEADERS(+-ES,+-EH), CONTINUATION(+-EH), DATA(+-ES, empty), trailers, RST_STREAM, WINDOW_UPDATE(0,1,to 2^31-1,overflow), PRIORITY(other,self)} x stream roles {A,B = opened earlier, N = next new id, N2 = skipping one id, L = skipped id, E = even, Z = closed in the prelude} + connection frames (PING, SETTINGS, ACKs, WINDOW_UPDATE, unknown type) + handler completions; 2 preludes; real server run to exact quiescence after each event; reaction {none, RST_STREAM(code), GOAWAY(code), close, dispatch, acks} must be in the RFC's allowed set. Non-trivial: sequence reaches >= 2 streams or a non-idle stream state before its last event; distinct by event sequence.",
		Assume: []string{"allowed-reaction table of checks/c08.go is RFC 7540 5.1, 5.1.1, 5.1.2, 6.x with leniencies listed in DESIGN.md §4 C08", "internal schedule between events is canonical (quiescent state of the three loops does not depend on it; cross-checked by SPX in C19)"},
		Run:    runC08, Replay: replayC08, Policies: 1, QuickS: 120, ThoroughS: 1200,
	})
}

const (
	cPROTOCOL = 1
	cFLOW     = 3
	cCLOSED   = 5
	cREFUSED  = 7
)

// stream states of the reference
const (
	sIdle = iota
	sOpen
	sHCR // half-closed (remote): the peer has sent END_STREAM
	sClosed
)

type rstream struct {
	st         int
	hdrDone    bool   // request header block complete
	closedBy   string // peer-rst | server-rst | ended | refused
	dispatched bool
	running    bool // handler running
	trailers   bool // currently inside a trailer block
	legal      bool // the sequence so far is a legal request sequence
	rem        []byte
	callIdx    int
}

type c08Ref struct {
	streams    map[uint32]*rstream
	highest    uint32 // highest id opened by HEADERS
	expectCont uint32
	dead       bool
	limit      int
	roleA      uint32
	roleB      uint32
	skipped    uint32 // id skipped by an N2 open (role L)
	z          uint32 // id closed in the prelude
	pingAcks   int
	setAcks    int
	nstreams   int // streams the explored part has opened
}

func (r *c08Ref) get(id uint32) *rstream {
	s := r.streams[id]
	if s == nil {
		s = &rstream{}
		if id < r.highest && id%2 == 1 {
			s.st = sClosed
			s.closedBy = "implicit"
		}
		r.streams[id] = s
	}
	return s
}

// rfcOpen counts streams that count against SETTINGS_MAX_CONCURRENT_STREAMS.
func (r *c08Ref) rfcOpen() int {
	n := 0
	for _, s := range r.streams {
		if s.st == sOpen || s.st == sHCR {
			n++
		}
	}
	return n
}

// slots counts what the server may additionally hold against the limit: streams
// whose handler is still running although the stream is closed.
func (r *c08Ref) slots() int {
	n := r.rfcOpen()
	for _, s := range r.streams {
		if s.st == sClosed && s.running {
			n++
		}
	}
	return n
}

// c08Ev is one environment event.
type c08Ev struct {
	Kind string `json:"kind"` // frame kind or "handler"
	Role string `json:"role"` // stream role, "0" for connection
}

func (e c08Ev) String() string { return e.Kind + "@" + e.Role }

type reaction struct {
	goaway  []uint32
	rst     map[uint32][]uint32
	closed  bool
	calls   []uint32 // x-sid of new handler invocations
	pingAck int
	setAck  int
	resp    []uint32
}

func (x reaction) String() string {
	var p []string
	for _, g := range x.goaway {
		p = append(p, "GOAWAY("+peer.CodeName(g)+")")
	}
	ids := []int{}
	for id := range x.rst {
		ids = append(ids, int(id))
	}
	sort.Ints(ids)
	for _, id := range ids {
		for _, c := range x.rst[uint32(id)] {
			p = append(p, fmt.Sprintf("RST_STREAM[%d](%s)", id, peer.CodeName(c)))
		}
	}
	if x.closed {
		p = append(p, "close")
	}
	for _, c := range x.calls {
		p = append(p, fmt.Sprintf("dispatch[%d]", c))
	}
	for _, c := range x.resp {
		p = append(p, fmt.Sprintf("response[%d]", c))
	}
	if len(p) == 0 {
		return "none"
	}
	return strings.Join(p, "+")
}

// allowed reaction classes
type allow struct {
	ok     bool     // no error towards this frame
	se     []uint32 // stream error codes
	ce     []uint32 // connection error codes (a bare close is accepted wherever a CE is)
	anyErr bool
}

func (a allow) String() string {
	var p []string
	if a.ok {
		p = append(p, "process/ignore")
	}
	for _, c := range a.se {
		p = append(p, "stream error "+peer.CodeName(c))
	}
	for _, c := range a.ce {
		p = append(p, "connection error "+peer.CodeName(c))
	}
	return "{" + strings.Join(p, " | ") + "}"
}

func okOnly() allow                    { return allow{ok: true} }
func ceOnly(c ...uint32) allow         { return allow{ce: c} }
func seOrCe(c ...uint32) allow         { return allow{se: c, ce: c} }
func (a allow) orOK() allow            { a.ok = true; return a }
func (a allow) orCE(c ...uint32) allow { a.ce = append(a.ce, c...); return a }
func (a allow) orSE(c ...uint32) allow { a.se = append(a.se, c...); return a }

const (
	reqPath = "/c08"
)

// c08Run is one execution.
type c08Run struct {
	h      *harness.Server
	r      *c08Ref
	trace  []string
	window map[uint32]int64
}

func staticBlock(fields []ref.Field) []byte {
	t := ref.NewTable()
	var out []byte
	for _, f := range fields {
		ch := ref.EncChoice{Rep: ref.RepWithout, NameIndex: true}
		if full, _ := t.Find(f.Name, f.Value); full != 0 {
			ch = ref.EncChoice{Rep: ref.RepIndexed}
		}
		out = ref.EncodeField(out, t, f, ch)
	}
	return out
}

func reqBlock(id uint32, method string) []byte {
	return staticBlock(harness.ReqFields(method, "https", "h", reqPath, [2]string{"x-sid", fmt.Sprint(id)}))
}

var trailerBlock = staticBlock([]ref.Field{{Name: "x-trailer", Value: "t"}})

func newC08(prelude string) *c08Run {
	h := harness.NewServer(harness.ServerOpts{MaxConcurrentStreams: 2})
	x := &c08Run{h: h, r: &c08Ref{streams: map[uint32]*rstream{}, limit: 2}, window: map[uint32]int64{}}
	switch prelude {
	case "completed":
		h.SendFrames(peer.Headers(1, reqBlock(1, "GET"), peer.HeadersOpt{EndStream: true, EndHeaders: true, Pad: -1}))
		h.Finish(0, harness.Resp{Status: 200})
		x.r.highest = 1
		x.r.z = 1
		x.r.streams[1] = &rstream{st: sClosed, closedBy: "ended", hdrDone: true, dispatched: true}
	case "peer-reset":
		h.SendFrames(peer.Headers(1, reqBlock(1, "POST"), peer.HeadersOpt{EndHeaders: true, Pad: -1}))
		h.SendFrames(peer.RstStream(1, 8))
		x.r.highest = 1
		x.r.z = 1
		x.r.streams[1] = &rstream{st: sClosed, closedBy: "peer-rst", hdrDone: true}
	case "slots-taken":
		// two requests whose handlers keep running hold both slots: every stream the explored part opens is
		// refused, and roles A and B name refused streams
		for _, id := range []uint32{1, 3} {
			h.SendFrames(peer.Headers(id, reqBlock(id, "GET"), peer.HeadersOpt{EndStream: true, EndHeaders: true, Pad: -1}))
			x.r.streams[id] = &rstream{st: sHCR, hdrDone: true, dispatched: true, running: true, legal: true, callIdx: len(h.Calls) - 1}
		}
		x.r.highest = 3
	}
	return x
}

func (x *c08Run) role(role string) (uint32, bool) {
	r := x.r
	next := r.highest + 2
	if r.highest == 0 {
		next = 1
	}
	switch role {
	case "0":
		return 0, true
	case "A":
		return r.roleA, r.roleA != 0
	case "B":
		return r.roleB, r.roleB != 0
	case "N":
		return next, true
	case "N2":
		return next + 2, true
	case "L":
		return r.skipped, r.skipped != 0
	case "E":
		return 2, true
	case "Z":
		return r.z, r.z != 0
	}
	return 0, false
}

var c08StreamKinds = []string{
	"HEADERS+ES+EH", "HEADERS+EH", "HEADERS+ES", "HEADERS",
	"CONTINUATION+EH", "CONTINUATION",
	"DATA", "DATA+ES", "DATA0+ES",
	"TRAILERS+ES+EH", "TRAILERS+EH", "TRAILERS+ES", "TRAILERS",
	"RST_STREAM",
	"WINDOW_UPDATE(1)", "WINDOW_UPDATE(0)", "WINDOW_UPDATE(max)", "WINDOW_UPDATE(over)",
	"PRIORITY(other)", "PRIORITY(self)",
	"UNKNOWN",
	// undefined flag bits (the ones that mean END_STREAM / END_HEADERS / PADDED / PRIORITY on other types)
	"CONTINUATION+EH~U", "DATA~U", "RST_STREAM~U", "WINDOW_UPDATE(1)~U", "PRIORITY(other)~U",
}
var c08ConnKinds = []string{"PING", "PING+ACK", "SETTINGS", "SETTINGS+ACK", "WINDOW_UPDATE(1)", "WINDOW_UPDATE(0)", "UNKNOWN"}

// menu lists the events available in the current state.
func (x *c08Run) menu(single bool) []c08Ev {
	var out []c08Ev
	roles := []string{"A", "B", "N", "N2", "L", "E", "Z"}
	if single {
		roles = []string{"A", "N"}
	}
	for _, role := range roles {
		if _, ok := x.role(role); !ok {
			continue
		}
		if single && role == "N" && x.r.roleA != 0 {
			continue
		}
		for _, k := range c08StreamKinds {
			if single && (k == "UNKNOWN" || k == "WINDOW_UPDATE(over)") {
				continue
			}
			out = append(out, c08Ev{k, role})
		}
	}
	for _, k := range c08ConnKinds {
		if single && k != "PING" && k != "SETTINGS" && k != "WINDOW_UPDATE(1)" {
			continue
		}
		out = append(out, c08Ev{k, "0"})
	}
	// handler completions, in call order
	for _, role := range []string{"A", "B", "Z"} {
		if id, ok := x.role(role); ok {
			if s := x.r.streams[id]; s != nil && s.running {
				out = append(out, c08Ev{"handler", role})
			}
		}
	}
	return out
}

// apply sends the event, observes the reaction and checks it. It returns a
// violation or nil; dead reports that the connection is over.
func (x *c08Run) apply(ev c08Ev) *fw.Violation {
	h, r := x.h, x.r
	id, _ := x.role(ev.Role)
	s := (*rstream)(nil)
	if id != 0 {
		s = r.get(id)
	}
	from := len(h.Out)
	calls0 := len(h.Calls)
	acks0, packs0 := h.Acks, h.PingAcks
	preState := "conn"
	if s != nil {
		preState = x.stateName(id)
	}
	var al allow
	expectDispatch := false
	expectPingAck, expectSetAck := 0, 0
	newStream := false

	// what the frame is, and the reference verdict
	// "~U": the same frame with every flag bit set that its type does not define (RFC 7540 4.1: ignored)
	undef := strings.HasSuffix(ev.Kind, "~U")
	kind := strings.TrimSuffix(ev.Kind, "~U")
	if kind == "handler" {
		if s.callIdx < len(h.Calls) {
			h.Finish(s.callIdx, harness.Resp{Status: 200})
		}
		s.running = false
		if s.st == sHCR {
			s.st, s.closedBy = sClosed, "ended"
		} else if s.st == sOpen {
			// response finished before the request did: the stream stays open for the peer
		}
		rx := x.observe(from, calls0, acks0, packs0)
		x.trace = append(x.trace, ev.String()+" -> "+rx.String())
		if len(rx.goaway) > 0 || rx.closed || len(rx.rst) > 0 {
			return x.viol("handler-completion-error", "handler returns state="+preState+" -> "+rxClass(rx, id), fmt.Sprintf("handler of stream %d returned (200, no body); reaction %s", id, rx))
		}
		return nil
	}

	var fr peer.Frame
	inBlockOther := r.expectCont != 0 && !(strings.HasPrefix(kind, "CONTINUATION") && id == r.expectCont)
	switch {
	case strings.HasPrefix(kind, "HEADERS") || strings.HasPrefix(kind, "TRAILERS"):
		es := strings.Contains(kind, "+ES")
		eh := strings.Contains(kind, "+EH")
		trailers := strings.HasPrefix(kind, "TRAILERS")
		block := reqBlock(id, map[bool]string{true: "GET", false: "POST"}[es])
		if trailers {
			block = trailerBlock
		}
		first, rest := block, []byte(nil)
		if !eh {
			first, rest = block[:2], block[2:]
		}
		fr = peer.Headers(id, first, peer.HeadersOpt{EndStream: es, EndHeaders: eh, Pad: -1})
		switch {
		case inBlockOther:
			al = ceOnly(cPROTOCOL)
		case id == 0 || id%2 == 0:
			al = ceOnly(cPROTOCOL)
		case s.st == sIdle && id > r.highest:
			if trailers { // a header block without pseudo-headers opening a stream: malformed request
				al = seOrCe(cPROTOCOL)
				if !eh {
					// not known to be malformed before the block is complete
					al = al.orOK()
				}
				if r.slots() >= r.limit {
					al = al.orSE(cREFUSED)
				}
				x.open(id, s, es, eh, rest)
				s.legal = false
				newStream = true
				break
			}
			newStream = true
			switch {
			case r.rfcOpen() >= r.limit:
				al = allow{se: []uint32{cREFUSED, cPROTOCOL}, ce: []uint32{cPROTOCOL}}
			case r.slots() >= r.limit:
				al = okOnly().orSE(cREFUSED)
			default:
				al = okOnly()
			}
			x.open(id, s, es, eh, rest)
			s.legal = true
			expectDispatch = es && eh
		case s.st == sClosed && s.closedBy == "implicit":
			al = ceOnly(cPROTOCOL, cCLOSED)
		case s.st == sOpen && s.hdrDone:
			if es { // trailers (may continue in CONTINUATION)
				al = okOnly()
				s.st = sHCR
				if eh {
					expectDispatch = s.legal
				} else {
					s.trailers, s.rem = true, rest
					r.expectCont = id
				}
				if !trailers {
					// a second block with pseudo-headers is a malformed trailer section
					al = seOrCe(cPROTOCOL)
					expectDispatch = false
					s.legal = false
				}
			} else {
				al = seOrCe(cPROTOCOL)
				s.legal = false
				if !eh {
					r.expectCont, s.rem = id, rest
				}
			}
		case s.st == sHCR:
			al = seOrCe(cCLOSED)
			if !eh {
				r.expectCont, s.rem = id, rest
			}
		case s.st == sClosed:
			al = x.closedAllow(s, "HEADERS")
			if !eh {
				r.expectCont, s.rem = id, rest
			}
		default:
			al = seOrCe(cPROTOCOL)
		}
	case strings.HasPrefix(kind, "CONTINUATION"):
		eh := strings.Contains(kind, "+EH")
		var frag []byte
		if r.expectCont == id && id != 0 && eh {
			frag = s.rem
		}
		fr = peer.Continuation(id, frag, eh)
		if r.expectCont == 0 || r.expectCont != id {
			al = ceOnly(cPROTOCOL)
		} else {
			al = okOnly()
			if s.st == sClosed && s.closedBy != "server-rst" && s.closedBy != "refused" {
				al = x.closedAllow(s, "CONTINUATION").orOK()
			}
			if eh {
				r.expectCont = 0
				s.rem = nil
				if s.trailers {
					s.trailers = false
					expectDispatch = s.legal && s.st == sHCR
				} else if !s.hdrDone && s.st != sClosed {
					s.hdrDone = true
					expectDispatch = s.legal && s.st == sHCR
				}
				if !s.legal && s.st != sClosed {
					al = al.orSE(cPROTOCOL, cCLOSED).orCE(cPROTOCOL, cCLOSED)
				}
			}
		}
	case strings.HasPrefix(kind, "DATA"):
		es := strings.Contains(kind, "+ES")
		body := []byte("d")
		if strings.HasPrefix(kind, "DATA0") {
			body = nil
		}
		fr = peer.Data(id, body, es, -1)
		switch {
		case inBlockOther:
			al = ceOnly(cPROTOCOL)
		case id == 0 || id%2 == 0:
			al = ceOnly(cPROTOCOL)
		case s.st == sIdle:
			al = ceOnly(cPROTOCOL)
		case s.st == sOpen && s.hdrDone:
			al = okOnly()
			if !s.legal {
				al = al.orSE(cPROTOCOL, cCLOSED).orCE(cPROTOCOL, cCLOSED)
			}
			if es {
				s.st = sHCR
				expectDispatch = s.legal
			}
		case s.st == sOpen:
			al = ceOnly(cPROTOCOL)
		case s.st == sHCR:
			al = seOrCe(cCLOSED)
		default:
			al = x.closedAllow(s, "DATA")
		}
	case kind == "RST_STREAM":
		fr = peer.RstStream(id, 8)
		switch {
		case inBlockOther:
			al = ceOnly(cPROTOCOL)
		case id == 0:
			al = ceOnly(cPROTOCOL)
		case s.st == sIdle:
			al = ceOnly(cPROTOCOL)
		case s.st == sOpen || s.st == sHCR:
			al = okOnly()
			s.st, s.closedBy = sClosed, "peer-rst"
		default:
			al = x.closedAllow(s, "RST_STREAM")
		}
	case strings.HasPrefix(kind, "WINDOW_UPDATE"):
		win := int64(65535)
		if id != 0 {
			if w, ok := x.window[id]; ok {
				win = w
			}
		} else if w, ok := x.window[0]; ok {
			win = w
		}
		inc := uint32(1)
		switch kind {
		case "WINDOW_UPDATE(0)":
			inc = 0
		case "WINDOW_UPDATE(max)":
			inc = uint32(1<<31 - 1 - win)
		case "WINDOW_UPDATE(over)":
			inc = uint32(1<<31 - win)
		}
		fr = peer.WindowUpdate(id, inc)
		over := win+int64(inc) > 1<<31-1
		switch {
		case inBlockOther:
			al = ceOnly(cPROTOCOL)
		case id == 0:
			switch {
			case inc == 0:
				al = ceOnly(cPROTOCOL)
			case over:
				al = ceOnly(cFLOW)
			default:
				al = okOnly()
				x.window[0] = win + int64(inc)
			}
		case id%2 == 0 || s.st == sIdle:
			al = ceOnly(cPROTOCOL)
		case s.st == sOpen || s.st == sHCR:
			switch {
			case inc == 0:
				al = seOrCe(cPROTOCOL)
			case over:
				al = seOrCe(cFLOW)
			default:
				al = okOnly()
				x.window[id] = win + int64(inc)
			}
		default:
			al = x.closedAllow(s, "WINDOW_UPDATE")
			if inc == 0 {
				al = al.orSE(cPROTOCOL).orCE(cPROTOCOL)
			}
			if over {
				al = al.orSE(cFLOW).orCE(cFLOW)
			}
		}
	case strings.HasPrefix(kind, "PRIORITY"):
		dep := uint32(0)
		if kind == "PRIORITY(self)" {
			dep = id
		}
		fr = peer.Priority(id, dep, false, 10)
		switch {
		case inBlockOther:
			al = ceOnly(cPROTOCOL)
		case id == 0:
			al = ceOnly(cPROTOCOL)
		case dep == id:
			al = seOrCe(cPROTOCOL)
		case id%2 == 0:
			// a client naming a server-initiated id that does not exist: RFC 7540 does
			// not say; ignoring and PROTOCOL_ERROR are both accepted
			al = okOnly().orCE(cPROTOCOL)
		default:
			al = okOnly()
		}
	case kind == "PING" || kind == "PING+ACK":
		fr = peer.Ping(kind == "PING+ACK", [8]byte{1, 2, 3, 4, 5, 6, 7, 8})
		if inBlockOther {
			al = ceOnly(cPROTOCOL)
		} else {
			al = okOnly()
			if kind == "PING" {
				expectPingAck = 1
			}
		}
	case kind == "SETTINGS" || kind == "SETTINGS+ACK":
		fr = peer.Settings()
		if kind == "SETTINGS+ACK" {
			fr = peer.SettingsAck()
		}
		if inBlockOther {
			al = ceOnly(cPROTOCOL)
		} else {
			al = okOnly()
			if kind == "SETTINGS" {
				expectSetAck = 1
			}
		}
	case kind == "UNKNOWN":
		fr = peer.Frame{Type: 0x0b, Stream: id, Payload: []byte("ext")}
		if inBlockOther {
			al = ceOnly(cPROTOCOL)
		} else {
			al = okOnly()
		}
	}

	if undef {
		fr.Flags |= 0x2d &^ peer.DefinedFlags(fr.Type)
	}
	h.SendFrames(fr)
	rx := x.observe(from, calls0, acks0, packs0)
	x.trace = append(x.trace, fmt.Sprintf("%s[%d] (%s) -> %s", ev.Kind, id, preState, rx))

	// classify the reaction
	shapeBase := fmt.Sprintf("%s role=%s state=%s", kindClass(ev.Kind), roleClass(ev.Role), strings.TrimSuffix(preState, "+handler"))
	cls := rxClass(rx, id)
	bad := func(rule, detail string) *fw.Violation {
		return x.viol(rule, shapeBase+" -> "+cls, detail)
	}
	// collateral damage on other streams
	for sid, codes := range rx.rst {
		if sid == id {
			continue
		}
		o := r.get(sid)
		if !(o.st == sClosed || o.st == sIdle && sid < r.highest) {
			return bad("collateral-reset", fmt.Sprintf("%s on stream %d (state %s): the server reset stream %d (%s) which is %s; allowed for the frame itself: %s", ev.Kind, id, preState, sid, peer.CodeName(codes[0]), x.stateName(sid), al))
		}
	}
	switch {
	case len(rx.goaway) > 0:
		r.dead = true
		okc := false
		for _, c := range al.ce {
			okc = okc || c == rx.goaway[0]
		}
		if !okc {
			return bad("reaction-not-allowed", fmt.Sprintf("%s on stream %d in state %s: server sent GOAWAY(%s); RFC 7540 allows %s", ev.Kind, id, preState, peer.CodeName(rx.goaway[0]), al))
		}
	case rx.closed:
		r.dead = true
		if len(al.ce) == 0 {
			return bad("reaction-not-allowed", fmt.Sprintf("%s on stream %d in state %s: server closed the connection; RFC 7540 allows %s", ev.Kind, id, preState, al))
		}
	case id != 0 && len(rx.rst[id]) > 0:
		code := rx.rst[id][0]
		okc := false
		for _, c := range al.se {
			okc = okc || c == code
		}
		if !okc {
			return bad("reaction-not-allowed", fmt.Sprintf("%s on stream %d in state %s: server sent RST_STREAM(%s); RFC 7540 allows %s", ev.Kind, id, preState, peer.CodeName(code), al))
		}
		if s.st != sClosed {
			s.st, s.closedBy = sClosed, "server-rst"
			if code == cREFUSED {
				s.closedBy = "refused"
			}
		}
		s.legal = false
		expectDispatch = false
	default:
		if !al.ok {
			return bad("error-not-raised", fmt.Sprintf("%s on stream %d in state %s: server raised no error (reaction %s); RFC 7540 requires %s", ev.Kind, id, preState, rx, al))
		}
	}
	if r.dead {
		return nil
	}
	// dispatch: exactly when a legal request completes
	if expectDispatch {
		if len(rx.calls) != 1 || rx.calls[0] != id {
			return bad("request-not-dispatched", fmt.Sprintf("%s completed a legal request on stream %d (state %s) but the handler was not invoked exactly once (new invocations %v)", ev.Kind, id, preState, rx.calls))
		}
		s.dispatched, s.running = true, true
		s.callIdx = len(h.Calls) - 1
	} else if len(rx.calls) > 0 {
		return bad("dispatch-from-illegal-sequence", fmt.Sprintf("%s on stream %d in state %s: handler invoked for %v although no legal request sequence completed", ev.Kind, id, preState, rx.calls))
	}
	if rx.pingAck != expectPingAck {
		return bad("ping-ack", fmt.Sprintf("expected %d PING ACK, got %d", expectPingAck, rx.pingAck))
	}
	if rx.setAck != expectSetAck {
		return bad("settings-ack", fmt.Sprintf("expected %d SETTINGS ACK, got %d", expectSetAck, rx.setAck))
	}
	_ = newStream
	return nil
}

// kindClass groups frame variants that the RFC treats alike, so that one
// defect is one finding.
func kindClass(k string) string {
	switch {
	case strings.HasPrefix(k, "HEADERS"), strings.HasPrefix(k, "TRAILERS"):
		return "HEADERS"
	case strings.HasPrefix(k, "DATA"):
		return "DATA"
	case strings.HasPrefix(k, "CONTINUATION"):
		return "CONTINUATION"
	case k == "WINDOW_UPDATE(1)" || k == "WINDOW_UPDATE(max)":
		return "WINDOW_UPDATE(valid)"
	}
	return k
}

func roleClass(role string) string {
	switch role {
	case "A", "B":
		return "opened"
	}
	return role
}

func rxClass(rx reaction, id uint32) string {
	switch {
	case len(rx.goaway) > 0:
		return "GOAWAY(" + peer.CodeName(rx.goaway[0]) + ")"
	case rx.closed:
		return "close"
	case len(rx.rst[id]) > 0:
		return "RST_STREAM(" + peer.CodeName(rx.rst[id][0]) + ")"
	case len(rx.rst) > 0:
		return "RST_STREAM(other stream)"
	case len(rx.calls) > 0:
		return "dispatch"
	}
	return "none"
}

func (x *c08Run) open(id uint32, s *rstream, es, eh bool, rest []byte) {
	r := x.r
	if id > r.highest+2 && r.highest+2 > 0 {
		next := r.highest + 2
		if r.highest == 0 {
			next = 1
		}
		if id > next && r.skipped == 0 {
			r.skipped = next
		}
	}
	// lower idle streams become implicitly closed
	for sid, o := range r.streams {
		if sid < id && o.st == sIdle && sid%2 == 1 {
			o.st, o.closedBy = sClosed, "implicit"
		}
	}
	r.highest = id
	s.st = sOpen
	if es {
		s.st = sHCR
	}
	s.hdrDone = eh
	if !eh {
		r.expectCont = id
		s.rem = rest
	}
	if r.roleA == 0 {
		r.roleA = id
	} else if r.roleB == 0 {
		r.roleB = id
	}
	r.nstreams++
}

// closedAllow: reactions allowed for a frame on a closed stream.
func (x *c08Run) closedAllow(s *rstream, frame string) allow {
	switch s.closedBy {
	case "server-rst", "refused":
		// RFC 7540 5.1: an endpoint MUST ignore frames on a stream it has reset (for a while)
		return okOnly()
	case "peer-rst":
		// 5.1: anything other than PRIORITY after RST_STREAM is a stream error STREAM_CLOSED; ignoring is tolerated
		return seOrCe(cCLOSED).orOK()
	case "ended":
		switch frame {
		case "WINDOW_UPDATE", "RST_STREAM":
			return okOnly()
		}
		return seOrCe(cCLOSED)
	case "implicit":
		return allow{ok: true, se: []uint32{cCLOSED, cPROTOCOL}, ce: []uint32{cPROTOCOL, cCLOSED}}
	}
	return allow{ok: true, se: []uint32{cCLOSED}, ce: []uint32{cCLOSED, cPROTOCOL}}
}

func (x *c08Run) stateName(id uint32) string {
	s := x.r.streams[id]
	if s == nil {
		if id < x.r.highest && id%2 == 1 {
			return "closed(implicit)"
		}
		return "idle"
	}
	switch s.st {
	case sIdle:
		if id < x.r.highest && id%2 == 1 {
			return "closed(implicit)"
		}
		return "idle"
	case sOpen:
		if !s.hdrDone {
			return "open(in-header-block)"
		}
		return "open"
	case sHCR:
		n := "half-closed(remote)"
		if !s.hdrDone || s.trailers {
			n += "(in-header-block)"
		}
		if s.running {
			n += "+handler"
		}
		return n
	}
	n := "closed(" + s.closedBy + ")"
	if s.running {
		n += "+handler"
	}
	return n
}

func (x *c08Run) observe(from, calls0, acks0, packs0 int) reaction {
	h := x.h
	rx := reaction{rst: map[uint32][]uint32{}}
	for _, f := range h.Out[from:] {
		sem, _ := peer.SemOf(f)
		switch f.Type {
		case peer.TGoAway:
			rx.goaway = append(rx.goaway, sem.Code)
		case peer.TRstStream:
			rx.rst[f.Stream] = append(rx.rst[f.Stream], sem.Code)
		case peer.THeaders:
			rx.resp = append(rx.resp, f.Stream)
		case peer.TData:
			if w, ok := x.window[f.Stream]; ok {
				x.window[f.Stream] = w - int64(len(f.Payload))
			}
		}
	}
	rx.closed = h.C.Closed() || h.Returned
	for _, c := range h.Calls[calls0:] {
		rx.calls = append(rx.calls, c.Stream)
	}
	rx.pingAck = h.PingAcks - packs0
	rx.setAck = h.Acks - acks0
	return rx
}

func (x *c08Run) viol(rule, shape, detail string) *fw.Violation {
	return &fw.Violation{Rule: rule, Shape: shape, Detail: detail + "\n    trace: " + strings.Join(x.trace, " ; ")}
}

type c08Case struct {
	Prelude string  `json:"prelude"`
	Single  bool    `json:"single_stream_alphabet"`
	Path    []int   `json:"path"`
	Events  []c08Ev `json:"events"`
	Seg     int     `json:"seg,omitempty"` // harness.SegMode the case ran under
}

// c08Exec runs path; returns the menu size after it (0 if dead or violating)
// and the violation found at the LAST step (earlier ones were reported by the
// parent path).
func c08Exec(prelude string, single bool, path []int) (menu int, v *fw.Violation, evs []c08Ev, x *c08Run) {
	x = newC08(prelude)
	for i, c := range path {
		m := x.menu(single)
		if c >= len(m) {
			return 0, nil, evs, x
		}
		evs = append(evs, m[c])
		vv := x.apply(m[c])
		if vv != nil {
			if i == len(path)-1 {
				return 0, vv, evs, x
			}
			return 0, nil, evs, x
		}
		if x.r.dead {
			return 0, nil, evs, x
		}
	}
	return len(x.menu(single)), nil, evs, x
}

func runC08(c *fw.Ctx) {
	thorough := c.Tier == "thorough"
	type cfg struct {
		prelude string
		single  bool
		depth   int
		seg     int // the same frames with the transport cutting the octets differently (harness.SegMode)
	}
	cfgs := []cfg{{"none", false, 3, 0}, {"completed", false, 3, 0}, {"none", true, 5, 0}, {"peer-reset", false, 2, 0}, {"slots-taken", false, 2, 0}, {"none", false, 2, 2}, {"none", false, 2, 3}, {"none", true, 3, 1}}
	if thorough {
		cfgs = []cfg{{"none", false, 4, 0}, {"completed", false, 4, 0}, {"peer-reset", false, 3, 0}, {"none", true, 7, 0}, {"slots-taken", false, 3, 0}, {"none", false, 3, 2}, {"none", false, 3, 3}, {"none", true, 4, 1}, {"completed", false, 2, 1}}
	}
	sampled := 0
	for _, cf := range cfgs {
		bkey := fmt.Sprintf("depth prelude=%s single=%v", cf.prelude, cf.single)
		if cf.seg != 0 {
			if vsched.DefaultPolicy != 0 {
				continue
			}
			bkey += fmt.Sprintf(" segmentation-mode=%d", cf.seg)
		}
		c.Bound[bkey] = cf.depth
		done := harness.Explore(c, "C08 "+cf.prelude, cf.depth, 2, func(path []int) int {
			harness.SegMode = cf.seg
			menu, v, evs, x := c08Exec(cf.prelude, cf.single, path)
			harness.SegMode = 0
			defer x.h.Close()
			if len(path) > 0 {
				key := uint64(0)
				if x.r.nstreams >= 2 || len(path) >= 2 {
					key = fw.Hash(cf.prelude, cf.single, cf.seg, fmt.Sprint(evs))
				}
				c.Eval(key)
				c.AddTransitions(1)
				c.AddTraces(1)
				c.State(fw.Hash(x.h.Digest()))
				if v != nil {
					v.Replay = map[string]any{"family": "c08", "case": c08Case{cf.prelude, cf.single, append([]int{}, path...), evs, cf.seg}}
					c.Violate(*v)
					c.Outcome(v.Rule)
				} else if len(x.trace) > 0 {
					last := x.trace[len(x.trace)-1]
					if i := strings.LastIndex(last, "-> "); i >= 0 {
						c.Outcome(classOnly(last[i+3:]))
					}
				}
				if sampled < 4 && len(path) == cf.depth && x.r.nstreams >= 2 {
					sampled++
					c.Sample(map[string]any{"prelude": cf.prelude, "trace": x.trace})
				}
			}
			return menu
		})
		if !done {
			c.Bound[bkey] = fmt.Sprintf("%d (time budget reached before the space was covered)", cf.depth)
		}
	}
}

func classOnly(s string) string {
	var out []string
	for _, p := range strings.Split(s, "+") {
		if i := strings.IndexByte(p, '['); i >= 0 {
			if j := strings.IndexByte(p, ']'); j > i {
				p = p[:i] + p[j+1:]
			}
		}
		out = append(out, p)
	}
	return strings.Join(out, "+")
}

func replayC08(raw json.RawMessage) (string, bool) {
	var r struct {
		Case c08Case `json:"case"`
	}
	if err := json.Unmarshal(raw, &r); err != nil {
		return err.Error(), false
	}
	harness.SegMode = r.Case.Seg
	_, v, _, x := c08Exec(r.Case.Prelude, r.Case.Single, r.Case.Path)
	harness.SegMode = 0
	defer x.h.Close()
	if v != nil {
		return v.Rule + " [" + v.Shape + "]: " + v.Detail, true
	}
	return "reactions allowed by RFC 7540: " + strings.Join(x.trace, " ; "), false
}
