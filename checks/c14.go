package checks

import (
	"encoding/json"
	"fmt"
	"os"
	"strings"

	"verif/fw"
	"verif/harness"
	"verif/peer"
	"verif/ref"
)

// C14 — receivers hand flow-control credit back so a conforming sender never
// starves. Server half here (uploads); the client half (downloads) is in
// c14client.go.

func init() {
	fw.Register(&fw.Check{
		ID: "C14", Level: "model_checking",
		Rule:   "ELX with a conforming sender model (sends a DATA frame only when its ledger allows, blocks exactly when a window is exhausted): upload patterns = leak classes {accepted uploads on 1-3 interleaved streams, bodies over MaxRequestBodySize (stream error), content-length mismatch, peer reset mid-body, refused streams with DATA in flight, DATA in flight after the server's reset, padded frames incl. padding-only frames, empty DATA frames} x chunk sizes {1, 1000, 16384} x padding {none, 1, 255}; each pattern is repeated until the volume sent exceeds twice the connection window the receiver advertised (deterministic; the classes are enumerated, the volume is not). Client half: the mirrored download patterns against the real client. Oracle: every WINDOW_UPDATE increment > 0, no window above 2^31-1, and at no quiescent state is the sender blocked on a window. Non-trivial: every pattern (volume > connection window); distinct by pattern.",
		Assume: []string{"the sender model stops sending on a stream once it has seen RST_STREAM for it, after flushing the frames already 'in flight'", "canonical internal schedule between events"},
		Run:    runC14, Replay: replayC14, Policies: 1, QuickS: 120, ThoroughS: 600,
	})
}

type c14Case struct {
	Class   string `json:"class"`
	Chunk   int    `json:"chunk"`
	Pad     int    `json:"pad"` // -1 none
	Streams int    `json:"streams"`
}

var c14Classes = []string{"accepted", "oversized-body", "length-mismatch", "peer-reset-mid-body", "refused", "inflight-after-server-reset", "padding-only", "empty-data", "inflight-after-server-timeout", "one-long-upload", "one-long-upload-big-peer-window"}

// sender is the conforming peer's send-side flow control.
type sender struct {
	h       *harness.Server
	conn    int64
	init    int64
	strm    map[uint32]int64
	wuSeen  int
	sent    int64
	maxConn int64
	peak    int64
}

func (s *sender) absorb() (string, string) {
	h := s.h
	for ; s.wuSeen < len(h.WindowUps); s.wuSeen++ {
		w := h.WindowUps[s.wuSeen]
		if w.Inc == 0 {
			return "zero-increment", fmt.Sprintf("WINDOW_UPDATE with increment 0 on stream %d", w.Stream)
		}
		if w.Stream == 0 {
			if os.Getenv("C14_DEBUG") != "" {
				fmt.Printf("conn WU +%d at sent=%d window before=%d\n", w.Inc, s.sent, s.conn)
			}
			s.conn += int64(w.Inc)
			if s.conn > 1<<31-1 {
				return "window-above-maximum connection", fmt.Sprintf("connection window pushed to %d", s.conn)
			}
			if s.conn > s.maxConn {
				s.maxConn = s.conn
			}
			// credit that is handed back in full brings the window back to where it
			// was after the previous refill; a peak that sinks is credit leaking
			if s.peak != 0 && s.conn < s.peak {
				return "credit-leak connection", fmt.Sprintf("after WINDOW_UPDATE(+%d) the connection window is %d; after the previous refill it was %d: %d bytes of received DATA were never credited back (total sent %d)", w.Inc, s.conn, s.peak, s.peak-s.conn, s.sent)
			}
			s.peak = s.conn
		} else if _, ok := s.strm[w.Stream]; ok {
			s.strm[w.Stream] += int64(w.Inc)
			if s.strm[w.Stream] > 1<<31-1 {
				return "window-above-maximum stream", fmt.Sprintf("stream %d window pushed to %d", w.Stream, s.strm[w.Stream])
			}
		}
	}
	return "", ""
}

// send transmits a DATA frame if the windows allow; otherwise reports starvation.
func (s *sender) send(id uint32, data []byte, es bool, pad int) (string, string) {
	n := int64(len(data))
	if pad >= 0 {
		n += int64(pad) + 1
	}
	if r, d := s.absorb(); r != "" {
		return r, d
	}
	if os.Getenv("C14_DEBUG") != "" && n > 0 && (s.conn < n || s.strm[id] < n) {
		nr := 0
		for _, so := range s.h.Streams {
			nr += len(so.Rst)
		}
		fmt.Printf("starved: streams=%d rsts=%d calls=%d goaways=%d log=%v\n", len(s.h.Streams), nr, len(s.h.Calls), len(s.h.GoAways), s.h.Log)
		var sw, cw int64
		var lastS uint32
		for _, w := range s.h.WindowUps {
			if w.Stream == 0 {
				cw += int64(w.Inc)
			} else {
				sw += int64(w.Inc)
				lastS = w.Stream
			}
		}
		fmt.Printf("stream WU total=%d last stream with WU=%d conn WU total=%d sent=%d live=%v\n", sw, lastS, cw, s.sent, s.h.S.Live())
	}
	if n > 0 && (s.conn < n || s.strm[id] < n) {
		which := "connection"
		if s.strm[id] < n && s.conn >= n {
			which = "stream"
		}
		return "sender-starved " + which, fmt.Sprintf("sender wants to send %d flow-controlled bytes on stream %d: connection window %d, stream window %d, and the receiver is quiescent (total sent %d)", n, id, s.conn, s.strm[id], s.sent)
	}
	s.conn -= n
	s.strm[id] -= n
	s.sent += n
	s.h.SendFrames(peer.Data(id, data, es, pad))
	return "", ""
}

func c14Exec(cs c14Case) (*fw.Violation, *harness.Server, int64) {
	const maxBody = 64 << 10
	so := harness.ServerOpts{MaxConcurrentStreams: 4, MaxRequestBodySize: maxBody}
	if cs.Class == "inflight-after-server-timeout" {
		so.ReadTimeout = 1000000000
	}
	if strings.HasPrefix(cs.Class, "one-long-upload") {
		// one stream carries more than the whole receive window the server advertises (4 MiB)
		so.MaxRequestBodySize = 16 << 20
		if cs.Class == "one-long-upload-big-peer-window" {
			// the peer's own SETTINGS_INITIAL_WINDOW_SIZE is about the server's SEND windows: it must not influence
			// when receive credit is handed back
			so.PeerSettings = []peer.Setting{{ID: peer.SInitialWindowSize, Val: 32 << 20}}
		}
	}
	h := harness.NewServer(so)
	mk := func(rule, detail string) *fw.Violation {
		ev := h.EventLog
		if len(ev) > 12 {
			ev = append([]string{fmt.Sprintf("…%d earlier events…", len(ev)-12)}, ev[len(ev)-12:]...)
		}
		parts := strings.SplitN(rule, " ", 2)
		shape := cs.Class
		if len(parts) > 1 {
			shape += " " + parts[1]
		}
		if cs.Pad >= 0 {
			shape += " padded"
		}
		return &fw.Violation{Rule: parts[0], Shape: shape, Detail: detail + "\n    last events: " + strings.Join(ev, " ; "), Replay: map[string]any{"family": "c14", "case": cs}}
	}
	// what the server advertised
	s := &sender{h: h, conn: 65535, init: 65535, strm: map[uint32]int64{}}
	for _, st := range h.Settings {
		for _, p := range st {
			if p.ID == peer.SInitialWindowSize {
				s.init = int64(p.Val)
			}
		}
	}
	if r, d := s.absorb(); r != "" {
		return mk(r, d), h, 0
	}
	target := 2 * s.conn
	if target < 1<<20 {
		target = 1 << 20
	}
	id := uint32(1)
	chunk := []byte(valOfLen(cs.Chunk))
	open := func(extra ...ref.Field) uint32 {
		sid := id
		id += 2
		fields := harness.ReqFields("POST", "https", "h", "/up", [2]string{"x-sid", fmt.Sprint(sid)})
		fields = append(fields, extra...)
		h.SendFrames(peer.Headers(sid, staticBlock(fields), peer.HeadersOpt{EndHeaders: true, Pad: -1}))
		s.strm[sid] = s.init
		return sid
	}
	finishAll := func() {
		for _, c := range h.Calls {
			if !c.Returned {
				h.Finish(c.Idx, harness.Resp{Status: 200})
			}
		}
	}
	reset := func(sid uint32) bool { so := h.Streams[sid]; return so != nil && len(so.Rst) > 0 }
	guard := 0
	for s.sent < target {
		guard++
		if guard > 5000 {
			return mk("harness-horizon", "pattern did not reach the target volume"), h, s.sent
		}
		if len(h.GoAways) > 0 || h.C.Closed() {
			return mk("connection-error", "conforming upload traffic ended in "+h.Reaction(0)), h, s.sent
		}
		switch cs.Class {
		case "accepted":
			// interleaved uploads of maxBody/2 bytes on cs.Streams streams
			var ids []uint32
			for i := 0; i < cs.Streams; i++ {
				ids = append(ids, open())
			}
			per := maxBody / 2
			for off := 0; off < per; off += len(chunk) {
				for _, sid := range ids {
					last := off+len(chunk) >= per
					if r, d := s.send(sid, chunk, last, cs.Pad); r != "" {
						return mk(r, d), h, s.sent
					}
				}
			}
			finishAll()
		case "oversized-body":
			sid := open()
			// keep sending until the server resets the stream, then two more frames in flight
			inflight := 2
			for inflight > 0 {
				if reset(sid) {
					inflight--
				}
				if r, d := s.send(sid, chunk, false, cs.Pad); r != "" {
					return mk(r, d), h, s.sent
				}
				if s.sent > 4*target {
					return mk("harness-horizon", "stream with an oversized body was never reset"), h, s.sent
				}
			}
		case "length-mismatch":
			sid := open(ref.Field{Name: "content-length", Value: "3"})
			for i := 0; i < 3; i++ {
				if r, d := s.send(sid, chunk, i == 2, cs.Pad); r != "" {
					return mk(r, d), h, s.sent
				}
			}
		case "peer-reset-mid-body":
			sid := open()
			for i := 0; i < 3; i++ {
				if r, d := s.send(sid, chunk, false, cs.Pad); r != "" {
					return mk(r, d), h, s.sent
				}
			}
			h.SendFrames(peer.RstStream(sid, 8))
		case "refused":
			// four gated streams hold the slots; a fifth is refused with DATA in flight
			var ids []uint32
			for i := 0; i < 4; i++ {
				sid := open()
				ids = append(ids, sid)
				if r, d := s.send(sid, []byte("x"), true, -1); r != "" {
					return mk(r, d), h, s.sent
				}
			}
			for k := 0; k < 8 && s.sent < target; k++ {
				sid := open()
				for i := 0; i < 3; i++ {
					if r, d := s.send(sid, chunk, i == 2, cs.Pad); r != "" {
						return mk(r, d), h, s.sent
					}
				}
			}
			finishAll()
		case "inflight-after-server-reset":
			sid := open(ref.Field{Name: "X-Upper", Value: "v"}) // malformed: reset at once
			for i := 0; i < 3; i++ {
				if r, d := s.send(sid, chunk, i == 2, cs.Pad); r != "" {
					return mk(r, d), h, s.sent
				}
			}
		case "inflight-after-server-timeout":
			// the server gives the upload up when its time is over; three more frames were on their way
			sid := open()
			if r, d := s.send(sid, chunk, false, cs.Pad); r != "" {
				return mk(r, d), h, s.sent
			}
			h.FireTimer()
			for i := 0; i < 3; i++ {
				if r, d := s.send(sid, chunk, i == 2, cs.Pad); r != "" {
					return mk(r, d), h, s.sent
				}
			}
			finishAll()
		case "one-long-upload", "one-long-upload-big-peer-window":
			sid := open()
			const total = 9 << 20
			for sentHere := 0; sentHere < total; sentHere += len(chunk) {
				if r, d := s.send(sid, chunk, sentHere+len(chunk) >= total, cs.Pad); r != "" {
					return mk(r, d), h, s.sent
				}
			}
			finishAll()
		case "padding-only":
			sid := open()
			// more padding on ONE stream than its window holds: it has to come back
			for i := 0; int64(i)*256 < 2*s.init+65536; i++ {
				if r, d := s.send(sid, nil, false, 255); r != "" {
					return mk(r, d), h, s.sent
				}
			}
			if r, d := s.send(sid, []byte("x"), true, cs.Pad); r != "" {
				return mk(r, d), h, s.sent
			}
			finishAll()
		case "empty-data":
			sid := open()
			for i := 0; i < 10; i++ {
				if r, d := s.send(sid, nil, false, -1); r != "" {
					return mk(r, d), h, s.sent
				}
				if r, d := s.send(sid, chunk, false, cs.Pad); r != "" {
					return mk(r, d), h, s.sent
				}
			}
			if r, d := s.send(sid, nil, true, -1); r != "" {
				return mk(r, d), h, s.sent
			}
			finishAll()
		}
	}
	if r, d := s.absorb(); r != "" {
		return mk(r, d), h, s.sent
	}
	if len(h.GoAways) > 0 || h.C.Closed() {
		return mk("connection-error", "conforming upload traffic ended in "+h.Reaction(0)), h, s.sent
	}
	if p := h.Panicked(); len(p) > 0 {
		return mk("server-panic", strings.Join(p, "; ")), h, s.sent
	}
	return nil, h, s.sent
}

func runC14(c *fw.Ctx) {
	thorough := c.Tier == "thorough"
	var item int64
	chunks := []int{1000, 16384}
	pads := []int{-1, 255}
	if thorough {
		chunks = []int{1, 1000, 16383, 16384}
		pads = []int{-1, 0, 1, 255}
	}
	sampled := 0
	for _, cl := range c14Classes {
		for _, ch := range chunks {
			for _, pad := range pads {
				for _, ns := range []int{1, 3} {
					if cl != "accepted" && ns != 1 {
						continue
					}
					if ch == 1 && (pad != 255 || (cl != "accepted" && cl != "empty-data")) {
						continue // one-byte chunks only with padding (volume per frame stays useful)
					}
					if pad >= 0 && ch+pad+1 > 16384 {
						continue
					}
					if strings.HasPrefix(cl, "one-long-upload") && ch < 16384 {
						continue // 9 MiB in small chunks is only volume
					}
					if item++; !c.Mine(item) {
						continue
					}
					if c.Expired("C14 server") {
						return
					}
					cs := c14Case{Class: cl, Chunk: ch, Pad: pad, Streams: ns}
					v, h, sent := c14Exec(cs)
					js, _ := json.Marshal(cs)
					c.Eval(nt(true, js))
					c.AddTransitions(int64(h.Events))
					c.AddTraces(1)
					c.State(fw.Hash("c14", cs, sent))
					if v != nil {
						c.Violate(*v)
						c.Outcome(v.Rule)
					} else {
						c.Outcome("never-starved:" + cs.Class)
					}
					if sampled < 3 {
						sampled++
						c.Sample(map[string]any{"case": cs, "bytes_sent": sent, "events": h.Events})
					}
					h.Close()
				}
			}
		}
	}
	c.Family("server-receiver")
	runC14Client(c)
}

func replayC14(raw json.RawMessage) (string, bool) {
	var r struct {
		Family string          `json:"family"`
		Case   json.RawMessage `json:"case"`
	}
	if err := json.Unmarshal(raw, &r); err != nil {
		return err.Error(), false
	}
	if r.Family == "c14client" {
		return replayC14Client(r.Case)
	}
	var cs c14Case
	json.Unmarshal(r.Case, &cs)
	v, h, sent := c14Exec(cs)
	defer h.Close()
	if v != nil {
		return v.Rule + " [" + v.Shape + "]: " + v.Detail, true
	}
	return fmt.Sprintf("sender never starved over %d bytes", sent), false
}

var (
	runC14Client    func(c *fw.Ctx)
	replayC14Client func(raw json.RawMessage) (string, bool)
)
