package checks

import (
	"encoding/json"
	"fmt"

	http2 "github.com/dgrr/http2"
	"golang.org/x/net/http2/hpack"

	"verif/fw"
	"verif/ref"
)

// C03, family "limit-change": the owner of a decoder changes the limit it advertises (SETTINGS_HEADER_TABLE_SIZE)
// in the middle of a connection. A first block brings the table size to X by a size update (and inserts a field),
// the owner then sets the limit to Y, a second block starts with a size update to Z and refers to the field.
// RFC 7541 6.3: Z is acceptable if and only if Z <= Y, whatever X was. Compared with the x/net decoder driven the
// same way. Only Y >= X is used (for Y < X the encoder owes an update first, which is C04's half).

type c03LimitCase struct {
	X, Y, Z int
	Mode    string `json:"mode"`
}

func c03LimitEval(cs c03LimitCase) *fw.Violation {
	mk := func(rule, shape, detail string) *fw.Violation {
		return &fw.Violation{Rule: rule, Shape: shape + " mode=" + cs.Mode, Detail: detail + fmt.Sprintf(" [first block: size update %d + one literal; limit then set to %d; second block: size update %d + reference]", cs.X, cs.Y, cs.Z), Replay: map[string]any{"family": "c03limit", "case": cs}}
	}
	first := ref.EncInt(nil, 0x20, 5, uint64(cs.X))
	first = append(first, 0x40, 0x01, 'k', 0x01, 'v') // literal with incremental indexing k: v (34 octets)
	second := ref.EncInt(nil, 0x20, 5, uint64(cs.Z))
	second = append(second, 0x82) // :method GET, from the static table

	x := hpack.NewDecoder(4096, nil)
	if _, err := x.DecodeFull(first); err != nil {
		return nil
	}
	x.SetAllowedMaxDynamicTableSize(uint32(cs.Y))
	_, xerr := x.DecodeFull(second)
	wantOK := cs.Z <= cs.Y
	if (xerr == nil) != wantOK {
		return mk("reference-disagrees", "harness", fmt.Sprintf("x/net decoder: %v, expected acceptance %v", xerr, wantOK))
	}

	hp := newImplDecoder(4096)
	defer http2.ReleaseHPACK(hp)
	if _, err, pan := implDecodeBlock(hp, first, cs.Mode); err != nil || pan != nil {
		return mk("rejects-valid-block", "limit-change first block", fmt.Sprintf("first block refused: %v %v", err, pan))
	}
	hp.SetMaxTableSize(uint32(cs.Y))
	_, err, pan := implDecodeBlock(hp, second, cs.Mode)
	if pan != nil {
		return mk("decoder-panic", "limit-change", fmt.Sprint(pan))
	}
	if wantOK && err != nil {
		return mk("rejects-valid-block", "limit-change size update within the new limit", fmt.Sprintf("size update to %d with the limit at %d was refused: %v", cs.Z, cs.Y, err))
	}
	if !wantOK && err == nil {
		return mk("accepts-invalid-block", "limit-change size update above the new limit", fmt.Sprintf("size update to %d was accepted although the advertised limit is %d", cs.Z, cs.Y))
	}
	return nil
}

func runC03Limit(c *fw.Ctx) {
	vals := []int{0, 33, 34, 64, 100, 4096}
	n := 0
	for _, x := range vals {
		for _, y := range append(vals, 5000, 65536) {
			if y < x {
				continue
			}
			for _, z := range []int{0, x, x + 1, y - 1, y, y + 1, 4096, 4097, 70000} {
				if z < 0 {
					continue
				}
				for _, mode := range []string{"next", "server"} {
					n++
					if !c.Mine(int64(1)<<43 + int64(n)) {
						continue
					}
					cs := c03LimitCase{X: x, Y: y, Z: z, Mode: mode}
					js, _ := json.Marshal(cs)
					c.Eval(nt(true, append([]byte("limit"), js...)))
					c.AddTransitions(2)
					if v := c03LimitEval(cs); v != nil {
						c.Violate(*v)
						c.Outcome(v.Rule)
					} else if z <= y {
						c.Outcome("accept")
					} else {
						c.Outcome("reject(size update above limit)")
					}
				}
			}
		}
	}
	c.Family("limit-change")
}
