package checks

import (
	"encoding/json"
	"fmt"
	"os"
	"runtime"
	"strings"

	"verif/fw"
	"verif/harness"
	"verif/peer"
	"verif/ref"
)

// C10 — GOAWAY tells the truth and connection errors end the connection.

func init() {
	fw.Register(&fw.Check{
		ID: "C10", Level: "model_checking",
		Rule:   "ELX: catalogue of connection-scoped offences (wrong sizes of PING/SETTINGS/RST_STREAM/WINDOW_UPDATE, oversized frame, CONTINUATION sequencing, PING/SETTINGS on a stream, invalid SETTINGS values, connection window overflow and zero increment, HPACK errors, HEADERS on an even id, DATA on an idle id) x requests dispatched before it {0,1,2} x their handlers {returned, still running} x trailing traffic {nothing, one more request, 140 PINGs, request + 140 PINGs, a half-sent frame} x peer {stays silent, closes, stopped reading before the offence} x handlers returning afterwards; plus idle-timeout shutdown at every point of a request's life. Oracle: GOAWAY (or close) at the offence with a code RFC 7540 allows; every GOAWAY's last-stream-id >= highest stream id ever dispatched; nothing dispatched after a GOAWAY on an id above its last-stream-id and no stream opened after a connection error; once the handlers have returned and the armed (virtual) timers have fired, ServeConn has returned and only handler goroutines are left. Non-trivial: every scenario; distinct by scenario.",
		Assume: []string{"'bounded time' means: after the handlers the GOAWAY promised have returned and every armed virtual timer has fired", "canonical internal schedule between events; the timer-vs-request races are additionally explored with preemptions in C19"},
		Run:    runC10, Replay: replayC10, Policies: 1, QuickS: 120, ThoroughS: 600,
	})
}

type c10Offence struct {
	Name  string
	Codes []uint32
	Make  func(x *c10Run) []byte
}

const (
	cFRAMESIZE = 6
	cCOMPRESS  = 9
	cCALM      = 11
)

func raw(f peer.Frame) []byte { return f.Bytes() }

var c10Offences = []c10Offence{
	{"ping-size-7", []uint32{cFRAMESIZE}, func(x *c10Run) []byte { return raw(peer.Frame{Type: peer.TPing, Payload: make([]byte, 7)}) }},
	{"settings-size-5", []uint32{cFRAMESIZE}, func(x *c10Run) []byte { return raw(peer.Frame{Type: peer.TSettings, Payload: make([]byte, 5)}) }},
	{"settings-ack-with-payload", []uint32{cFRAMESIZE}, func(x *c10Run) []byte {
		return raw(peer.Frame{Type: peer.TSettings, Flags: peer.FAck, Payload: make([]byte, 6)})
	}},
	{"rst-stream-size-5", []uint32{cFRAMESIZE}, func(x *c10Run) []byte {
		return raw(peer.Frame{Type: peer.TRstStream, Stream: x.anyStream(), Payload: make([]byte, 5)})
	}},
	{"window-update-size-3", []uint32{cFRAMESIZE}, func(x *c10Run) []byte {
		return raw(peer.Frame{Type: peer.TWindowUpdate, Payload: make([]byte, 3)})
	}},
	{"priority-size-4", []uint32{cFRAMESIZE}, func(x *c10Run) []byte {
		return raw(peer.Frame{Type: peer.TPriority, Stream: x.anyStream(), Payload: make([]byte, 4)})
	}},
	{"frame-above-max-size", []uint32{cFRAMESIZE}, func(x *c10Run) []byte {
		return raw(peer.Frame{Type: peer.TData, Stream: x.anyStream(), Payload: make([]byte, 16385)})
	}},
	{"unknown-type-frame-above-max-size", []uint32{cFRAMESIZE}, func(x *c10Run) []byte {
		return raw(peer.Frame{Type: 0x1f, Payload: make([]byte, 16385)})
	}},
	{"continuation-without-headers", []uint32{cPROTOCOL}, func(x *c10Run) []byte { return raw(peer.Continuation(x.anyStream(), nil, true)) }},
	{"frame-inside-header-block", []uint32{cPROTOCOL}, func(x *c10Run) []byte {
		id := x.newID()
		b := raw(peer.Headers(id, reqBlock(id, "POST")[:3], peer.HeadersOpt{Pad: -1}))
		return append(b, raw(peer.Ping(false, [8]byte{}))...)
	}},
	{"ping-on-stream", []uint32{cPROTOCOL}, func(x *c10Run) []byte {
		return raw(peer.Frame{Type: peer.TPing, Stream: x.anyStream(), Payload: make([]byte, 8)})
	}},
	{"settings-on-stream", []uint32{cPROTOCOL}, func(x *c10Run) []byte { return raw(peer.Frame{Type: peer.TSettings, Stream: x.anyStream()}) }},
	{"settings-enable-push-2", []uint32{cPROTOCOL}, func(x *c10Run) []byte { return raw(peer.Settings(peer.Setting{ID: peer.SEnablePush, Val: 2})) }},
	{"settings-initial-window-2^31", []uint32{cFLOW}, func(x *c10Run) []byte {
		return raw(peer.Settings(peer.Setting{ID: peer.SInitialWindowSize, Val: 1 << 31}))
	}},
	{"settings-max-frame-size-100", []uint32{cPROTOCOL}, func(x *c10Run) []byte { return raw(peer.Settings(peer.Setting{ID: peer.SMaxFrameSize, Val: 100})) }},
	{"connection-window-overflow", []uint32{cFLOW}, func(x *c10Run) []byte { return raw(peer.WindowUpdate(0, 1<<31-1)) }},
	{"connection-window-update-0", []uint32{cPROTOCOL}, func(x *c10Run) []byte { return raw(peer.WindowUpdate(0, 0)) }},
	{"hpack-index-0", []uint32{cCOMPRESS}, func(x *c10Run) []byte {
		return raw(peer.Headers(x.newID(), []byte{0x80}, peer.HeadersOpt{EndStream: true, EndHeaders: true, Pad: -1}))
	}},
	{"hpack-index-past-table", []uint32{cCOMPRESS}, func(x *c10Run) []byte {
		return raw(peer.Headers(x.newID(), []byte{0xff, 0x7f}, peer.HeadersOpt{EndStream: true, EndHeaders: true, Pad: -1}))
	}},
	{"hpack-truncated-block", []uint32{cCOMPRESS}, func(x *c10Run) []byte {
		return raw(peer.Headers(x.newID(), []byte{0x82, 0x40, 0x05, 'a'}, peer.HeadersOpt{EndStream: true, EndHeaders: true, Pad: -1}))
	}},
	{"headers-on-even-id", []uint32{cPROTOCOL}, func(x *c10Run) []byte {
		return raw(peer.Headers(2, reqBlock(2, "GET"), peer.HeadersOpt{EndStream: true, EndHeaders: true, Pad: -1}))
	}},
	{"data-on-idle-id", []uint32{cPROTOCOL}, func(x *c10Run) []byte { return raw(peer.Data(x.next+20, []byte("x"), false, -1)) }},
	{"rst-stream-on-idle-id", []uint32{cPROTOCOL}, func(x *c10Run) []byte { return raw(peer.RstStream(x.next+20, 8)) }},
	{"window-update-on-idle-id", []uint32{cPROTOCOL}, func(x *c10Run) []byte { return raw(peer.WindowUpdate(x.next+20, 5)) }},
	{"continuation-on-idle-id", []uint32{cPROTOCOL}, func(x *c10Run) []byte { return raw(peer.Continuation(x.next+20, []byte{0x82}, true)) }},
	{"data-on-closed-stream", []uint32{cCLOSED}, func(x *c10Run) []byte {
		if x.closedID == 0 {
			return nil
		}
		return raw(peer.Data(x.closedID, []byte("x"), false, -1))
	}},
	{"headers-on-closed-stream", []uint32{cCLOSED, cPROTOCOL}, func(x *c10Run) []byte {
		if x.closedID == 0 {
			return nil
		}
		return raw(peer.Headers(x.closedID, reqBlock(x.closedID, "GET"), peer.HeadersOpt{EndStream: true, EndHeaders: true, Pad: -1}))
	}},
	{"data-on-half-closed-stream", []uint32{cCLOSED}, func(x *c10Run) []byte {
		if x.runningID == 0 {
			return nil
		}
		return raw(peer.Data(x.runningID, []byte("x"), false, -1))
	}},
	{"headers-on-lower-id", []uint32{cPROTOCOL, cCLOSED}, func(x *c10Run) []byte {
		x.newID()
		skipped := x.newID() - 2
		b := raw(peer.Headers(skipped+2, reqBlock(skipped+2, "GET"), peer.HeadersOpt{EndStream: true, EndHeaders: true, Pad: -1}))
		x.dispatchedHere++
		return append(b, raw(peer.Headers(skipped, reqBlock(skipped, "GET"), peer.HeadersOpt{EndStream: true, EndHeaders: true, Pad: -1}))...)
	}},
}

type c10Case struct {
	Offence  string `json:"offence"`
	Before   int    `json:"requests_before"`
	Running  bool   `json:"handlers_running"`
	Trailing string `json:"trailing"`
	Peer     string `json:"peer"` // silent | closes | not-reading
	// ResetLatest: before the offence the peer resets the stream it opened last (whose handler is running, or has
	// returned with its response held up by flow control, or is done)
	ResetLatest bool `json:"peer_resets_latest_stream_first,omitempty"`
	Lead        int  `json:"lead,omitempty"` // well-formed requests in the same segment, in front of the offending frame
	// Blocked: the last request before the offence has been answered with more than the connection window holds, so
	// its response is half sent when the error is raised; with Trailing "grant" the peer opens the window afterwards
	Blocked bool `json:"response_flow_blocked,omitempty"`
}

type c10Run struct {
	h              *harness.Server
	next           uint32
	opened         []uint32
	dispatchedHere int
	closedID       uint32 // a stream that ended normally before the offence
	runningID      uint32 // a stream whose handler is still running (half-closed remote)
}

func (x *c10Run) newID() uint32 {
	id := x.next
	x.next += 2
	return id
}

func (x *c10Run) anyStream() uint32 {
	if len(x.opened) > 0 {
		return x.opened[len(x.opened)-1]
	}
	return 1
}

func c10Exec(cs c10Case) (*fw.Violation, *harness.Server) {
	var off *c10Offence
	for i := range c10Offences {
		if c10Offences[i].Name == cs.Offence {
			off = &c10Offences[i]
		}
	}
	so := harness.ServerOpts{MaxConcurrentStreams: 8}
	if cs.Blocked {
		so.PeerSettings = []peer.Setting{{ID: peer.SInitialWindowSize, Val: 1 << 20}} // only the connection window binds
	}
	if cs.Trailing == "request-timeout" {
		so.ReadTimeout = 1000000000
	}
	h := harness.NewServer(so)
	x := &c10Run{h: h, next: 1}
	mk := func(rule, shape, detail string) *fw.Violation {
		ev := h.EventLog
		if len(ev) > 14 {
			ev = append(append([]string{}, ev[:8]...), append([]string{fmt.Sprintf("…%d events…", len(ev)-14)}, ev[len(ev)-6:]...)...)
		}
		return &fw.Violation{Rule: rule, Shape: shape, Detail: detail + "\n    events: " + strings.Join(ev, " ; ") + fmt.Sprintf("\n    live goroutines: %v", h.S.Live()), Replay: map[string]any{"family": "c10", "case": cs}}
	}
	for i := 0; i < cs.Before; i++ {
		id := x.newID()
		x.opened = append(x.opened, id)
		h.SendFrames(peer.Headers(id, reqBlock(id, "GET"), peer.HeadersOpt{EndStream: true, EndHeaders: true, Pad: -1}))
		if cs.Blocked && i == cs.Before-1 {
			h.Finish(len(h.Calls)-1, harness.Resp{Status: 200, Body: []byte(valOfLen(70000))})
		} else if !cs.Running {
			h.Finish(len(h.Calls)-1, harness.Resp{Status: 200, Body: []byte("ok")})
			x.closedID = id
		} else {
			x.runningID = id
		}
	}
	if cs.Peer == "not-reading" {
		h.C.TakeAll()
		h.C.SetOutCapacity(1) // the peer has stopped reading: every further write blocks
	}
	if cs.ResetLatest && len(x.opened) > 0 {
		h.SendFrames(peer.RstStream(x.opened[len(x.opened)-1], 8))
	}
	callsBefore := len(h.Calls)
	goBefore := len(h.GoAways)
	// requests the peer wrote right before the offending frame: the read loop has
	// them forwarded (or not) when it meets the offence, the stream loop may lag
	var lead []byte
	for i := 0; i < cs.Lead; i++ {
		id := x.newID()
		x.opened = append(x.opened, id)
		lead = peer.Headers(id, reqBlock(id, "GET"), peer.HeadersOpt{EndStream: true, EndHeaders: true, Pad: -1}).Append(lead)
	}
	ob := off.Make(x)
	if ob == nil {
		return nil, h // the offence needs a history this case does not have
	}
	ob = append(lead, ob...)
	if strings.HasSuffix(cs.Trailing, "-same-segment") {
		// the peer's next frames are already in the socket buffer behind the offending one
		for i := 0; i < 140; i++ {
			if strings.HasPrefix(cs.Trailing, "data") {
				ob = peer.Data(x.anyStream(), []byte("x"), false, -1).Append(ob)
			} else if strings.HasPrefix(cs.Trailing, "window-updates") {
				ob = peer.WindowUpdate(0, 1).Append(ob)
			} else if strings.HasPrefix(cs.Trailing, "settings") {
				ob = peer.Settings(peer.Setting{ID: peer.SInitialWindowSize, Val: uint32(1000 + i)}).Append(ob)
			} else {
				id := x.newID()
				ob = peer.Headers(id, reqBlock(id, "GET"), peer.HeadersOpt{EndStream: true, EndHeaders: true, Pad: -1}).Append(ob)
			}
		}
	}
	h.Send(ob)
	shape := cs.Offence
	if cs.Peer != "not-reading" {
		if len(h.GoAways) == goBefore && !h.C.Closed() {
			return mk("connection-error-not-raised", shape, fmt.Sprintf("offence %q: neither GOAWAY nor close (reaction %s)", cs.Offence, h.Reaction(0))), h
		}
		if len(h.GoAways) > goBefore {
			code := h.GoAways[goBefore].Code
			ok := false
			for _, c := range off.Codes {
				ok = ok || c == code
			}
			if !ok {
				var names []string
				for _, c := range off.Codes {
					names = append(names, peer.CodeName(c))
				}
				return mk("goaway-code-not-allowed", shape+" -> "+peer.CodeName(code), fmt.Sprintf("offence %q answered with GOAWAY(%s); RFC 7540 allows %v", cs.Offence, peer.CodeName(code), names)), h
			}
		}
	}
	afterOffence := len(h.Calls)
	// trailing traffic from a peer that has not noticed yet
	trail := func() {
		switch cs.Trailing {
		case "request":
			id := x.newID()
			h.SendFrames(peer.Headers(id, reqBlock(id, "GET"), peer.HeadersOpt{EndStream: true, EndHeaders: true, Pad: -1}))
		case "pings":
			for i := 0; i < 140 && !h.Returned; i++ {
				h.SendFrames(peer.Ping(false, [8]byte{byte(i)}))
			}
		case "request+pings":
			id := x.newID()
			h.SendFrames(peer.Headers(id, reqBlock(id, "GET"), peer.HeadersOpt{EndStream: true, EndHeaders: true, Pad: -1}))
			for i := 0; i < 140 && !h.Returned; i++ {
				h.SendFrames(peer.Ping(false, [8]byte{byte(i)}))
			}
		case "data-flood":
			id := x.anyStream()
			for i := 0; i < 140 && !h.Returned; i++ {
				h.SendFrames(peer.Data(id, []byte("x"), false, -1))
			}
		case "half-frame":
			h.Send(peer.RawHeader(100, peer.TData, 0, x.anyStream()))
		case "request-timeout":
			// the server itself gives up the requests it promised to finish (ReadTimeout), the peer stays silent
			h.FireTimer()
		case "grant":
			// the peer opens the connection window: what was promised can now be finished
			h.SendFrames(peer.WindowUpdate(0, 100000))
		case "rst-running":
			// the peer gives up the requests whose handlers are still running (it has not seen the GOAWAY yet,
			// or does not care), then stays connected and silent
			for _, c := range h.Calls {
				if !c.Returned && c.Stream != 0 && !h.Returned {
					h.SendFrames(peer.RstStream(c.Stream, 8))
				}
			}
		}
	}
	trail()
	if cs.Peer == "closes" {
		h.PeerClose()
	}
	// the handlers that were running return now
	for _, c := range h.Calls {
		if !c.Returned {
			h.Finish(c.Idx, harness.Resp{Status: 200, Body: []byte("late")})
		}
	}
	h.Drain(8)
	// (b) GOAWAY tells the truth
	highest := uint32(0)
	for _, c := range h.Calls {
		if c.Stream > highest {
			highest = c.Stream
		}
	}
	for _, g := range h.GoAways {
		if g.Last < highest {
			return mk("goaway-last-stream-id-too-small", fmt.Sprintf("before=%d running=%v", min(cs.Before, 1), cs.Running), fmt.Sprintf("GOAWAY(last-stream-id=%d, %s) but a request on stream %d was handed to a handler: a client would replay it", g.Last, peer.CodeName(g.Code), highest)), h
		}
	}
	// (c) nothing new is dispatched after the connection error
	if len(h.Calls) > afterOffence {
		return mk("dispatch-after-connection-error", shape+" trailing="+cs.Trailing, fmt.Sprintf("%d requests were dispatched after the connection error", len(h.Calls)-afterOffence)), h
	}
	_ = callsBefore
	// (d) the connection handler returns -- once what was promised has finished: a response that is waiting for
	// a connection window the peer never opens has not finished, and the property asks for nothing then
	if cs.Blocked && cs.Trailing != "grant" && cs.Peer == "silent" {
		return nil, h
	}
	if !h.Returned {
		if os.Getenv("C10_DEBUG") != "" {
			buf := make([]byte, 1<<20)
			fmt.Println(string(buf[:runtime.Stack(buf, true)]))
		}
		return mk("serveconn-does-not-return", fmt.Sprintf("trailing=%s peer=%s running=%v", cs.Trailing, cs.Peer, cs.Running), fmt.Sprintf("after the connection error (%s), with all handlers returned and every armed timer fired, ServeConn has not returned", cs.Offence)), h
	}
	for _, n := range h.S.LiveNames() {
		return mk("goroutine-left-behind", n, fmt.Sprintf("ServeConn returned but goroutine %q is still alive", n)), h
	}
	if p := h.Panicked(); len(p) > 0 {
		return mk("server-panic", shape, strings.Join(p, "; ")), h
	}
	if ev := h.PoolEvents(); len(ev) > 0 {
		return mk("pool-misuse", shape, strings.Join(ev, "; ")), h
	}
	return nil, h
}

// c10Idle: the idle timer fires at every point of a request's life.
type c10IdleCase struct {
	Point int `json:"fire_after_event"`
}

func c10IdleExec(cs c10IdleCase) (*fw.Violation, *harness.Server) {
	h := harness.NewServer(harness.ServerOpts{MaxConcurrentStreams: 8, IdleTimeout: 1000000000})
	mk := func(rule, shape, detail string) *fw.Violation {
		return &fw.Violation{Rule: rule, Shape: shape, Detail: detail + "\n    events: " + strings.Join(h.EventLog, " ; ") + fmt.Sprintf("\n    live: %v", h.S.Live()), Replay: map[string]any{"family": "c10idle", "case": cs}}
	}
	fields := harness.ReqFields("POST", "https", "h", "/idle", [2]string{"x-sid", "1"})
	steps := []func(){
		func() { h.SendFrames(peer.Headers(1, staticBlock(fields)[:4], peer.HeadersOpt{Pad: -1})) },
		func() { h.SendFrames(peer.Continuation(1, staticBlock(fields)[4:], true)) },
		func() { h.SendFrames(peer.Data(1, []byte("ab"), false, -1)) },
		func() { h.SendFrames(peer.Data(1, []byte("c"), true, -1)) },
		func() {
			if len(h.Calls) > 0 {
				h.Finish(0, harness.Resp{Status: 200, Body: []byte("ok")})
			}
		},
		func() {
			h.SendFrames(peer.Headers(3, reqBlock(3, "GET"), peer.HeadersOpt{EndStream: true, EndHeaders: true, Pad: -1}))
		},
		func() {
			if len(h.Calls) > 1 {
				h.Finish(1, harness.Resp{Status: 200})
			}
		},
	}
	fired := false
	for i, st := range steps {
		if i == cs.Point {
			fired = h.FireTimer()
		}
		if h.Returned {
			break
		}
		st()
	}
	if cs.Point >= len(steps) {
		fired = h.FireTimer()
	}
	for _, c := range h.Calls {
		if !c.Returned {
			h.Finish(c.Idx, harness.Resp{Status: 200})
		}
	}
	h.Drain(8)
	highest := uint32(0)
	for _, c := range h.Calls {
		if c.Stream > highest {
			highest = c.Stream
		}
	}
	for _, g := range h.GoAways {
		if g.Last < highest {
			return mk("goaway-last-stream-id-too-small", "idle-timeout", fmt.Sprintf("idle GOAWAY(last-stream-id=%d) but stream %d was handed to a handler", g.Last, highest)), h
		}
	}
	if p := h.Panicked(); len(p) > 0 {
		return mk("server-panic", "idle-timeout", strings.Join(p, "; ")), h
	}
	if len(h.S.Panics) > 0 {
		return mk("process-would-crash", "idle-timeout", strings.Join(h.S.Panics, "; ")), h
	}
	if fired && len(h.GoAways) > 0 && !h.Returned {
		return mk("serveconn-does-not-return", "idle-timeout", "idle timeout fired, GOAWAY sent, handlers returned, timers drained: ServeConn has not returned"), h
	}
	return nil, h
}

func runC10(c *fw.Ctx) {
	runSpxFamily(c, "C10")
	thorough := c.Tier == "thorough"
	var item int64
	sampled := 0
	trailings := []string{"none", "request", "pings", "half-frame", "rst-running", "request-timeout", "data-same-segment", "requests-same-segment", "window-updates-same-segment", "settings-same-segment"}
	if thorough {
		trailings = []string{"none", "request", "pings", "request+pings", "data-flood", "half-frame", "rst-running", "request-timeout", "data-same-segment", "requests-same-segment", "window-updates-same-segment", "settings-same-segment"}
	}
	for _, off := range c10Offences {
		for before := 0; before <= 2; before++ {
			for _, running := range []bool{false, true} {
				if before == 0 && running {
					continue
				}
				for _, tr := range trailings {
					for _, pr := range []string{"silent", "closes", "not-reading"} {
						for _, lead := range []int{0, 1, 3} {
							if item++; !c.Mine(item) {
								continue
							}
							if c.Expired("C10") {
								return
							}
							cs := c10Case{Offence: off.Name, Before: before, Running: running, Trailing: tr, Peer: pr, Lead: lead}
							v, h := c10Exec(cs)
							js, _ := json.Marshal(cs)
							c.Eval(nt(true, js))
							c.AddTransitions(int64(h.Events))
							c.AddTraces(1)
							c.State(fw.Hash(h.Digest()))
							if v != nil {
								c.Violate(*v)
								c.Outcome(v.Rule)
							} else {
								c.Outcome("truthful-and-returns")
							}
							if sampled < 3 && before == 2 && tr == "request" {
								sampled++
								c.Sample(map[string]any{"case": cs, "events": h.EventLog})
							}
							h.Close()
						}
					}
				}
			}
		}
	}
	// a promised response is half sent (connection window used up) when the error is raised
	for _, off := range c10Offences {
		if off.Name == "connection-window-overflow" {
			continue // with the connection window at 0 an increment of 2^31-1 is legal
		}
		for before := 1; before <= 2; before++ {
			for _, tr := range []string{"none", "grant", "request"} {
				for _, pr := range []string{"silent", "closes"} {
					if item++; !c.Mine(item) {
						continue
					}
					cs := c10Case{Offence: off.Name, Before: before, Running: before == 2, Trailing: tr, Peer: pr, Blocked: true}
					v, h := c10Exec(cs)
					js, _ := json.Marshal(cs)
					c.Eval(nt(true, js))
					c.AddTransitions(int64(h.Events))
					c.AddTraces(1)
					c.State(fw.Hash(h.Digest()))
					if v != nil {
						c.Violate(*v)
						c.Outcome(v.Rule)
					} else {
						c.Outcome("truthful-and-returns")
					}
					h.Close()
				}
			}
		}
	}
	c.Family("offences-with-a-flow-blocked-response")
	// the peer resets the stream it opened last, then commits the offence
	for _, off := range c10Offences {
		for before := 1; before <= 2; before++ {
			for _, state := range []string{"blocked", "running", "done"} {
				for _, tr := range []string{"none", "request", "grant"} {
					for _, pr := range []string{"silent", "closes"} {
						if tr == "grant" && state != "blocked" {
							continue
						}
						if item++; !c.Mine(item) {
							continue
						}
						cs := c10Case{Offence: off.Name, Before: before, Running: state == "running" || (state == "blocked" && before == 2), Trailing: tr, Peer: pr, Blocked: state == "blocked", ResetLatest: true}
						if cs.Blocked && off.Name == "connection-window-overflow" {
							continue
						}
						v, h := c10Exec(cs)
						js, _ := json.Marshal(cs)
						c.Eval(nt(true, js))
						c.AddTransitions(int64(h.Events))
						c.AddTraces(1)
						c.State(fw.Hash(h.Digest()))
						if v != nil {
							c.Violate(*v)
							c.Outcome(v.Rule)
						} else {
							c.Outcome("truthful-and-returns")
						}
						h.Close()
					}
				}
			}
		}
	}
	c.Family("peer-resets-latest-stream-then-offends")
	for p := 0; p <= 7; p++ {
		if item++; !c.Mine(item) {
			continue
		}
		cs := c10IdleCase{Point: p}
		v, h := c10IdleExec(cs)
		c.Eval(nt(true, []byte(fmt.Sprint("idle", p))))
		c.AddTransitions(int64(h.Events))
		c.AddTraces(1)
		if v != nil {
			c.Violate(*v)
			c.Outcome(v.Rule)
		} else {
			c.Outcome("idle-ok")
		}
		h.Close()
	}
	c.Family("idle-timeout")
}

func replayC10(raw json.RawMessage) (string, bool) {
	var r struct {
		Family string          `json:"family"`
		Case   json.RawMessage `json:"case"`
	}
	if err := json.Unmarshal(raw, &r); err != nil {
		return err.Error(), false
	}
	var v *fw.Violation
	var h *harness.Server
	if r.Family == "c10idle" {
		var cs c10IdleCase
		json.Unmarshal(r.Case, &cs)
		v, h = c10IdleExec(cs)
	} else {
		var cs c10Case
		json.Unmarshal(r.Case, &cs)
		v, h = c10Exec(cs)
	}
	defer h.Close()
	if v != nil {
		return v.Rule + " [" + v.Shape + "]: " + v.Detail, true
	}
	return "GOAWAY truthful, ServeConn returned: " + strings.Join(h.EventLog, " ; "), false
}

var _ = ref.NewTable
