package checks

import (
	"encoding/json"
	"fmt"
	"sort"
	"strings"

	"verif/fw"
	"verif/harness"
	"verif/peer"
	"verif/ref"
	"verif/vsched"
)

// C01 — every multiplexed request reaches the handler once, intact, and the
// reply reaches the peer intact.

func init() {
	fw.Register(&fw.Check{
		ID: "C01", Level: "model_checking",
		Rule:   "ELX on the real ServeConn: family 'encoding' = one request from a vocabulary, default encoding plus every single deviation (representation x Huffman of each field; every HEADERS/CONTINUATION split offset incl. empty fragments, pairs of offsets in thorough; pad lengths; priority section; every composition of a 3-byte body into <= 3 DATA frames incl. empty and padded ones; END_STREAM on last DATA / empty DATA / trailers); family 'interleave' = 2 (quick) or 3 (thorough) streams of [header block, DATA, DATA+ES] whose later blocks reference dynamic-table entries of earlier ones: every linear extension x every handler completion order x response shapes (no body, buffered small/large, streamed declared/unknown/empty, EOF with last chunk, one byte per read) x 2 preludes. Oracle: handler log == requests sent; frames per stream == handler's response with END_STREAM exactly once. Non-trivial: >= 2 streams or a non-default encoding; distinct by scenario id.",
		Assume: []string{"header names are compared case-insensitively and order is only required among fields of the same name (fasthttp's request API canonicalises names and groups known headers)", "cookie crumbs are expected joined with '; ' (RFC 7540 8.1.2.5)"},
		Run:    runC01, Replay: replayC01, Policies: 1, QuickS: 200, ThoroughS: 900,
	})
}

// c01Plan is how one request is put on the wire.
type c01Plan struct {
	Req     int            `json:"req"`                // vocabulary index
	Choice  map[int]string `json:"choice,omitempty"`   // field index -> "rep/idxname/huffname/huffvalue"
	Splits  []int          `json:"splits,omitempty"`   // header block cut offsets
	Pad     int            `json:"pad"`                // -1 none
	Prio    string         `json:"prio,omitempty"`     // "", "dep0", "depother-excl"
	Chunks  []int          `json:"chunks,omitempty"`   // DATA frame sizes
	PadData []int          `json:"pad_data,omitempty"` // pad length per DATA frame (-1 none)
	EndOn   string         `json:"end_on"`             // headers | data | emptydata | trailers
	TrSplit int            `json:"trailer_split"`      // -1: trailers in one frame
	SizeUpd int            `json:"size_update"`        // >0: the block starts with a dynamic table size update
}

type c01Scenario struct {
	Family  string    `json:"family"`
	Prelude string    `json:"prelude"`
	Plans   []c01Plan `json:"plans"`
	Order   []int     `json:"order,omitempty"`  // interleaving: track index per step
	Finish  []int     `json:"finish,omitempty"` // handler completion order (request indices)
	Resp    []int     `json:"resp,omitempty"`   // response shape index per request
	// Burst: all request frames arrive in one segment (the read loop runs ahead of the stream
	// loop), and all handlers return before the server runs again
	Burst bool `json:"burst,omitempty"`
	// InitWin > 0: the peer's SETTINGS_INITIAL_WINDOW_SIZE; responses are held up by it and Grants (request index,
	// increment) are the stream WINDOW_UPDATEs the peer then sends, in this order
	InitWin uint32   `json:"initial_window,omitempty"`
	Grants  [][2]int `json:"grants,omitempty"`
	// Seg: how the transport cuts the same octets (harness.SegMode): 1 one octet per delivery, 2 / 3 reads
	// return at most 1 / 7 octets; the connection preface included
	Seg int `json:"seg,omitempty"`
}

var c01Vocab = []struct {
	fields   []ref.Field
	body     string
	trailers []ref.Field
}{
	{fields: []ref.Field{{Name: ":method", Value: "GET"}, {Name: ":scheme", Value: "https"}, {Name: ":authority", Value: "example.com"}, {Name: ":path", Value: "/"}, {Name: "x-a", Value: "1"}}},
	{fields: []ref.Field{{Name: ":method", Value: "POST"}, {Name: ":scheme", Value: "https"}, {Name: ":path", Value: "/a?b=c"}, {Name: ":authority", Value: "h:8443"},
		{Name: "user-agent", Value: "ua/1"}, {Name: "content-type", Value: "text/x"}, {Name: "cookie", Value: "a=1"}, {Name: "cookie", Value: "b=2"}, {Name: "x-empty", Value: ""},
		{Name: "x-long", Value: valOfLen(130)}, {Name: "te", Value: "trailers"}, {Name: "content-length", Value: "3"}}, body: "abc", trailers: []ref.Field{{Name: "x-trailer", Value: "tv"}}},
	{fields: []ref.Field{{Name: ":method", Value: "PUT"}, {Name: ":scheme", Value: "http"}, {Name: ":path", Value: "/abc"}, {Name: "x-rep", Value: valOfLen(4)}, {Name: "x-rep", Value: "second"}, {Name: "accept", Value: "*/*"}}, body: "xyz"},
	// empty values next to non-empty ones: static name-only entries (accept, accept-language) can be sent as an
	// indexed field, and the second x-flag as a reference to the entry the first one inserted
	{fields: []ref.Field{{Name: ":method", Value: "GET"}, {Name: ":scheme", Value: "https"}, {Name: ":authority", Value: "e.example"}, {Name: ":path", Value: "/e"},
		{Name: "x-v", Value: "one"}, {Name: "accept", Value: ""}, {Name: "x-flag", Value: ""}, {Name: "x-w", Value: "tail"}, {Name: "x-flag", Value: ""}, {Name: "accept-language", Value: ""}, {Name: "x-z", Value: "end"}}},
}

func c01Choice(s string) ref.EncChoice {
	var rep int
	var ni, hn, hv int
	fmt.Sscanf(s, "%d/%d/%d/%d", &rep, &ni, &hn, &hv)
	return ref.EncChoice{Rep: ref.Rep(rep), NameIndex: ni == 1, HuffName: hn == 1, HuffValue: hv == 1}
}

var c01Resps = []harness.Resp{
	{Status: 204},
	{Status: 200, Headers: [][2]string{{"X-Custom", "v"}, {"X_Under", "u"}}, Body: []byte("hello")},
	{Status: 200, Body: []byte(valOfLen(20000)), Headers: [][2]string{{"X-Big", valOfLen(300)}}},
	{Status: 200, Stream: &harness.BodyStream{Chunks: [][]byte{[]byte("ab"), []byte("c")}, Declared: 3}},
	{Status: 200, Stream: &harness.BodyStream{Chunks: [][]byte{[]byte("ab"), []byte("c")}, Declared: -1}},
	{Status: 200, Stream: &harness.BodyStream{Chunks: [][]byte{[]byte("abc")}, Declared: -1, EOFWithLast: true}},
	{Status: 200, Stream: &harness.BodyStream{Declared: -1}},
	{Status: 200, Stream: &harness.BodyStream{Declared: 0}},
	{Status: 404, Stream: &harness.BodyStream{Chunks: [][]byte{[]byte("abcde")}, Declared: 5, OneByte: true}, Headers: [][2]string{{"Connection", "close"}}},
	// 9-11: streamed bodies with their own filler octet each, larger than a small peer window
	{Status: 200, Stream: &harness.BodyStream{Chunks: [][]byte{bytesOf('A', 40)}, Declared: 40}},
	{Status: 200, Stream: &harness.BodyStream{Chunks: [][]byte{bytesOf('B', 25), bytesOf('b', 15)}, Declared: -1}},
	{Status: 200, Body: bytesOf('C', 40)},
	// 12-16 (family "response" only): what handlers do with the header API: repeated fields in order, cookies,
	// empty values, redirects, a content type of their own, names in odd case
	{Status: 200, Headers: [][2]string{{"Set-Cookie", "a=1; Path=/"}, {"Set-Cookie", "b=2; HttpOnly"}, {"X-Dup", "1"}, {"X-Dup", "2"}, {"X-Dup", "1"}, {"X-Empty", ""}}, Body: []byte("c")},
	{Status: 302, Headers: [][2]string{{"Location", "https://example.com/next?a=b"}, {"Content-Type", "application/json"}}},
	{Status: 200, Headers: [][2]string{{"Content-Type", "application/json"}, {"Cache-Control", "no-store"}, {"cache-control", "private"}, {"ETag", "\"x\""}}, Body: []byte("{}")},
	{Status: 500, Headers: [][2]string{{"x-lower", "l"}, {"X-UPPER", "U"}, {"Vary", "accept"}, {"Vary", "origin"}}, Stream: &harness.BodyStream{Chunks: [][]byte{[]byte("err")}, Declared: -1}},
	{Status: 200, Headers: [][2]string{{"Content-Encoding", "identity"}, {"Content-Language", "en"}, {"Server", "s/1"}, {"Age", "0"}}, Body: []byte("d")},
}

// c01BaseResps: the shapes that take part in the interleaving products
const c01BaseResps = 12

// track builds the frame track of plan p for stream id. Frames of a header
// block are marked contiguous (cont=true on all but the first).
type tframe struct {
	f    func() []peer.Frame // built lazily: HPACK state depends on send order
	cont bool
}

func c01Track(h *harness.Server, idp *uint32, p c01Plan, want *harness.WantReq) []tframe {
	v := c01Vocab[p.Req]
	fields := append([]ref.Field{}, v.fields...)
	fields = append(fields, ref.Field{Name: "x-sid", Value: "?"})
	want.Fields = fields
	hasBody := p.EndOn != "headers"
	if hasBody {
		want.Body = []byte(v.body)
	} else {
		// no body: drop content-length / te from the list
		var fs []ref.Field
		for _, f := range fields {
			if f.Name != "content-length" {
				fs = append(fs, f)
			}
		}
		fields, want.Fields = fs, fs
	}
	if p.EndOn == "trailers" {
		want.Trailers = v.trailers
		if len(want.Trailers) == 0 {
			want.Trailers = []ref.Field{{Name: "x-t", Value: "1"}}
		}
	}
	var tr []tframe
	// header block (HEADERS + CONTINUATIONs): encoded when the HEADERS frame is sent
	var frags [][]byte
	nfr := len(p.Splits) + 1
	tr = append(tr, tframe{f: func() []peer.Frame {
		id := *idp
		want.ID = id
		for i := range fields {
			if fields[i].Name == "x-sid" {
				fields[i].Value = fmt.Sprint(id)
			}
		}
		var pre []byte
		if p.SizeUpd > 0 {
			pre = h.PeerEnc.SizeUpdate(p.SizeUpd)
		}
		blk := h.PeerEnc.Block(fields, func(i int) ref.EncChoice {
			if s, ok := p.Choice[i]; ok {
				return c01Choice(s)
			}
			return harness.Default
		})
		blk = append(pre, blk...)
		frags = nil
		prev := 0
		for _, off := range p.Splits {
			if off > len(blk) {
				off = len(blk)
			}
			if off < prev {
				off = prev
			}
			frags = append(frags, blk[prev:off])
			prev = off
		}
		frags = append(frags, blk[prev:])
		o := peer.HeadersOpt{EndStream: !hasBody, EndHeaders: nfr == 1, Pad: p.Pad}
		switch p.Prio {
		case "dep0":
			o.Prio, o.Weight = true, 15
		case "depother-excl":
			o.Prio, o.Dep, o.Excl, o.Weight = true, id+2, true, 255
		}
		return []peer.Frame{peer.Headers(id, frags[0], o)}
	}})
	for i := 1; i < nfr; i++ {
		i := i
		tr = append(tr, tframe{cont: true, f: func() []peer.Frame {
			return []peer.Frame{peer.Continuation(*idp, frags[i], i == nfr-1)}
		}})
	}
	if !hasBody {
		return tr
	}
	body := []byte(v.body)
	chunks := p.Chunks
	if chunks == nil {
		chunks = []int{len(body)}
	}
	off := 0
	for i, n := range chunks {
		part := body[off : off+n]
		off += n
		last := i == len(chunks)-1
		pad := -1
		if i < len(p.PadData) {
			pad = p.PadData[i]
		}
		es := last && p.EndOn == "data"
		tr = append(tr, tframe{f: func() []peer.Frame { return []peer.Frame{peer.Data(*idp, part, es, pad)} }})
	}
	switch p.EndOn {
	case "emptydata":
		tr = append(tr, tframe{f: func() []peer.Frame { return []peer.Frame{peer.Data(*idp, nil, true, -1)} }})
	case "trailers":
		var tfrags [][]byte
		tr = append(tr, tframe{f: func() []peer.Frame {
			id := *idp
			blk := h.PeerEnc.Block(want.Trailers, func(int) ref.EncChoice { return ref.EncChoice{Rep: ref.RepWithout} })
			if p.TrSplit >= 0 {
				cut := min(p.TrSplit, len(blk))
				tfrags = [][]byte{blk[:cut], blk[cut:]}
				return []peer.Frame{peer.Headers(id, tfrags[0], peer.HeadersOpt{EndStream: true, Pad: -1})}
			}
			return []peer.Frame{peer.Headers(id, blk, peer.HeadersOpt{EndStream: true, EndHeaders: true, Pad: -1})}
		}})
		if p.TrSplit >= 0 {
			tr = append(tr, tframe{cont: true, f: func() []peer.Frame { return []peer.Frame{peer.Continuation(*idp, tfrags[1], true)} }})
		}
	}
	return tr
}

// c01Run executes a scenario and checks the oracle.
func c01Run(sc c01Scenario) (*fw.Violation, *harness.Server) {
	so := harness.ServerOpts{MaxConcurrentStreams: 8}
	if sc.InitWin > 0 {
		so.PeerSettings = []peer.Setting{{ID: peer.SInitialWindowSize, Val: sc.InitWin}}
	}
	harness.SegMode = sc.Seg
	defer func() { harness.SegMode = 0 }()
	h := harness.NewServer(so)
	if h.HandshakeRefused {
		return &fw.Violation{Rule: "handshake-refused", Shape: fmt.Sprintf("seg=%d", sc.Seg), Detail: fmt.Sprintf("the server ended the connection right after a conforming client's preface, SETTINGS and SETTINGS ack (transport segmentation mode %d): ServeConn returned %v (%v), log %v", sc.Seg, h.Returned, h.ServeErr, h.Log), Replay: map[string]any{"family": "c01", "scenario": sc}}, h
	}
	nextID := uint32(1)
	preCalls := 0
	if sc.Prelude == "two-completed" {
		for i := 0; i < 2; i++ {
			blk := h.PeerEnc.Block(harness.ReqFields("POST", "https", "pre", "/pre", [2]string{"x-pre", fmt.Sprint(i)}), nil)
			h.SendFrames(peer.Headers(nextID, blk, peer.HeadersOpt{EndHeaders: true, Pad: -1}))
			h.SendFrames(peer.Data(nextID, []byte("prelude-body"), true, -1))
			h.Finish(i, harness.Resp{Status: 200, Body: []byte("prelude-response"), Headers: [][2]string{{"X-Pre", "p"}}})
			nextID += 2
		}
		preCalls = 2
	}
	from := len(h.Out)
	wants := make([]harness.WantReq, len(sc.Plans))
	tracks := make([][]tframe, len(sc.Plans))
	ids := make([]uint32, len(sc.Plans))
	for i, p := range sc.Plans {
		tracks[i] = c01Track(h, &ids[i], p, &wants[i])
	}
	mk := func(rule, shape, detail string) *fw.Violation {
		return &fw.Violation{Rule: rule, Shape: shape, Detail: detail + "\n    events: " + strings.Join(h.EventLog, " ; "), Replay: map[string]any{"family": "c01", "scenario": sc}}
	}
	pos := make([]int, len(tracks))
	order := sc.Order
	if order == nil {
		for i := range tracks {
			for range tracks[i] {
				order = append(order, i)
			}
		}
	}
	var burst []peer.Frame
	for _, t := range order {
		if pos[t] >= len(tracks[t]) {
			continue
		}
		if pos[t] == 0 { // stream ids are taken in the order streams are opened
			ids[t] = nextID
			nextID += 2
		}
		// a header block is contiguous on the connection
		for {
			if sc.Burst {
				burst = append(burst, tracks[t][pos[t]].f()...)
			} else {
				h.SendFrames(tracks[t][pos[t]].f()...)
			}
			pos[t]++
			if pos[t] >= len(tracks[t]) || !tracks[t][pos[t]].cont {
				break
			}
		}
	}
	if sc.Burst {
		h.SendFrames(burst...)
	}
	encShape := func(i int) string { return c01PlanShape(sc.Plans[i]) }
	// every request dispatched exactly once, intact
	for i, w := range wants {
		var found []*harness.Call
		for _, c := range h.Calls[preCalls:] {
			if c.Stream == w.ID {
				found = append(found, c)
			}
		}
		if len(found) != 1 {
			why := h.Reaction(from)
			return mk("request-not-delivered-once", encShape(i)+" -> "+reactionClass(why), fmt.Sprintf("request on stream %d (%s): handler invoked %d times; server reaction: %s", w.ID, c01Vocab[sc.Plans[i].Req].fields[0].Value, len(found), why)), h
		}
		if d, cls := harness.CheckRequest(w, found[0].Req); d != "" {
			return mk("request-not-intact", cls+" "+encShape(i), fmt.Sprintf("stream %d: %s", w.ID, d)), h
		}
	}
	if len(h.Calls)-preCalls != len(wants) {
		return mk("request-not-delivered-once", "extra-invocation", fmt.Sprintf("%d requests sent, %d handler invocations", len(wants), len(h.Calls)-preCalls)), h
	}
	// handlers finish in the scenario's order with the scenario's responses
	fin := sc.Finish
	if fin == nil {
		for i := range wants {
			fin = append(fin, i)
		}
	}
	resps := make([]harness.Resp, len(wants))
	var finIdx []int
	var finResp []harness.Resp
	for _, i := range fin {
		r := c01Resps[1]
		if i < len(sc.Resp) {
			r = c01Resps[sc.Resp[i]]
		}
		resps[i] = r
		for _, c := range h.Calls[preCalls:] {
			if c.Stream == wants[i].ID {
				if sc.Burst {
					finIdx, finResp = append(finIdx, c.Idx), append(finResp, r)
				} else {
					h.Finish(c.Idx, r)
				}
			}
		}
	}
	if sc.Burst {
		h.FinishMany(finIdx, finResp)
	}
	for _, g := range sc.Grants {
		if g[0] < len(wants) {
			h.SendFrames(peer.WindowUpdate(wants[g[0]].ID, uint32(g[1])))
		}
	}
	if len(h.GoAways) > 0 || h.C.Closed() {
		return mk("connection-error", reactionClass(h.Reaction(from)), "well-formed traffic ended in "+h.Reaction(from)), h
	}
	if h.HpackErr != "" {
		return mk("response-header-block-invalid", "hpack", h.HpackErr), h
	}
	if len(h.ProtoErrs) > 0 {
		return mk("response-framing-invalid", "framing", strings.Join(h.ProtoErrs, "; ")), h
	}
	for i, w := range wants {
		if d, cls := harness.CheckResponse(h.Streams[w.ID], resps[i]); d != "" {
			return mk("response-not-intact", cls+" resp="+harness.RespShape(resps[i]), fmt.Sprintf("stream %d (%s): %s", w.ID, harness.RespShape(resps[i]), d)), h
		}
	}
	if p := h.Panicked(); len(p) > 0 {
		return mk("server-panic", "panic", strings.Join(p, "; ")), h
	}
	if ev := h.PoolEvents(); len(ev) > 0 {
		return mk("pool-misuse", "pool", strings.Join(ev, "; ")), h
	}
	return nil, h
}

func reactionClass(r string) string {
	var out []string
	for _, p := range strings.Split(r, "+") {
		if strings.HasPrefix(p, "SETTINGS") || strings.HasPrefix(p, "PING") || strings.HasPrefix(p, "response") {
			continue
		}
		if i := strings.IndexByte(p, '['); i >= 0 {
			if j := strings.IndexByte(p, ']'); j > i {
				p = p[:i] + p[j+1:]
			}
		}
		out = append(out, p)
	}
	if len(out) == 0 {
		return "none"
	}
	// one finding per kind of damage: the first two distinct reactions
	var uniq []string
	for _, o := range out {
		dup := false
		for _, u := range uniq {
			dup = dup || u == o
		}
		if !dup && len(uniq) < 2 {
			uniq = append(uniq, o)
		}
	}
	return strings.Join(uniq, "+")
}

// c01PlanShape names the encoding deviation of a plan.
func c01PlanShape(p c01Plan) string {
	var parts []string
	if len(p.Choice) > 2 {
		parts = append(parts, "all-fields-literal")
	} else {
		for _, s := range p.Choice {
			ch := c01Choice(s)
			parts = append(parts, fmt.Sprintf("field(%s,name=%s,huff=%v/%v)", ch.Rep, map[bool]string{true: "indexed", false: "literal"}[ch.NameIndex], ch.HuffName, ch.HuffValue))
		}
		sort.Strings(parts)
	}
	if p.SizeUpd > 0 {
		parts = append(parts, "size-update")
	}
	if len(p.Splits) > 0 {
		parts = append(parts, fmt.Sprintf("continuation(x%d)", len(p.Splits)))
	}
	if p.Pad >= 0 {
		parts = append(parts, "padded-headers")
	}
	if p.Prio != "" {
		parts = append(parts, "priority")
	}
	if len(p.Chunks) > 1 {
		z := false
		for _, n := range p.Chunks {
			z = z || n == 0
		}
		if z {
			parts = append(parts, "empty-data-frame")
		} else {
			parts = append(parts, "chunked-data")
		}
	}
	for _, pd := range p.PadData {
		if pd >= 0 {
			parts = append(parts, "padded-data")
			break
		}
	}
	if p.EndOn == "trailers" {
		if p.TrSplit >= 0 {
			parts = append(parts, "trailers+continuation")
		} else {
			parts = append(parts, "trailers")
		}
	}
	if p.EndOn == "emptydata" {
		parts = append(parts, "end-on-empty-data")
	}
	if len(parts) == 0 {
		return "default-encoding"
	}
	return strings.Join(parts, ",")
}

func basePlan(req int) c01Plan {
	p := c01Plan{Req: req, Pad: -1, EndOn: "data", TrSplit: -1}
	if c01Vocab[req].body == "" {
		p.EndOn = "headers"
	}
	return p
}

// blockLen computes the default header block length of a plan (for split offsets).
func c01BlockLen(p c01Plan) int {
	h := harness.NewPeerEncoder()
	fields := append([]ref.Field{}, c01Vocab[p.Req].fields...)
	fields = append(fields, ref.Field{Name: "x-sid", Value: "1"})
	if p.EndOn == "headers" {
		var fs []ref.Field
		for _, f := range fields {
			if f.Name != "content-length" {
				fs = append(fs, f)
			}
		}
		fields = fs
	}
	return len(h.Block(fields, func(i int) ref.EncChoice {
		if s, ok := p.Choice[i]; ok {
			return c01Choice(s)
		}
		return harness.Default
	}))
}

func runC01(c *fw.Ctx) {
	runSpxFamily(c, "C01")
	// last: if the time budget runs out it is the long histories that are cut short
	defer func() {
		if vsched.DefaultPolicy == 0 {
			runC01Table(c)
			runC01Head(c)
		}
		runC01Upload(c)
	}()
	thorough := c.Tier == "thorough"
	var item int64
	sampled := 0
	var doRef func(sc c01Scenario)
	do := func(sc c01Scenario) {
		if !sc.Burst && sc.Seg == 0 && (len(sc.Plans) >= 2 || sc.Family == "encoding") {
			// the same scenario with everything the peer sends in one segment
			sb := sc
			sb.Burst = true
			defer doRef(sb)
		}
		if sc.Seg == 0 && !sc.Burst && sc.InitWin == 0 && (len(sc.Plans) >= 2 || sc.Family == "encoding") {
			// the same octets, cut differently by the transport
			for seg := 1; seg <= 3; seg++ {
				ss := sc
				ss.Seg = seg
				defer doRef(ss)
			}
		}
		if item++; !c.Mine(item) {
			return
		}
		if c.Expired("C01") {
			return
		}
		v, h := c01Run(sc)
		js, _ := json.Marshal(sc)
		nontrivial := len(sc.Plans) >= 2 || c01PlanShape(sc.Plans[0]) != "default-encoding"
		c.Eval(nt(nontrivial, js))
		c.AddTransitions(int64(h.Events))
		c.AddTraces(1)
		c.State(fw.Hash(h.Digest()))
		if v != nil {
			c.Violate(*v)
			c.Outcome(v.Rule)
		} else {
			c.Outcome("intact")
		}
		if sampled < 3 && len(sc.Plans) >= 2 && len(sc.Order) > 0 {
			sampled++
			c.Sample(map[string]any{"scenario": sc, "events": h.EventLog})
		}
		h.Close()
	}
	doRef = do
	// ---- family: encoding deviations of one request ----
	for req := range c01Vocab {
		base := basePlan(req)
		do(c01Scenario{Family: "encoding", Plans: []c01Plan{base}})
		nf := len(c01Vocab[req].fields) + 1
		for fi := 0; fi < nf; fi++ {
			for rep := 0; rep < 4; rep++ {
				for ni := 0; ni < 2; ni++ {
					for hn := 0; hn < 2; hn++ {
						for hv := 0; hv < 2; hv++ {
							if ni == 1 && hn == 1 {
								continue
							}
							p := base
							p.Choice = map[int]string{fi: fmt.Sprintf("%d/%d/%d/%d", rep, ni, hn, hv)}
							do(c01Scenario{Family: "encoding", Plans: []c01Plan{p}})
							if thorough && fi+1 < nf {
								p2 := base
								p2.Choice = map[int]string{fi: p.Choice[fi], fi + 1: fmt.Sprintf("%d/%d/%d/%d", (rep+1)%4, ni, hv, hn)}
								do(c01Scenario{Family: "encoding", Plans: []c01Plan{p2}})
							}
						}
					}
				}
			}
		}
		n := c01BlockLen(base)
		for off := 0; off <= n; off++ {
			p := base
			p.Splits = []int{off}
			do(c01Scenario{Family: "encoding", Plans: []c01Plan{p}})
			if thorough {
				for off2 := off; off2 <= n; off2++ {
					p := base
					p.Splits = []int{off, off2}
					do(c01Scenario{Family: "encoding", Plans: []c01Plan{p}})
				}
			}
		}
		// a literal-without-indexing encoding of every field, split everywhere (cuts inside strings, Huffman)
		pl := base
		pl.Choice = map[int]string{}
		for fi := 0; fi < nf; fi++ {
			pl.Choice[fi] = fmt.Sprintf("%d/%d/%d/%d", int(ref.RepWithout), fi%2, 0, (fi+1)%2)
		}
		nl := c01BlockLen(pl)
		for off := 0; off <= nl; off++ {
			p := pl
			p.Splits = []int{off}
			do(c01Scenario{Family: "encoding", Plans: []c01Plan{p}})
		}
		// a dynamic table size update at the start of the block, split everywhere
		ps := base
		ps.SizeUpd = 1000
		do(c01Scenario{Family: "encoding", Plans: []c01Plan{ps}})
		for off := 0; off <= n+3; off++ {
			p := ps
			p.Splits = []int{off}
			do(c01Scenario{Family: "encoding", Plans: []c01Plan{p}})
		}
		for _, pad := range []int{0, 1, 255} {
			for _, prio := range []string{"", "dep0", "depother-excl"} {
				p := base
				p.Pad, p.Prio = pad, prio
				do(c01Scenario{Family: "encoding", Plans: []c01Plan{p}})
			}
		}
		for _, prio := range []string{"dep0", "depother-excl"} {
			p := base
			p.Prio = prio
			do(c01Scenario{Family: "encoding", Plans: []c01Plan{p}})
		}
		if blen := len(c01Vocab[req].body); blen > 0 {
			var comps [][]int
			var rec func(left, parts int, cur []int)
			rec = func(left, parts int, cur []int) {
				if parts == 1 {
					comps = append(comps, append(append([]int{}, cur...), left))
					return
				}
				for k := 0; k <= left; k++ {
					rec(left-k, parts-1, append(cur, k))
				}
			}
			for parts := 1; parts <= 3; parts++ {
				rec(blen, parts, nil)
			}
			for _, comp := range comps {
				for mask := 0; mask < 1<<len(comp); mask++ {
					pads := make([]int, len(comp))
					for i := range pads {
						pads[i] = -1
						if mask>>i&1 == 1 {
							pads[i] = []int{0, 3, 255}[(i+mask)%3]
						}
					}
					for _, end := range []string{"data", "emptydata", "trailers"} {
						p := base
						p.Chunks, p.PadData, p.EndOn = comp, pads, end
						do(c01Scenario{Family: "encoding", Plans: []c01Plan{p}})
					}
				}
			}
			// trailers continued in a CONTINUATION frame at every offset
			for off := 0; off <= 12; off++ {
				p := base
				p.EndOn, p.TrSplit = "trailers", off
				do(c01Scenario{Family: "encoding", Plans: []c01Plan{p}})
			}
		}
	}
	c.Family("encoding")

	// ---- family: a deviating stream followed by plain ones (stale state in recycled frame objects) ----
	for req := range c01Vocab {
		var devs []c01Plan
		for _, pad := range []int{-1, 0, 255} {
			for _, prio := range []string{"dep0", "depother-excl"} {
				p := basePlan(req)
				p.Pad, p.Prio = pad, prio
				devs = append(devs, p)
			}
		}
		ps := basePlan(req)
		ps.Splits = []int{5, 9}
		devs = append(devs, ps)
		pp := basePlan(req)
		pp.Pad = 7
		if pp.EndOn == "data" {
			pp.PadData = []int{9}
		}
		devs = append(devs, pp)
		for _, d := range devs {
			for other := range c01Vocab {
				for _, prelude := range []string{"", "two-completed"} {
					do(c01Scenario{Family: "then-plain", Prelude: prelude, Plans: []c01Plan{d, basePlan(other), basePlan(req)}})
				}
			}
		}
	}
	c.Family("then-plain")

	// ---- family: response shapes, one stream ----
	for ri := range c01Resps {
		for req := range c01Vocab {
			do(c01Scenario{Family: "response", Plans: []c01Plan{basePlan(req)}, Resp: []int{ri}})
		}
	}
	c.Family("response")

	// ---- family: streamed responses held up by a small stream window, every order of the peer's grants ----
	for _, set := range [][]int{{9, 10}, {10, 9}, {9, 11}, {11, 10}, {9, 10, 11}} {
		if len(set) == 3 && !thorough {
			continue
		}
		plans := make([]c01Plan, len(set))
		lens := make([]int, len(set))
		for i := range set {
			plans[i] = basePlan(0)
			lens[i] = 2
		}
		for _, win := range []uint32{10, 1} {
			inc := [][]int{{7, 100}, {12, 100}, {39, 100}}
			for _, fin := range permutations(len(set)) {
				harness.Interleavings(lens, func(order []int) bool {
					var grants [][2]int
					seen := make([]int, len(set))
					for _, t := range order {
						grants = append(grants, [2]int{t, inc[t][seen[t]]})
						seen[t]++
					}
					do(c01Scenario{Family: "responses-under-flow-control", Plans: plans, Finish: fin, Resp: set, InitWin: win, Grants: grants})
					return !c.Expired("C01 flow-controlled responses")
				})
			}
		}
	}
	c.Family("responses-under-flow-control")

	// ---- family: interleavings ----
	nstreams := 2
	if thorough {
		nstreams = 3
	}
	c.Bound["interleaved_streams"] = nstreams
	reqSets := [][]int{{1, 1}, {1, 2}}
	if thorough {
		reqSets = [][]int{{1, 1, 2}, {1, 2, 1}}
	}
	for _, prelude := range []string{"", "two-completed"} {
		for _, rs := range reqSets {
			plans := make([]c01Plan, len(rs))
			lens := make([]int, len(rs))
			for i, r := range rs {
				plans[i] = basePlan(r)
				plans[i].Chunks = []int{1, 2}
				lens[i] = 3
			}
			harness.Interleavings(lens, func(order []int) bool {
				ord := append([]int{}, order...)
				// completion orders
				perms := permutations(len(rs))
				for _, fin := range perms {
					if thorough || len(rs) == 2 {
						// response shapes: full product for 2 streams, diagonal + rotations for 3
						if len(rs) == 2 {
							for a := range c01Resps[:c01BaseResps] {
								for b := range c01Resps[:c01BaseResps] {
									if !thorough && (a+b)%3 != 0 && a != b {
										continue
									}
									do(c01Scenario{Family: "interleave", Prelude: prelude, Plans: plans, Order: ord, Finish: fin, Resp: []int{a, b}})
								}
							}
						} else {
							for a := range c01Resps[:c01BaseResps] {
								do(c01Scenario{Family: "interleave", Prelude: prelude, Plans: plans, Order: ord, Finish: fin, Resp: []int{a, (a + 3) % c01BaseResps, (a + 5) % c01BaseResps}})
							}
						}
					}
				}
				return !c.Expired("C01 interleave")
			})
		}
	}
	c.Family("interleave")
}

func permutations(n int) [][]int {
	var out [][]int
	var rec func(cur []int, used int)
	rec = func(cur []int, used int) {
		if len(cur) == n {
			out = append(out, append([]int{}, cur...))
			return
		}
		for i := 0; i < n; i++ {
			if used>>i&1 == 0 {
				rec(append(cur, i), used|1<<i)
			}
		}
	}
	rec(nil, 0)
	return out
}

func replayC01(raw json.RawMessage) (string, bool) {
	var fam struct {
		Family string `json:"family"`
	}
	json.Unmarshal(raw, &fam)
	if fam.Family == "c01table" {
		return replayC01Table(raw)
	}
	if fam.Family == "c01head" {
		return replayC01Head(raw)
	}
	if fam.Family == "c01upload" {
		return replayC01Upload(raw)
	}
	var r struct {
		Scenario c01Scenario `json:"scenario"`
	}
	if err := json.Unmarshal(raw, &r); err != nil {
		return err.Error(), false
	}
	v, h := c01Run(r.Scenario)
	defer h.Close()
	if v != nil {
		return v.Rule + " [" + v.Shape + "]: " + v.Detail, true
	}
	return "requests and responses intact: " + strings.Join(h.EventLog, " ; "), false
}
