package checks

import (
	"bufio"
	"bytes"
	"fmt"
	"io"

	"github.com/dgrr/http2"
	xh2 "golang.org/x/net/http2"

	"verif/peer"
	"verif/vrand"
)

// Shared helpers for C05 / C16: building dgrr/http2 frames through the public
// API, reading them back, and the x/net view of the same bytes.

// dgrrBuild builds the frame with meaning s through the public setters only
// (plus the injected priority switch, which the public API can only reach by
// parsing a frame). ok=false if the API cannot express s.
func dgrrBuild(s peer.Sem, viaInject bool) (fr *http2.FrameHeader, ok bool) {
	fr = http2.AcquireFrameHeader()
	fr.SetStream(s.Stream)
	switch s.Type {
	case peer.TData:
		d := http2.AcquireFrame(http2.FrameData).(*http2.Data)
		d.SetData(s.Body)
		d.SetEndStream(s.EndStream)
		d.SetPadding(s.Padded)
		fr.SetBody(d)
	case peer.THeaders:
		h := http2.AcquireFrame(http2.FrameHeaders).(*http2.Headers)
		h.SetHeaders(s.Body)
		h.SetEndStream(s.EndStream)
		h.SetEndHeaders(s.EndHeaders)
		h.SetPadding(s.Padded)
		if s.HasPrio {
			if !viaInject {
				http2.ReleaseFrameHeader(fr)
				return nil, false
			}
			http2.VerifHeadersSetPriority(h, true)
			h.SetStream(s.Dep)
			h.SetWeight(s.Weight)
		}
		fr.SetBody(h)
	case peer.TPriority:
		p := http2.AcquireFrame(http2.FramePriority).(*http2.Priority)
		p.SetStream(s.Dep)
		p.SetWeight(s.Weight)
		fr.SetBody(p)
	case peer.TRstStream:
		r := http2.AcquireFrame(http2.FrameResetStream).(*http2.RstStream)
		r.SetCode(http2.ErrorCode(s.Code))
		fr.SetBody(r)
	case peer.TSettings:
		st := http2.AcquireFrame(http2.FrameSettings).(*http2.Settings)
		st.SetAck(s.Ack)
		fr.SetBody(st)
		if len(s.Settings) > 0 || !s.Ack {
			// only used with explicit setter scripts, see c05
		}
	case peer.TPushPromise:
		pp := http2.AcquireFrame(http2.FramePushPromise).(*http2.PushPromise)
		pp.SetHeader(s.Body)
		if s.EndHeaders { // no public way to set END_HEADERS on a PUSH_PROMISE
			http2.ReleaseFrame(pp)
			releaseEmptyHeader(fr)
			return nil, false
		}
		if s.Promise != 0 {
			if !viaInject {
				http2.ReleaseFrameHeader(fr)
				return nil, false
			}
			http2.VerifPushPromiseSetStream(pp, s.Promise)
		}
		fr.SetBody(pp)
	case peer.TPing:
		p := http2.AcquireFrame(http2.FramePing).(*http2.Ping)
		p.SetAck(s.Ack)
		p.SetData(s.Body)
		fr.SetBody(p)
	case peer.TGoAway:
		g := http2.AcquireFrame(http2.FrameGoAway).(*http2.GoAway)
		g.SetStream(s.Last)
		g.SetCode(http2.ErrorCode(s.Code))
		g.SetData(s.Body)
		fr.SetBody(g)
	case peer.TWindowUpdate:
		w := http2.AcquireFrame(http2.FrameWindowUpdate).(*http2.WindowUpdate)
		w.SetIncrement(int(s.Inc))
		fr.SetBody(w)
	case peer.TContinuation:
		c := http2.AcquireFrame(http2.FrameContinuation).(*http2.Continuation)
		c.SetHeader(s.Body)
		c.SetEndHeaders(s.EndHeaders)
		fr.SetBody(c)
	default:
		http2.ReleaseFrameHeader(fr)
		return nil, false
	}
	return fr, true
}

func dgrrWrite(fr *http2.FrameHeader) (out []byte, panicked any) {
	defer func() { panicked = recover() }()
	var buf bytes.Buffer
	bw := bufio.NewWriter(&buf)
	fr.WriteTo(bw)
	bw.Flush()
	return buf.Bytes(), nil
}

type countReader struct {
	r io.Reader
	n int
}

func (c *countReader) Read(p []byte) (int, error) {
	n, err := c.r.Read(p)
	c.n += n
	return n, err
}

// dgrrRead reads one frame from b (followed by whatever b contains after it)
// and reports how many bytes the reader consumed from the stream.
func dgrrRead(b []byte, max uint32) (fr *http2.FrameHeader, err error, consumed int, panicked any) {
	defer func() { panicked = recover() }()
	cr := &countReader{r: bytes.NewReader(b)}
	br := bufio.NewReaderSize(cr, 4096)
	if max == 0 {
		fr, err = http2.ReadFrameFrom(br)
	} else {
		fr, err = http2.ReadFrameFromWithSize(br, max)
	}
	consumed = cr.n - br.Buffered()
	return
}

// semOfDgrr reads the observable fields of a parsed frame through its getters.
func semOfDgrr(fr *http2.FrameHeader) peer.Sem {
	s := peer.Sem{Type: uint8(fr.Type()), Stream: fr.Stream()}
	switch b := fr.Body().(type) {
	case *http2.Data:
		s.EndStream = b.EndStream()
		s.Body = append([]byte{}, b.Data()...)
	case *http2.Headers:
		s.EndStream, s.EndHeaders = b.EndStream(), b.EndHeaders()
		s.Body = append([]byte{}, b.Headers()...)
		s.HasPrio = http2.VerifHeadersPriority(b)
		if s.HasPrio {
			s.Dep, s.Weight = b.Stream(), b.Weight()
		}
	case *http2.Priority:
		s.Dep, s.Weight = b.Stream(), b.Weight()
	case *http2.RstStream:
		s.Code = uint32(b.Code())
	case *http2.Settings:
		s.Ack = b.IsAck()
	case *http2.PushPromise:
		st, h, ended := http2.VerifPushPromiseFields(b)
		s.Promise, s.Body, s.EndHeaders = st, append([]byte{}, h...), ended
	case *http2.Ping:
		s.Ack = b.IsAck()
		s.Body = append([]byte{}, b.Data()...)
	case *http2.GoAway:
		s.Last, s.Code = b.Stream(), uint32(b.Code())
		s.Body = append([]byte{}, b.Data()...)
	case *http2.WindowUpdate:
		s.Inc = uint32(b.Increment())
	case *http2.Continuation:
		s.EndHeaders = b.EndHeaders()
		s.Body = append([]byte{}, b.Headers()...)
	}
	return s
}

// xnetSem parses one frame with golang.org/x/net/http2.Framer.
func xnetSem(b []byte) (peer.Sem, error) {
	fr := xh2.NewFramer(io.Discard, bytes.NewReader(b))
	fr.AllowIllegalReads = true
	fr.SetMaxReadFrameSize(1<<24 - 1)
	f, err := fr.ReadFrame()
	if err != nil {
		return peer.Sem{}, err
	}
	h := f.Header()
	s := peer.Sem{Type: uint8(h.Type), Stream: h.StreamID}
	switch x := f.(type) {
	case *xh2.DataFrame:
		s.EndStream = x.StreamEnded()
		s.Body = append([]byte{}, x.Data()...)
	case *xh2.HeadersFrame:
		s.EndStream, s.EndHeaders = x.StreamEnded(), x.HeadersEnded()
		s.Body = append([]byte{}, x.HeaderBlockFragment()...)
		s.HasPrio = x.HasPriority()
		if s.HasPrio {
			s.Dep, s.Excl, s.Weight = x.Priority.StreamDep, x.Priority.Exclusive, x.Priority.Weight
		}
	case *xh2.PriorityFrame:
		s.Dep, s.Excl, s.Weight = x.StreamDep, x.Exclusive, x.Weight
	case *xh2.RSTStreamFrame:
		s.Code = uint32(x.ErrCode)
	case *xh2.SettingsFrame:
		s.Ack = x.IsAck()
		for i := 0; i < x.NumSettings(); i++ {
			st := x.Setting(i)
			s.Settings = append(s.Settings, peer.Setting{ID: uint16(st.ID), Val: st.Val})
		}
	case *xh2.PushPromiseFrame:
		s.Promise = x.PromiseID
		s.EndHeaders = x.HeadersEnded()
		s.Body = append([]byte{}, x.HeaderBlockFragment()...)
	case *xh2.PingFrame:
		s.Ack = x.IsAck()
		s.Body = append([]byte{}, x.Data[:]...)
	case *xh2.GoAwayFrame:
		s.Last, s.Code = x.LastStreamID, uint32(x.ErrCode)
		s.Body = append([]byte{}, x.DebugData()...)
	case *xh2.WindowUpdateFrame:
		s.Inc = x.Increment
	case *xh2.ContinuationFrame:
		s.EndHeaders = x.HeadersEnded()
		s.Body = append([]byte{}, x.HeaderBlockFragment()...)
	default:
		return s, fmt.Errorf("x/net returned %T", f)
	}
	return s, nil
}

func setPadChoice(n int) { vrand.Next = uint32(n) }

// releaseEmptyHeader drops a frame header that never got a body.
func releaseEmptyHeader(fr *http2.FrameHeader) {}
