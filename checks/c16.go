package checks

import (
	"bufio"
	"bytes"
	"encoding/hex"
	"encoding/json"
	"errors"
	"fmt"
	"runtime"
	"strings"

	"github.com/dgrr/http2"

	"verif/fw"
	"verif/peer"
	"verif/ref"
	"verif/vsched"
)

// C16 — wire parsers are total: any bytes give a result or an error, in
// bounded work, positioned at the next frame, with no pooled object left with
// two owners.

func init() {
	fw.Register(&fw.Check{
		ID: "C16", Level: "model_checking",
		Rule:   "BX: frame headers over length {0..12,255,16384,16385,2^24-1} x type {0..12,0x7f,0x80,0xff} x flags (all 256 for payloads <= 1 byte, else subsets of defined bits +- one undefined) x stream {0,1,2,2^31-1,R bit} x payload (all byte strings up to 2 bytes; longer: every value of each structural byte) x max {16384, 2^24-1}, each followed by a sentinel frame; every truncation offset of a 13-frame stream; HPACK: every byte string up to the bound through Next at 2 table states. Oracle: no panic; error or a correct reading of exactly 9+length bytes; must-error classes; allocation <= max+const; pool tracker clean and pools hand out distinct objects afterwards. Non-trivial: malformed or truncated input; distinct by bytes.",
		Assume: []string{"peer.SemOf is RFC 7540 section 6 (validated against x/net in C05)", "allocation is measured with runtime.MemStats.TotalAlloc on one goroutine for the large-length subset only"},
		Run:    runC16, Replay: replayC16, QuickS: 120, ThoroughS: 500,
	})
}

type c16Case struct {
	Family string `json:"family"` // frame | trunc | hpack
	Hex    string `json:"hex"`
	Max    uint32 `json:"max"`
	Limit  int    `json:"limit,omitempty"`
	Access string `json:"access_hex,omitempty"`
	Cut    int    `json:"cut,omitempty"` // hpack-resume: only the first Cut octets are there at first
}

var sentinelFrame = peer.Ping(false, [8]byte{9, 9, 9, 9, 9, 9, 9, 9}).Bytes()

func poolEventsSince(s *vsched.Sched, n int) []string {
	var out []string
	for _, e := range s.Events[n:] {
		if strings.HasPrefix(e, "pool:") {
			out = append(out, e)
		}
	}
	return out
}

// poolsDistinct acquires two objects of every pooled kind and reports a pair
// that is the same object.
func poolsDistinct() string {
	a, b := http2.AcquireFrameHeader(), http2.AcquireFrameHeader()
	same := ""
	if a == b {
		same = "FrameHeader"
	}
	var bodies []http2.Frame
	for t := http2.FrameData; t <= http2.FrameContinuation; t++ {
		x, y := http2.AcquireFrame(t), http2.AcquireFrame(t)
		if x == y && same == "" {
			same = fmt.Sprintf("%T", x)
		}
		bodies = append(bodies, x, y)
	}
	for _, f := range bodies {
		http2.ReleaseFrame(f)
	}
	// headers were acquired without bodies: return them through the pool the way readFrom's error path does
	hf1, hf2 := http2.AcquireHeaderField(), http2.AcquireHeaderField()
	if hf1 == hf2 && same == "" {
		same = "HeaderField"
	}
	http2.ReleaseHeaderField(hf1)
	http2.ReleaseHeaderField(hf2)
	_ = a
	_ = b
	return same
}

// c16Frame evaluates one byte string as "a frame followed by a sentinel".
func c16Frame(cs c16Case) *fw.Violation {
	in, _ := hex.DecodeString(cs.Hex)
	s := vsched.New()
	defer s.Shutdown()
	mk := func(rule, shape, detail string) *fw.Violation {
		return &fw.Violation{Rule: rule, Shape: shape, Detail: detail + fmt.Sprintf(" [input %s max=%d]", trunc(cs.Hex, 80), cs.Max), Replay: map[string]any{"family": "c16", "case": cs}}
	}
	if len(in) < 9 {
		return nil
	}
	length := int(in[0])<<16 | int(in[1])<<8 | int(in[2])
	typ := in[3]
	tn := peer.TypeName(typ)
	complete := len(in) >= 9+length
	wire := append(append([]byte{}, in...), sentinelFrame...)
	if !complete {
		wire = in // truncated: nothing follows
	}
	var before runtime.MemStats
	measure := length >= 16384
	if measure {
		runtime.ReadMemStats(&before)
	}
	fr, err, consumed, pan := dgrrRead(wire, cs.Max)
	if measure {
		var after runtime.MemStats
		runtime.ReadMemStats(&after)
		limit := uint64(cs.Max) + 1<<17 // reader + frame objects
		if uint64(length) <= uint64(cs.Max) {
			limit = uint64(length) + 1<<17 + uint64(length) // payload + one body copy
		}
		if d := after.TotalAlloc - before.TotalAlloc; d > limit {
			return mk("allocation-unbounded", tn, fmt.Sprintf("reading a frame with length %d under max %d allocated %d bytes", length, cs.Max, d))
		}
	}
	if pan != nil {
		return mk("parser-panic", tn, fmt.Sprintf("ReadFrameFrom panicked: %v", pan))
	}
	if ev := poolEventsSince(s, 0); len(ev) > 0 {
		cls := "complete"
		if !complete {
			cls = "truncated-payload"
		}
		return mk("pool-double-release", tn+" "+cls, fmt.Sprintf("after reading: %v", ev))
	}
	if same := poolsDistinct(); same != "" {
		return mk("pool-two-owners", same, "two acquirers obtained the same "+same+" after this read")
	}
	raw := peer.Frame{Type: typ, Flags: in[4], Stream: uint32(in[5]&0x7f)<<24 | uint32(in[6])<<16 | uint32(in[7])<<8 | uint32(in[8]), R: in[5]&0x80 != 0}
	if uint32(length) > cs.Max {
		if err == nil {
			http2.ReleaseFrameHeader(fr)
			return mk("accepts-oversized-frame", tn, fmt.Sprintf("length %d above the negotiated maximum %d was accepted", length, cs.Max))
		}
		// the error must be one that ends the connection: ErrUnknownFrameType is what both read loops
		// take as "skip this frame and carry on", whatever its size
		if errors.Is(err, http2.ErrUnknownFrameType) {
			return mk("accepts-oversized-frame", tn+" skipped-as-unknown-type", fmt.Sprintf("frame type %#x with length %d above the negotiated maximum %d: the reader reports %v (which callers skip) and consumed %d bytes", typ, length, cs.Max, err, consumed))
		}
		if consumed > 9+int(cs.Max) {
			return mk("oversized-frame-read-in-full", tn, fmt.Sprintf("length %d above the negotiated maximum %d was refused only after %d bytes had been taken off the reader", length, cs.Max, consumed))
		}
		return nil
	}
	if !complete {
		if err == nil {
			http2.ReleaseFrameHeader(fr)
			return mk("accepts-truncated-frame", tn, fmt.Sprintf("frame of length %d with only %d payload bytes was accepted", length, len(in)-9))
		}
		return nil
	}
	raw.Payload = in[9 : 9+length]
	if typ > peer.TContinuation {
		if err == nil {
			http2.ReleaseFrameHeader(fr)
			return mk("unknown-type-returned", "unknown", fmt.Sprintf("frame type %#x returned as a frame", typ))
		}
		if !errors.Is(err, http2.ErrUnknownFrameType) {
			return mk("unknown-type-error", "unknown", fmt.Sprintf("frame type %#x: error %v, want ErrUnknownFrameType so callers can skip it", typ, err))
		}
		if consumed != 9+length {
			return mk("unknown-type-position", "unknown", fmt.Sprintf("frame type %#x length %d: reader consumed %d bytes, next frame starts at %d", typ, length, consumed, 9+length))
		}
		return nil
	}
	want, serr := peer.SemOf(raw)
	if serr != nil {
		if err == nil {
			http2.ReleaseFrameHeader(fr)
			return mk("accepts-impossible-structure", tn+" "+serr.Error()+sizeShape(raw), fmt.Sprintf("%s with %d-byte payload (flags %#x) was accepted: %v", tn, length, raw.Flags, serr))
		}
		return nil
	}
	if err != nil {
		return nil // failing is allowed; C05 decides that well-formed frames are accepted
	}
	defer http2.ReleaseFrameHeader(fr)
	if consumed != 9+length {
		return mk("consumed-bytes", tn, fmt.Sprintf("frame is %d bytes, reader consumed %d", 9+length, consumed))
	}
	got := semOfDgrr(fr)
	want.Excl = false
	want.Settings = nil
	if !want.Equal(got) {
		return mk("misreads-frame", tn+" "+diffShape(want, got), fmt.Sprintf("RFC 7540 reading %v, implementation %v", want, got))
	}
	return nil
}

func sizeShape(f peer.Frame) string {
	switch f.Type {
	case peer.TPriority, peer.TRstStream, peer.TWindowUpdate, peer.TPing:
		fixed := map[uint8]int{peer.TPriority: 5, peer.TRstStream: 4, peer.TWindowUpdate: 4, peer.TPing: 8}[f.Type]
		if len(f.Payload) > fixed {
			return " longer-than-fixed-size"
		}
		return " shorter-than-fixed-size"
	}
	return ""
}

func trunc(s string, n int) string {
	if len(s) > n {
		return s[:n] + fmt.Sprintf("…(%d hex chars)", len(s))
	}
	return s
}

// c16Trunc cuts a valid stream at an offset and reads frames until the error.
func c16Trunc(cs c16Case) *fw.Violation {
	in, _ := hex.DecodeString(cs.Hex)
	s := vsched.New()
	defer s.Shutdown()
	mk := func(rule, shape, detail string) *fw.Violation {
		return &fw.Violation{Rule: rule, Shape: shape, Detail: detail + fmt.Sprintf(" [stream of %d bytes]", len(in)), Replay: map[string]any{"family": "c16", "case": cs}}
	}
	var pan any
	lastType := "?"
	where := "?"
	func() {
		defer func() { pan = recover() }()
		br := bufio.NewReader(bytes.NewReader(in))
		off := 0
		for i := 0; i < 100; i++ {
			if len(in)-off >= 9 {
				lastType = peer.TypeName(in[off+3])
				l := int(in[off])<<16 | int(in[off+1])<<8 | int(in[off+2])
				if len(in)-off < 9+l {
					where = "inside-payload"
				} else {
					where = "complete"
				}
			} else if len(in)-off > 0 {
				where = "inside-header"
			} else {
				where = "frame-boundary"
			}
			fr, err := http2.ReadFrameFromWithSize(br, cs.Max)
			if err != nil {
				if errors.Is(err, http2.ErrUnknownFrameType) {
					off += 9 + (int(in[off])<<16 | int(in[off+1])<<8 | int(in[off+2]))
					continue
				}
				return
			}
			off += 9 + fr.Len()
			http2.ReleaseFrameHeader(fr)
		}
	}()
	if pan != nil {
		return mk("parser-panic", lastType+" "+where, fmt.Sprintf("panic reading a stream cut %s of a %s frame: %v", where, lastType, pan))
	}
	if ev := poolEventsSince(s, 0); len(ev) > 0 {
		return mk("pool-double-release", lastType+" cut-"+where, fmt.Sprintf("stream cut %s of a %s frame: %v", where, lastType, ev))
	}
	if same := poolsDistinct(); same != "" {
		return mk("pool-two-owners", same+" cut-"+where, fmt.Sprintf("after a stream cut %s of a %s frame two acquirers obtained the same %s", where, lastType, same))
	}
	return nil
}

// c16Hpack drives Next over arbitrary bytes.
func c16Hpack(cs c16Case) *fw.Violation {
	in, _ := hex.DecodeString(cs.Hex)
	mk := func(rule, shape, detail string) *fw.Violation {
		return &fw.Violation{Rule: rule, Shape: shape, Detail: detail + fmt.Sprintf(" [input %s]", cs.Hex), Replay: map[string]any{"family": "c16", "case": cs}}
	}
	hp := newImplDecoder(4096)
	defer http2.ReleaseHPACK(hp)
	if cs.Access != "" {
		a, _ := hex.DecodeString(cs.Access)
		implDecodeBlock(hp, a, "next")
	}
	var pan any
	var v *fw.Violation
	func() {
		defer func() { pan = recover() }()
		hf := http2.AcquireHeaderField()
		defer http2.ReleaseHeaderField(hf)
		b := in
		for steps := 0; len(b) > 0; steps++ {
			before := len(b)
			var err error
			b, err = hp.Next(hf, b)
			if err != nil {
				return
			}
			if len(b) >= before {
				v = mk("hpack-no-progress", fmt.Sprintf("first-byte-%#x", in[len(in)-before]&0xf0), fmt.Sprintf("Next returned no error and consumed nothing with %d bytes left", before))
				return
			}
			if out := len(hf.KeyBytes()) + len(hf.ValueBytes()); out > 2*len(in)+128 {
				v = mk("hpack-output-unbounded", "size", fmt.Sprintf("field of %d bytes decoded from %d input bytes", out, len(in)))
				return
			}
			if steps > len(in)+4 {
				v = mk("hpack-no-progress", "steps", "more steps than input bytes")
				return
			}
		}
	}()
	if pan != nil {
		return mk("parser-panic", "hpack", fmt.Sprintf("HPACK.Next panicked: %v", pan))
	}
	return v
}

// c16HpackResume: a header block reaches the decoder in two pieces (HEADERS + CONTINUATION). The connections
// decode what is there field by field; when a step fails for lack of octets they keep everything from the first
// octet of that field and go on when the rest has arrived. A step that fails must therefore leave nothing behind:
// the fields decoded and the dynamic table at the end must be those of the block decoded in one piece.
func c16HpackResume(cs c16Case) *fw.Violation {
	in, _ := hex.DecodeString(cs.Hex)
	mk := func(rule, shape, detail string) *fw.Violation {
		return &fw.Violation{Rule: rule, Shape: shape, Detail: detail + fmt.Sprintf(" [block %s, first piece %d octets]", cs.Hex, cs.Cut), Replay: map[string]any{"family": "c16", "case": cs}}
	}
	rt := ref.NewTable()
	want, werr := ref.DecodeBlock(rt, in)
	if werr != nil {
		return nil // only well-formed blocks are resumed
	}
	hp := newImplDecoder(4096)
	defer http2.ReleaseHPACK(hp)
	var got []ref.Field
	var pan any
	var failure string
	func() {
		defer func() { pan = recover() }()
		hf := http2.AcquireHeaderField()
		defer http2.ReleaseHeaderField(hf)
		avail := append([]byte{}, in[:cs.Cut]...)
		second := false
		for {
			for len(avail) > 0 {
				rest, err := hp.Next(hf, avail)
				if err != nil {
					if second {
						failure = fmt.Sprintf("with the whole block there, Next fails: %v", err)
						return
					}
					break
				}
				got = append(got, ref.Field{Name: string(hf.KeyBytes()), Value: string(hf.ValueBytes())})
				avail = rest
			}
			if second {
				return
			}
			second = true
			avail = append(append([]byte{}, avail...), in[cs.Cut:]...)
		}
	}()
	if pan != nil {
		return mk("parser-panic", "hpack-resume", fmt.Sprintf("HPACK.Next panicked: %v", pan))
	}
	first := in[0] & 0xf0
	if failure != "" {
		return mk("hpack-failed-step-left-state", fmt.Sprintf("first-byte-%#x fails-later", first), failure)
	}
	var wf []ref.Field
	for _, f := range want {
		wf = append(wf, f.Field)
	}
	// size updates produce no field: Next may report them as a step with an empty field; compare the non-empty ones
	strip := func(fs []ref.Field) []ref.Field {
		var out []ref.Field
		for _, f := range fs {
			if f.Name != "" {
				out = append(out, f)
			}
		}
		return out
	}
	if g, w := strip(got), strip(wf); !sameTable(g, w) {
		return mk("hpack-failed-step-left-state", fmt.Sprintf("first-byte-%#x fields", first), fmt.Sprintf("decoded in two pieces the block gives %v, in one piece %v", g, w))
	}
	if !sameTable(implTable(hp), rt.Ents) {
		return mk("hpack-failed-step-left-state", fmt.Sprintf("first-byte-%#x table", first), fmt.Sprintf("after decoding in two pieces the dynamic table is %v, RFC 7541 gives %v", implTable(hp), rt.Ents))
	}
	return nil
}

func c16Eval(cs c16Case) *fw.Violation {
	switch cs.Family {
	case "hpack-resume":
		return c16HpackResume(cs)
	case "trunc":
		return c16Trunc(cs)
	case "hpack":
		return c16Hpack(cs)
	}
	return c16Frame(cs)
}

func runC16(c *fw.Ctx) {
	thorough := c.Tier == "thorough"
	var item int64
	do := func(cs c16Case, nontrivial bool) {
		if item++; !c.Mine(item) {
			return
		}
		in, _ := hex.DecodeString(cs.Hex)
		c.Eval(nt(nontrivial, append([]byte(cs.Family), in...)))
		c.AddTransitions(1)
		if len(in) >= 9 && cs.Family == "frame" {
			c.State(fw.Hash(in[3], min(int(in[0])<<16|int(in[1])<<8|int(in[2]), 20), in[4]&0x28))
		}
		if v := c16Eval(cs); v != nil {
			c.Violate(*v)
			c.Outcome(v.Rule)
		} else {
			c.Outcome("ok:" + cs.Family)
		}
	}
	lengths := []int{0, 1, 2, 3, 4, 5, 6, 7, 8, 9, 10, 11, 12, 255, 16384, 16385, 1<<24 - 1}
	types := []uint8{0, 1, 2, 3, 4, 5, 6, 7, 8, 9, 10, 11, 12, 0x7f, 0x80, 0xff}
	streams := [][4]byte{{0, 0, 0, 0}, {0, 0, 0, 1}, {0, 0, 0, 2}, {0x7f, 0xff, 0xff, 0xff}, {0x80, 0, 0, 1}}
	maxes := []uint32{16384, 1<<24 - 1}
	c.Bound["lengths"] = lengths
	c.Bound["types"] = len(types)
	filler := func(n int) []byte {
		b := make([]byte, n)
		for i := range b {
			b[i] = byte(0x40 + i%7)
		}
		return b
	}
	for _, typ := range types {
		for _, length := range lengths {
			if c.Expired("frame grid") {
				break
			}
			var flagSet []uint8
			if length <= 1 {
				for f := 0; f < 256; f++ {
					flagSet = append(flagSet, uint8(f))
				}
			} else {
				def := peer.DefinedFlags(typ)
				for f := 0; f < 256; f++ {
					if uint8(f)&^def == 0 {
						flagSet = append(flagSet, uint8(f), uint8(f)|0x40)
					}
				}
			}
			if length >= 255 {
				flagSet = []uint8{0, 0x1, 0x8, 0x9, 0x20, 0x28, 0x40}
			}
			for _, flags := range flagSet {
				for si, st := range streams {
					if length > 12 && si > 1 {
						continue
					}
					for _, max := range maxes {
						if length > 16385 && max > 16384 && !thorough {
							continue
						}
						hdr := append(peer.RawHeader(length, typ, flags, 0)[:5], st[:]...)
						var payloads [][]byte
						switch {
						case length == 0:
							payloads = [][]byte{{}}
						case length <= 2 && (thorough || si <= 1):
							n := 1
							for i := 0; i < length; i++ {
								n *= 256
							}
							step := 1
							if length == 2 && !thorough {
								step = 257 * 3 // quick: a stride through the 2-byte space
							}
							for v := 0; v < n; v += step {
								p := make([]byte, length)
								x := v
								for i := length - 1; i >= 0; i-- {
									p[i] = byte(x)
									x >>= 8
								}
								payloads = append(payloads, p)
							}
						case length <= 2:
							payloads = [][]byte{filler(length), bytes.Repeat([]byte{0xff}, length), make([]byte, length)}
						case uint32(length) > max:
							payloads = [][]byte{{}} // must be refused from the header alone
						default:
							base := filler(length)
							payloads = append(payloads, base)
							// every structural byte: pad length (byte 0) and the first byte of each fixed field
							for _, pos := range []int{0, 1, 4, 5} {
								if pos >= length {
									continue
								}
								for _, bv := range []byte{0, 1, byte(length - 1), byte(length), byte(length + 1), 0x7f, 0x80, 0xff} {
									p := append([]byte{}, base...)
									p[pos] = bv
									payloads = append(payloads, p)
								}
							}
							if length > 4096 {
								payloads = payloads[:3]
							}
						}
						for _, p := range payloads {
							in := append(append([]byte{}, hdr...), p...)
							malformed := typ > 9 || uint32(length) > max
							if !malformed && len(p) == length {
								_, e := peer.SemOf(peer.Frame{Type: typ, Flags: flags, Payload: p})
								malformed = e != nil
							}
							do(c16Case{Family: "frame", Hex: hex.EncodeToString(in), Max: max}, malformed || flags&^peer.DefinedFlags(typ) != 0)
						}
					}
				}
			}
		}
	}
	c.Family("frame-grid")
	c.Sample(map[string]any{"family": "frame", "hex": "000005" + "03" + "00" + "00000001" + "0000000800", "meaning": "RST_STREAM with a 5-byte payload, must be rejected"})

	// truncation of a valid stream at every offset
	var stream []byte
	for _, f := range []peer.Frame{
		peer.Settings(peer.Setting{ID: 3, Val: 100}, peer.Setting{ID: 4, Val: 65535}),
		peer.SettingsAck(),
		peer.Headers(1, []byte{0x82, 0x86, 0x84, 0x41, 0x01, 'a'}, peer.HeadersOpt{EndHeaders: true, Pad: -1}),
		peer.Data(1, []byte("hello world"), false, 3),
		peer.Headers(3, []byte{0x82, 0x86}, peer.HeadersOpt{Pad: 2, Prio: true, Dep: 1, Weight: 9}),
		peer.Continuation(3, []byte{0x84, 0x41, 0x01, 'b'}, true),
		peer.Priority(5, 1, true, 200),
		peer.WindowUpdate(0, 1000),
		peer.Ping(false, [8]byte{1, 2, 3, 4, 5, 6, 7, 8}),
		{Type: 0x0b, Stream: 1, Payload: []byte("ext")},
		{Type: peer.TPushPromise, Stream: 1, Flags: peer.FEndHeaders, Payload: []byte{0, 0, 0, 2, 0x82}},
		peer.RstStream(3, 8),
		peer.GoAway(3, 0, "bye"),
	} {
		stream = f.Append(stream)
	}
	c.Bound["truncation_stream_bytes"] = len(stream)
	for cut := 0; cut <= len(stream); cut++ {
		do(c16Case{Family: "trunc", Hex: hex.EncodeToString(stream[:cut]), Max: 16384}, cut < len(stream))
	}
	c.Family("truncation")
	c.Sample(map[string]any{"family": "trunc", "stream_frames": 13, "cut_offsets": len(stream) + 1})

	// HPACK: arbitrary bytes through Next
	hl := 2
	if thorough {
		hl = 3
	}
	c.Bound["hpack_bytes_len"] = hl
	access := hex.EncodeToString([]byte{0x40, 0x01, 'a', 0x01, '1', 0x40, 0x02, 'b', 'b', 0x02, '2', '2'})
	for _, acc := range []string{"", access} {
		for n := 1; n <= hl; n++ {
			total := 1
			for i := 0; i < n; i++ {
				total *= 256
			}
			for v := 0; v < total; v++ {
				if v&0x3fff == 0 && c.Expired("hpack bytes") {
					break
				}
				b := make([]byte, n)
				x := v
				for i := n - 1; i >= 0; i-- {
					b[i] = byte(x)
					x >>= 8
				}
				do(c16Case{Family: "hpack", Hex: hex.EncodeToString(b), Access: acc}, true)
			}
		}
	}
	// varints of every length (1..12 continuation octets) in every position a decoder reads one
	for _, first := range []byte{0x80 | 0x7f, 0x40 | 0x3f, 0x0f, 0x1f, 0x3f} {
		for n := 1; n <= 12; n++ {
			for _, lastb := range []byte{0x7f, 0x01, 0x00} {
				b := []byte{first}
				for i := 0; i < n-1; i++ {
					b = append(b, 0xff)
				}
				b = append(b, lastb, 0x01, 'v')
				do(c16Case{Family: "hpack", Hex: hex.EncodeToString(b)}, true)
			}
		}
	}
	for _, first := range []byte{0x00, 0x10, 0x40} {
		for n := 1; n <= 12; n++ {
			for _, hbit := range []byte{0x00, 0x80} {
				for _, lastb := range []byte{0x7f, 0x01, 0x00} {
					l := []byte{0x7f | hbit}
					for i := 0; i < n-1; i++ {
						l = append(l, 0xff)
					}
					l = append(l, lastb)
					do(c16Case{Family: "hpack", Hex: hex.EncodeToString(append([]byte{first, 0x01, 'k'}, l...))}, true)
					do(c16Case{Family: "hpack", Hex: hex.EncodeToString(append([]byte{first}, l...))}, true)
					do(c16Case{Family: "hpack", Hex: hex.EncodeToString(append([]byte{first | 0x02}, l...))}, true)
				}
			}
		}
	}
	c.Family("hpack-bytes")
	// HPACK: well-formed blocks in two pieces, every cut
	seenBlk := map[string]bool{}
	for _, fs := range [][]ref.Field{
		{{Name: "a", Value: "bc"}, {Name: "a", Value: "bc"}},
		{{Name: ":path", Value: "/xy"}, {Name: ":path", Value: "/xy"}, {Name: "k", Value: "v"}},
		{{Name: "x-k", Value: ""}, {Name: "x-k", Value: "w"}, {Name: "x-k", Value: ""}},
		{{Name: "cookie", Value: valOfLen(130)}, {Name: "cookie", Value: valOfLen(130)}},
	} {
		for rep := 0; rep < 4; rep++ {
			for bits := 0; bits < 8; bits++ {
				for _, upd := range []int{-1, 0, 100} {
					t := ref.NewTable()
					var blk []byte
					if upd >= 0 {
						blk = ref.EncodeSizeUpdate(blk, t, upd)
						blk = ref.EncodeSizeUpdate(blk, t, 4096)
					}
					ch := ref.EncChoice{Rep: ref.Rep(rep), NameIndex: bits&1 != 0, HuffName: bits&2 != 0, HuffValue: bits&4 != 0}
					for i, f := range fs {
						c2 := ch
						if i > 0 {
							c2.Rep = ref.RepIndexed // a reference to what the first field inserted, if it did
						}
						blk = ref.EncodeField(blk, t, f, c2)
					}
					hx := hex.EncodeToString(blk)
					if seenBlk[hx] {
						continue
					}
					seenBlk[hx] = true
					for cut := 1; cut < len(blk); cut++ {
						do(c16Case{Family: "hpack-resume", Hex: hx, Cut: cut}, true)
					}
				}
			}
		}
	}
	c.Family("hpack-resume")
	c.AddTraces(c.Evals)
}

func replayC16(raw json.RawMessage) (string, bool) {
	var r struct {
		Case c16Case `json:"case"`
	}
	if err := json.Unmarshal(raw, &r); err != nil {
		return err.Error(), false
	}
	if v := c16Eval(r.Case); v != nil {
		return v.Rule + ": " + v.Detail, true
	}
	return "parser behaved (error or correct reading, pools clean)", false
}
