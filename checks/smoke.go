package checks

import (
	"fmt"
	"os"
	"strings"
	"verif/ref"

	"verif/fw"
	"verif/harness"
	"verif/peer"
)

func init() {
	fw.Register(&fw.Check{ID: "SMOKE", Level: "other", Rule: "smoke", Run: runSmoke, QuickS: 10})
}

func runSmoke(c *fw.Ctx) {
	if c.Shard != 0 {
		return
	}
	h := harness.NewServer(harness.ServerOpts{MaxConcurrentStreams: 2, Debug: os.Getenv("SMOKE_DEBUG") != ""})
	defer h.Close()
	fmt.Println("after handshake:", h.Out, "live:", h.S.Live())
	blk := h.PeerEnc.Block(harness.ReqFields("GET", "https", "example.com", "/a?b=c", [2]string{"x-sid", "1"}), nil)
	h.SendFrames(peer.Headers(1, blk, peer.HeadersOpt{EndStream: true, EndHeaders: true, Pad: -1}))
	fmt.Println("calls:", len(h.Calls), "live:", h.S.Live())
	if len(h.Calls) > 0 {
		fmt.Printf("req: %+v\n", h.Calls[0].Req)
		h.Finish(0, harness.Resp{Status: 200, Headers: [][2]string{{"X-Custom", "v"}}, Body: []byte("hello")})
	}
	for id, so := range h.Streams {
		fmt.Printf("stream %d: %+v\n", id, so)
	}
	fmt.Println("out:", h.Out)
	fmt.Println("log:", h.Log, "panics:", h.S.Panics, "events:", h.S.Events, "steps:", h.S.Steps)
	h.PeerClose()
	h.Drain(5)
	fmt.Println("returned:", h.Returned, h.ServeErr, "live:", h.S.Live(), "log:", h.Log)
	c.Eval(1)
	c.Eval(2)
	c.Sample("smoke")
}

func init() {
	fw.Register(&fw.Check{ID: "SMOKEC", Level: "other", Rule: "client smoke", Run: runSmokeClient, QuickS: 10})
}

func runSmokeClient(c *fw.Ctx) {
	if c.Shard != 0 {
		return
	}
	h := harness.NewClient(harness.ClientOpts{})
	defer h.Close()
	call := h.Go(harness.ReqSpec{Tag: "a", Method: "POST", Path: "/p?q=1", Headers: [][2]string{{"X-A", "1"}, {"Connection", "close"}}, Body: []byte("hello")})
	fmt.Println("dials:", h.Dials, "conns:", len(h.Conns), "live:", h.S.Live())
	sc := h.Conns[0]
	fmt.Println("client sent:", sc.Out, "settings:", sc.Settings, "errs:", sc.ProtoErrs)
	for id, s := range sc.Streams {
		fmt.Printf("stream %d: %+v\n", id, s)
	}
	h.Send(0, sc.RespFrames(1, []ref.Field{{Name: ":status", Value: "200"}, {Name: "x-r", Value: "v"}}, nil, nil, [][]byte{[]byte("wor"), []byte("ld")}, -1)...)
	fmt.Printf("call: done=%v err=%v status=%d headers=%v body=%q\n", call.Done, call.Err, call.Status, call.Headers, call.Body)
	fmt.Println("client sent:", sc.Out)
	fmt.Println("armed timers:", len(h.S.Armed()), "live:", h.S.Live())
	h.CloseClient()
	fmt.Println("after close live:", h.S.Live(), "panics:", h.S.Panics)
	c.Eval(1)
	c.Eval(2)
	c.Sample("smoke")
}

func init() {
	fw.Register(&fw.Check{ID: "C13DBG", Level: "other", Rule: "dbg", Run: func(c *fw.Ctx) {
		if c.Shard != 0 {
			return
		}
		x := newC13()
		moves := []string{"headers-open-block", "continuation-unfinished-field", "continuation-unfinished-field", "continuation-unfinished-field", "continuation-unfinished-field", "continuation-unfinished-field"}
		if os.Getenv("C13DBG_MOVES") != "" {
			moves = strings.Split(os.Getenv("C13DBG_MOVES"), ",")
		}
		for _, mv := range moves {
			fmt.Println("menu:", x.menu())
			x.apply(mv)
			r, s, d := x.check()
			fmt.Println(mv, "dead:", x.dead, "blockBytes:", x.blockBytes, "reaction:", x.h.Reaction(0), r, s, d)
		}
		c.Eval(1)
		c.Eval(2)
		c.Sample("x")
	}, QuickS: 10})
}
