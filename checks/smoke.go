package checks

import (
	"fmt"
	"os"

	"verif/fw"
	"verif/harness"
	"verif/peer"
)

func init() {
	fw.Register(&fw.Check{ID: "SMOKE", Level: "other", Rule: "smoke", Run: runSmoke, QuickS: 10})
}

func runSmoke(c *fw.Ctx) {
	if c.Shard != 0 {
		return
	}
	h := harness.NewServer(harness.ServerOpts{MaxConcurrentStreams: 2, Debug: os.Getenv("SMOKE_DEBUG") != ""})
	defer h.Close()
	fmt.Println("after handshake:", h.Out, "live:", h.S.Live())
	blk := h.PeerEnc.Block(harness.ReqFields("GET", "https", "example.com", "/a?b=c", [2]string{"x-sid", "1"}), nil)
	h.SendFrames(peer.Headers(1, blk, peer.HeadersOpt{EndStream: true, EndHeaders: true, Pad: -1}))
	fmt.Println("calls:", len(h.Calls), "live:", h.S.Live())
	if len(h.Calls) > 0 {
		fmt.Printf("req: %+v\n", h.Calls[0].Req)
		h.Finish(0, harness.Resp{Status: 200, Headers: [][2]string{{"X-Custom", "v"}}, Body: []byte("hello")})
	}
	for id, so := range h.Streams {
		fmt.Printf("stream %d: %+v\n", id, so)
	}
	fmt.Println("out:", h.Out)
	fmt.Println("log:", h.Log, "panics:", h.S.Panics, "events:", h.S.Events, "steps:", h.S.Steps)
	h.PeerClose()
	h.Drain(5)
	fmt.Println("returned:", h.Returned, h.ServeErr, "live:", h.S.Live(), "log:", h.Log)
	c.Eval(1)
	c.Eval(2)
	c.Sample("smoke")
}
