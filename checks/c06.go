package checks

import (
	"encoding/json"
	"fmt"
	"strings"

	"verif/fw"
	"verif/harness"
	"verif/peer"
)

// C06 — the server never sends DATA beyond the peer's flow-control windows,
// and finishes once the peer has granted enough.

func init() {
	fw.Register(&fw.Check{
		ID: "C06", Level: "model_checking",
		Rule:   "ELX: peer INITIAL_WINDOW_SIZE in {0,1,5}; a prelude response of 65530 bytes leaves the connection window at 5; 1-2 (quick) / 3 (thorough) streams with response sizes from {0,1,3,6,16384,16385,40000}, buffered or streamed; every sequence up to the depth bound of {handler i returns, WINDOW_UPDATE(stream i, 1|2|big), WINDOW_UPDATE(0, 1|3|big), SETTINGS_INITIAL_WINDOW_SIZE in {0,1,4,70000}, RST_STREAM(i)}; then a closing phase grants everything. Oracle: the peer's ledger (initial windows, SETTINGS deltas, WINDOW_UPDATE credits, DATA debits) never goes below zero at a DATA frame, no DATA frame above 16384, at every quiescent state no stream with unsent bytes has both windows positive, and every response completes with END_STREAM once. Non-trivial: a window blocked a send at some point of the sequence; distinct by (config, sequence).",
		Assume: []string{"canonical internal schedule between events", "DATA frames are attributed to windows in the order the peer receives them"},
		Run:    runC06, Replay: replayC06, Policies: 1, QuickS: 200, ThoroughS: 900,
	})
}

type c06Cfg struct {
	InitWin  uint32 `json:"init_window"`
	Sizes    []int  `json:"sizes"`
	Streamed []bool `json:"streamed"`
	// Kinds (optional, per stream) picks the reader of a streamed body: 0 declared length, 1 unknown length,
	// 2 unknown length with the last bytes returned together with io.EOF, 3 declared, one byte per Read
	Kinds []int `json:"kinds,omitempty"`
}

type c06Case struct {
	Cfg    c06Cfg   `json:"cfg"`
	Path   []int    `json:"path"`
	Events []string `json:"events,omitempty"`
}

// ledger is the peer's authoritative view of the windows it has granted.
type ledger struct {
	conn    int64
	init    int64
	stream  map[uint32]int64
	sent    map[uint32]int
	blocked bool
	// acknowledgement-aware mode (client checks): see sendSettings
	ackAware bool
	acked    int64
	unacked  []int64
}

func newLedger(init uint32) *ledger {
	return &ledger{conn: 65535, init: int64(init), stream: map[uint32]int64{}, sent: map[uint32]int{}}
}

func (l *ledger) open(id uint32) { l.stream[id] = l.init }

// sendSettings / ack: the receiver's view when it cannot know at which moment the sender applied a SETTINGS
// frame. Between sending SETTINGS and seeing its acknowledgement the sender may be using the old or the new
// INITIAL_WINDOW_SIZE, so the bound in force is the largest of the last acknowledged value and every value
// still unacknowledged (v < 0: a SETTINGS frame that does not carry the parameter).
func (l *ledger) sendSettings(v int64) {
	if !l.ackAware {
		l.ackAware, l.acked = true, l.init
	}
	l.unacked = append(l.unacked, v)
	l.rebound()
}

func (l *ledger) ack() {
	if !l.ackAware || len(l.unacked) == 0 {
		return
	}
	if v := l.unacked[0]; v >= 0 {
		l.acked = v
	}
	l.unacked = l.unacked[1:]
	l.rebound()
}

func (l *ledger) rebound() {
	b := l.acked
	for _, v := range l.unacked {
		if v > b {
			b = v
		}
	}
	d := b - l.init
	l.init = b
	for id := range l.stream {
		l.stream[id] += d
	}
}

func (l *ledger) settings(v uint32) {
	d := int64(v) - l.init
	l.init = int64(v)
	for id := range l.stream {
		l.stream[id] += d
	}
}

type c06Run struct {
	h       *harness.Server
	l       *ledger
	cfg     c06Cfg
	ids     []uint32
	fin     []bool
	rst     []bool
	seen    int // frames of h.Out already accounted
	trace   []string
	blocked bool
}

// account processes new frames; returns a violation description or "".
func (x *c06Run) account() (string, string) {
	h := x.h
	for ; x.seen < len(h.Out); x.seen++ {
		f := h.Out[x.seen]
		if f.Type != peer.TData {
			continue
		}
		n := int64(len(f.Payload))
		if len(f.Payload) > 16384 {
			return "frame-above-max-frame-size", fmt.Sprintf("DATA frame of %d bytes on stream %d (peer's SETTINGS_MAX_FRAME_SIZE is 16384)", len(f.Payload), f.Stream)
		}
		sw, ok := x.l.stream[f.Stream]
		if !ok {
			continue
		}
		if n > 0 && (sw < n || x.l.conn < n) {
			which := "stream"
			if x.l.conn < n {
				which = "connection"
			}
			return "window-exceeded " + which, fmt.Sprintf("DATA of %d bytes on stream %d with stream window %d and connection window %d", n, f.Stream, sw, x.l.conn)
		}
		x.l.stream[f.Stream] -= n
		x.l.conn -= n
		x.l.sent[f.Stream] += int(n)
	}
	return "", ""
}

// stuck reports a stream that has unsent bytes while both windows are positive.
func (x *c06Run) stuck() string {
	for i, id := range x.ids {
		if !x.fin[i] || x.rst[i] {
			continue
		}
		left := x.cfg.Sizes[i] - x.l.sent[id]
		so := x.h.Streams[id]
		done := so != nil && so.EndStream > 0
		if left > 0 && x.l.stream[id] > 0 && x.l.conn > 0 {
			return fmt.Sprintf("stream %d has %d unsent bytes, stream window %d, connection window %d, and nothing more is sent", id, left, x.l.stream[id], x.l.conn)
		}
		if left == 0 && !done {
			return fmt.Sprintf("stream %d: all %d bytes sent but END_STREAM never arrived", id, x.cfg.Sizes[i])
		}
		if left > 0 {
			x.blocked = true
		}
	}
	return ""
}

func c06Resp(size int, streamed bool, kind int) harness.Resp {
	body := []byte(valOfLen(size))
	if streamed {
		var chunks [][]byte
		if size > 0 {
			chunks = [][]byte{body[:size/2], body[size/2:]}
		}
		bs := &harness.BodyStream{Chunks: chunks, Declared: size}
		switch kind {
		case 1:
			bs.Declared = -1
		case 2:
			bs.Declared, bs.EOFWithLast = -1, true
		case 3:
			bs.OneByte = true
		}
		return harness.Resp{Status: 200, Stream: bs}
	}
	return harness.Resp{Status: 200, Body: body}
}

func newC06(cfg c06Cfg) (*c06Run, *fw.Violation) {
	h := harness.NewServer(harness.ServerOpts{MaxConcurrentStreams: 8, PeerSettings: []peer.Setting{{ID: peer.SInitialWindowSize, Val: cfg.InitWin}}})
	x := &c06Run{h: h, l: newLedger(cfg.InitWin), cfg: cfg}
	// prelude: use the connection window down to 5 bytes
	h.SendFrames(peer.Headers(1, reqBlock(1, "GET"), peer.HeadersOpt{EndStream: true, EndHeaders: true, Pad: -1}))
	x.l.open(1)
	h.SendFrames(peer.WindowUpdate(1, 70000))
	x.l.stream[1] += 70000
	h.Finish(0, harness.Resp{Status: 200, Body: []byte(valOfLen(65530))})
	if rule, d := x.account(); rule != "" {
		return x, x.viol(rule, d)
	}
	if x.l.conn != 5 || x.l.sent[1] != 65530 {
		return x, x.viol("prelude-incomplete", fmt.Sprintf("prelude response: %d of 65530 bytes arrived, connection window %d", x.l.sent[1], x.l.conn))
	}
	id := uint32(3)
	for range cfg.Sizes {
		h.SendFrames(peer.Headers(id, reqBlock(id, "GET"), peer.HeadersOpt{EndStream: true, EndHeaders: true, Pad: -1}))
		x.l.open(id)
		x.ids = append(x.ids, id)
		x.fin = append(x.fin, false)
		x.rst = append(x.rst, false)
		id += 2
	}
	return x, nil
}

func (x *c06Run) viol(rule, detail string) *fw.Violation {
	shape := rule
	return &fw.Violation{Rule: strings.SplitN(rule, " ", 2)[0], Shape: shape, Detail: detail + "\n    trace: " + strings.Join(x.trace, " ; ")}
}

func (x *c06Run) menu() []string {
	var m []string
	for i := range x.ids {
		if !x.fin[i] && !x.rst[i] {
			m = append(m, fmt.Sprintf("finish %d", i))
		}
	}
	for i := range x.ids {
		if x.rst[i] {
			continue
		}
		for _, n := range []int{1, 2, 100000} {
			m = append(m, fmt.Sprintf("wu %d %d", i, n))
		}
	}
	for _, n := range []int{1, 3, 100000} {
		m = append(m, fmt.Sprintf("wu0 %d", n))
	}
	for _, v := range []int{0, 1, 4, 70000} {
		if int64(v) != x.l.init {
			m = append(m, fmt.Sprintf("settings %d", v))
		}
	}
	// a SETTINGS frame that does not mention the initial window must change no window
	m = append(m, "othersettings")
	for i := range x.ids {
		if !x.rst[i] && x.fin[i] {
			m = append(m, fmt.Sprintf("rst %d", i))
		}
	}
	return m
}

func (x *c06Run) apply(ev string) *fw.Violation {
	h := x.h
	var a, b int
	switch {
	case strings.HasPrefix(ev, "finish"):
		fmt.Sscanf(ev, "finish %d", &a)
		for _, c := range h.Calls {
			if c.Stream == x.ids[a] && !c.Returned {
				kind := 0
				if a < len(x.cfg.Kinds) {
					kind = x.cfg.Kinds[a]
				}
				h.Finish(c.Idx, c06Resp(x.cfg.Sizes[a], x.cfg.Streamed[a], kind))
			}
		}
		x.fin[a] = true
	case strings.HasPrefix(ev, "wu0"):
		fmt.Sscanf(ev, "wu0 %d", &a)
		x.l.conn += int64(a)
		h.SendFrames(peer.WindowUpdate(0, uint32(a)))
	case strings.HasPrefix(ev, "wu"):
		fmt.Sscanf(ev, "wu %d %d", &a, &b)
		x.l.stream[x.ids[a]] += int64(b)
		h.SendFrames(peer.WindowUpdate(x.ids[a], uint32(b)))
	case ev == "othersettings":
		h.SendFrames(peer.Settings(peer.Setting{ID: peer.SHeaderTableSize, Val: 4096}, peer.Setting{ID: peer.SMaxFrameSize, Val: 16384}))
	case strings.HasPrefix(ev, "settings"):
		fmt.Sscanf(ev, "settings %d", &a)
		x.l.settings(uint32(a))
		h.SendFrames(peer.Settings(peer.Setting{ID: peer.SInitialWindowSize, Val: uint32(a)}))
	case strings.HasPrefix(ev, "rst"):
		fmt.Sscanf(ev, "rst %d", &a)
		x.rst[a] = true
		h.SendFrames(peer.RstStream(x.ids[a], 8))
	}
	x.trace = append(x.trace, fmt.Sprintf("%s -> conn=%d streams=%v", ev, x.l.conn, x.windows()))
	if rule, d := x.account(); rule != "" {
		return x.viol(rule, d)
	}
	x.trace[len(x.trace)-1] = fmt.Sprintf("%s -> conn=%d streams=%v", ev, x.l.conn, x.windows())
	if len(h.GoAways) > 0 || h.C.Closed() {
		return x.viol("connection-error", "legal flow-control traffic ended in "+h.Reaction(0))
	}
	if s := x.stuck(); s != "" {
		return x.viol("stuck-with-open-windows", s)
	}
	return nil
}

func (x *c06Run) windows() []int64 {
	var w []int64
	for _, id := range x.ids {
		w = append(w, x.l.stream[id])
	}
	return w
}

// finishAll grants everything and requires every response to complete.
func (x *c06Run) finishAll() *fw.Violation {
	for i := range x.ids {
		if !x.fin[i] && !x.rst[i] {
			if v := x.apply(fmt.Sprintf("finish %d", i)); v != nil {
				return v
			}
		}
	}
	if x.l.init < 0 || x.l.init != 65535 {
		if v := x.apply("settings 65535"); v != nil {
			return v
		}
	}
	if v := x.apply("wu0 1000000"); v != nil {
		return v
	}
	for i := range x.ids {
		if x.rst[i] {
			continue
		}
		if v := x.apply(fmt.Sprintf("wu %d 1000000", i)); v != nil {
			return v
		}
	}
	for i, id := range x.ids {
		if x.rst[i] {
			continue
		}
		kind := 0
		if i < len(x.cfg.Kinds) {
			kind = x.cfg.Kinds[i]
		}
		if d, cls := harness.CheckResponse(x.h.Streams[id], c06Resp(x.cfg.Sizes[i], x.cfg.Streamed[i], kind)); d != "" {
			return x.viol("response-incomplete "+cls, fmt.Sprintf("after every window was opened, stream %d: %s", id, d))
		}
	}
	return nil
}

func c06Exec(cfg c06Cfg, path []int, closing bool) (menu int, v *fw.Violation, x *c06Run, evs []string) {
	x, v = newC06(cfg)
	if v != nil {
		return 0, v, x, nil
	}
	for i, c := range path {
		m := x.menu()
		if c >= len(m) {
			return 0, nil, x, evs
		}
		evs = append(evs, m[c])
		if vv := x.apply(m[c]); vv != nil {
			if i == len(path)-1 {
				return 0, vv, x, evs
			}
			return 0, nil, x, evs
		}
	}
	menu = len(x.menu())
	if closing {
		if vv := x.finishAll(); vv != nil {
			return 0, vv, x, evs
		}
	}
	return menu, nil, x, evs
}

func runC06(c *fw.Ctx) {
	runSpxFamily(c, "C06")
	if c.Tier == "thorough" {
		runC06Hist(c) // the thorough exploration uses its whole budget: the long histories go first there
	} else {
		defer runC06Hist(c) // last: if the time budget runs out it is the long histories that are cut short
	}
	thorough := c.Tier == "thorough"
	cfgs := []c06Cfg{
		{0, []int{3}, []bool{false}, nil}, {1, []int{6}, []bool{true}, nil}, {5, []int{6, 3}, []bool{false, false}, nil}, {1, []int{3, 1}, []bool{true, false}, nil},
		{5, []int{16385}, []bool{false}, nil}, {0, []int{0, 3}, []bool{true, true}, nil},
		// three streams blocked on the connection window alone (stream windows are large)
		{70000, []int{6, 6, 6}, []bool{false, false, false}, nil},
	}
	// streamed responses held up by the connection window alone, with every kind of reader
	cfgs = append(cfgs, c06Cfg{70000, []int{6, 6, 6}, []bool{true, true, true}, []int{0, 2, 1}}, c06Cfg{70000, []int{3, 6}, []bool{true, false}, []int{2, 0}}, c06Cfg{70000, []int{6, 3}, []bool{true, true}, []int{3, 0}})
	depth := 4
	if thorough {
		depth = 5
		cfgs = append(cfgs, c06Cfg{1, []int{40000, 6}, []bool{true, false}, nil}, c06Cfg{5, []int{16384, 1}, []bool{false, true}, nil}, c06Cfg{0, []int{1, 3, 6}, []bool{false, true, false}, nil}, c06Cfg{5, []int{6, 6, 0}, []bool{true, false, true}, nil})
	}
	c.Bound["depth"] = depth
	c.Bound["configs"] = len(cfgs)
	sampled := 0
	for _, cfg := range cfgs {
		cfg := cfg
		harness.Explore(c, fmt.Sprintf("C06 %v", cfg), depth, 2, func(path []int) int {
			// every explored sequence is also closed: grant everything, all responses must complete
			menu, v, x, evs := c06Exec(cfg, path, true)
			defer x.h.Close()
			js, _ := json.Marshal(c06Case{Cfg: cfg, Path: path})
			c.Eval(nt(x.blocked, js))
			c.AddTransitions(int64(x.h.Events))
			c.AddTraces(1)
			c.State(fw.Hash(fmt.Sprint(cfg), x.l.conn, x.windows(), x.fin, x.rst, x.l.sent))
			if v != nil {
				v.Replay = map[string]any{"family": "c06", "case": c06Case{Cfg: cfg, Path: append([]int{}, path...), Events: evs}}
				c.Violate(*v)
				c.Outcome(v.Rule)
				return 0
			}
			c.Outcome("within-windows-and-complete")
			if sampled < 3 && len(path) == depth && x.blocked {
				sampled++
				c.Sample(map[string]any{"cfg": cfg, "trace": x.trace})
			}
			return menu
		})
	}
}

func replayC06(raw json.RawMessage) (string, bool) {
	var fam struct {
		Family string `json:"family"`
	}
	json.Unmarshal(raw, &fam)
	if fam.Family == "c06hist" {
		return replayC06Hist(raw)
	}
	var r struct {
		Case c06Case `json:"case"`
	}
	if err := json.Unmarshal(raw, &r); err != nil {
		return err.Error(), false
	}
	_, v, x, _ := c06Exec(r.Case.Cfg, r.Case.Path, true)
	defer x.h.Close()
	if v != nil {
		return v.Rule + " [" + v.Shape + "]: " + v.Detail, true
	}
	return "windows respected and responses complete: " + strings.Join(x.trace, " ; "), false
}
