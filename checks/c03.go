package checks

import (
	"bytes"
	"encoding/hex"
	"encoding/json"
	"fmt"
	"strings"

	"github.com/dgrr/http2"
	"golang.org/x/net/http2/hpack"

	"verif/fw"
	"verif/ref"
)

// C03 — the HPACK decoder yields exactly what any conforming encoder encoded.
//
// AX: explicit-state search over the reference decoder's state (dynamic table
// contents + both limits). Every state is reached on a fresh real HPACK value
// by replaying its shortest access sequence of header blocks; every block of
// the alphabet is then decoded by the implementation (through the block-level
// step the server uses, and through the public Next the client uses) and
// compared with ref.DecodeBlock: ordered (name, value, sensitive) triples and
// the dynamic table afterwards. x/net's decoder is run on every generated block
// as a second reference (reference_disagreements).
// BX (rejection half): at several table states every byte string up to a
// length, and a catalogue of invalid forms appended to valid prefixes.

func init() {
	fw.Register(&fw.Check{
		ID: "C03", Level: "model_checking",
		Rule:   "AX: BFS over reference decoder states (dynamic table x limits), each state reached on a fresh real HPACK by its access sequence, every alphabet block (representation x name source x Huffman x value-length classes incl. length==first byte, 127/128/300, size updates) decoded via nextField(server mode) and Next(client mode) and compared with the RFC 7541 reference (fields, sensitivity, table); BX: all byte strings up to the bound as complete blocks at 3 table states + invalid-form catalogue. Non-trivial: block touches the dynamic table, or is rejected by the reference, or has >= 2 fields; distinct by (state, block bytes).",
		Assume: []string{"ref/hpack.go is RFC 7541 (cross-checked against x/net's decoder on every generated block)", "size-update-only blocks are not generated (the decoder API cannot express 'no field')", "over-long but non-overflowing integer encodings are not generated (RFC 7541 5.1 lets an implementation reject them)"},
		Run:    runC03, Replay: replayC03, QuickS: 120, ThoroughS: 600,
	})
}

type fieldChoice struct {
	F  ref.Field
	Ch ref.EncChoice
}

func (fc fieldChoice) String() string {
	v := fc.F.Value
	if len(v) > 12 {
		v = fmt.Sprintf("<%d bytes>", len(v))
	}
	return fmt.Sprintf("%s{%s: %s idxname=%v huff=%v/%v}", fc.Ch.Rep, fc.F.Name, v, fc.Ch.NameIndex, fc.Ch.HuffName, fc.Ch.HuffValue)
}

// hpBlock is one header block of the alphabet: optional size updates, then fields.
type hpBlock struct {
	SizeUpdates []int
	Fields      []fieldChoice
}

func (b hpBlock) String() string {
	var p []string
	for _, s := range b.SizeUpdates {
		p = append(p, fmt.Sprintf("size-update(%d)", s))
	}
	for _, f := range b.Fields {
		p = append(p, f.String())
	}
	return strings.Join(p, " ; ")
}

// encode produces the bytes of blk against table t (mutated like a decoder's).
func (b hpBlock) encode(t *ref.Table) []byte {
	var out []byte
	for _, s := range b.SizeUpdates {
		out = ref.EncodeSizeUpdate(out, t, s)
	}
	for _, f := range b.Fields {
		out = ref.EncodeField(out, t, f.F, f.Ch)
	}
	return out
}

var valCache = map[int]string{}

func valOfLen(n int) string {
	if v, ok := valCache[n]; ok {
		return v
	}
	v := valOfLenSlow(n)
	valCache[n] = v
	return v
}

func valOfLenSlow(n int) string {
	const pat = "0123456789abcdefghijklmnopqrstuvwxyz-_./"
	var sb strings.Builder
	for i := 0; i < n; i++ {
		sb.WriteByte(pat[(i*7+n)%len(pat)])
	}
	return sb.String()
}

// firstByte computes the first byte of the representation a choice produces in table t.
func firstByte(t *ref.Table, f ref.Field, ch ref.EncChoice) byte {
	tt := t.Clone()
	b := ref.EncodeField(nil, tt, f, ch)
	return b[0]
}

// c03Alphabet builds the field choices available in table state t.
func c03Alphabet(t *ref.Table, full bool) []fieldChoice {
	names := []string{":method", "cookie", "x", "abc"}
	if len(t.Ents) > 0 {
		names = append(names, t.Ents[0].Name)
		if len(t.Ents) > 1 && t.Ents[len(t.Ents)-1].Name != t.Ents[0].Name {
			names = append(names, t.Ents[len(t.Ents)-1].Name)
		}
	}
	seenN := map[string]bool{}
	var out []fieldChoice
	seen := map[string]bool{}
	add := func(fc fieldChoice) {
		tt := t.Clone()
		k := string(ref.EncodeField(nil, tt, fc.F, fc.Ch))
		if !seen[k] {
			seen[k] = true
			out = append(out, fc)
		}
	}
	for _, name := range names {
		if seenN[name] {
			continue
		}
		seenN[name] = true
		baseVals := []string{"", "v", "GET"}
		if full {
			baseVals = append(baseVals, valOfLen(127), valOfLen(128), valOfLen(300), valOfLen(60))
		} else {
			baseVals = append(baseVals, valOfLen(128))
		}
		if len(t.Ents) > 0 {
			baseVals = append(baseVals, t.Ents[0].Value)
		}
		for _, rep := range []ref.Rep{ref.RepIndexed, ref.RepIncremental, ref.RepWithout, ref.RepNever} {
			for _, ni := range []bool{true, false} {
				vals := append([]string{}, baseVals...)
				if rep != ref.RepIndexed {
					// the value whose length byte equals the first byte of the representation
					c := firstByte(t, ref.Field{Name: name, Value: "zz"}, ref.EncChoice{Rep: rep, NameIndex: ni})
					if c < 128 {
						vals = append(vals, valOfLen(int(c)))
					}
				}
				for _, v := range vals {
					f := ref.Field{Name: name, Value: v, Sensitive: rep == ref.RepNever}
					if rep == ref.RepIndexed {
						if fm, _ := t.Find(name, v); fm == 0 {
							continue
						}
						add(fieldChoice{f, ref.EncChoice{Rep: rep}})
						continue
					}
					huffs := [][2]bool{{false, false}, {true, true}}
					if full {
						huffs = [][2]bool{{false, false}, {true, false}, {false, true}, {true, true}}
					}
					for _, h := range huffs {
						add(fieldChoice{f, ref.EncChoice{Rep: rep, NameIndex: ni, HuffName: h[0], HuffValue: h[1]}})
					}
				}
			}
		}
	}
	return out
}

// reduced picks a small representative subset for multi-field blocks.
func reduced(alpha []fieldChoice) []fieldChoice {
	var out []fieldChoice
	seen := map[string]bool{}
	for _, fc := range alpha {
		vl := len(fc.F.Value)
		cls := "long"
		switch {
		case vl == 0:
			cls = "empty"
		case vl <= 3:
			cls = "short"
		case vl <= 64:
			cls = "mid"
		}
		k := fmt.Sprint(fc.Ch.Rep, fc.Ch.NameIndex, fc.Ch.HuffValue, cls, fc.F.Name == ":method")
		if !seen[k] {
			seen[k] = true
			out = append(out, fc)
		}
	}
	return out
}

type implField struct {
	Name, Value string
	Sensitive   bool
}

// implDecodeBlock decodes one complete block on the real decoder.
// mode "server": the block-level step with the arguments handleHeaderFrame
// passes; mode "next": the public Next, as the client does. freshHF uses a new
// HeaderField per field (isolates the sticky-flag question).
func implDecodeBlock(hp *http2.HPACK, block []byte, mode string) (out []implField, err error, panicked any) {
	defer func() {
		if r := recover(); r != nil {
			panicked = r
		}
	}()
	hf := http2.AcquireHeaderField()
	defer http2.ReleaseHeaderField(hf)
	b := block
	fp := 0
	for len(b) > 0 {
		before := len(b)
		if mode == "server" {
			b, err = http2.VerifNextField(hp, hf, true, fp, b)
		} else {
			b, err = hp.Next(hf, b)
		}
		if err != nil {
			return out, err, nil
		}
		if len(b) >= before {
			return out, fmt.Errorf("no progress: %d bytes left before and after", before), nil
		}
		out = append(out, implField{hf.Key(), hf.Value(), hf.IsSensible()})
		fp++
		if fp > 10000 {
			return out, fmt.Errorf("runaway"), nil
		}
	}
	return out, nil, nil
}

func newImplDecoder(limit int) *http2.HPACK {
	hp := http2.AcquireHPACK()
	if limit != 4096 {
		hp.SetMaxTableSize(uint32(limit))
	}
	return hp
}

func implTable(hp *http2.HPACK) []ref.Field {
	var out []ref.Field
	for _, kv := range http2.VerifDynamic(hp) {
		out = append(out, ref.Field{Name: kv[0], Value: kv[1]})
	}
	return out
}

func sameTable(a, b []ref.Field) bool {
	if len(a) != len(b) {
		return false
	}
	for i := range a {
		if a[i].Name != b[i].Name || a[i].Value != b[i].Value {
			return false
		}
	}
	return true
}

type c03Case struct {
	Limit  int      `json:"limit"`
	Access []string `json:"access_hex"` // earlier blocks
	Block  string   `json:"block_hex"`
	Mode   string   `json:"mode"`
	Desc   string   `json:"desc,omitempty"`
}

// c03Eval decodes the case on the implementation and the reference and returns
// a violation or nil. shapeHint describes the alphabet block (empty for BX).
func c03Eval(cs c03Case, blk *hpBlock) *fw.Violation {
	t := ref.NewTable()
	t.Max, t.SettingsMax = cs.Limit, cs.Limit
	hp := newImplDecoder(cs.Limit)
	defer http2.ReleaseHPACK(hp)
	for _, ah := range cs.Access {
		ab, _ := hex.DecodeString(ah)
		if _, err := ref.DecodeBlock(t, ab); err != nil {
			return nil // not a valid access sequence
		}
		if _, err, p := implDecodeBlock(hp, ab, cs.Mode); err != nil || p != nil {
			return nil // reported when this prefix was the block under test
		}
	}
	block, _ := hex.DecodeString(cs.Block)
	want, werr := ref.DecodeBlock(t, block)
	got, gerr, pan := implDecodeBlock(hp, block, cs.Mode)
	mk := func(rule, shape, detail string) *fw.Violation {
		return &fw.Violation{Rule: rule, Shape: shape + " mode=" + cs.Mode, Detail: detail + fmt.Sprintf(" [limit=%d access=%v block=%s %s]", cs.Limit, cs.Access, cs.Block, cs.Desc), Replay: map[string]any{"family": "hpack-decode", "case": cs}}
	}
	if pan != nil {
		return mk("decoder-panic", "panic", fmt.Sprintf("decoder panicked: %v", pan))
	}
	var wf []ref.DecField
	for _, f := range want {
		if f.Rep != ref.RepSizeUpdate {
			wf = append(wf, f)
		}
	}
	if werr != nil {
		if gerr == nil {
			return mk("accepts-invalid-block", "ref="+werr.Error(), fmt.Sprintf("block is invalid under RFC 7541 (%v) but decoded to %v", werr, got))
		}
		return nil
	}
	shapeOf := func(i int) string {
		if blk != nil && i < len(blk.Fields) {
			fc := blk.Fields[i]
			tt := ref.NewTable()
			eq := ""
			if fc.Ch.Rep != ref.RepIndexed {
				tmp := ref.EncodeField(nil, tt, fc.F, fc.Ch) // shape only needs the pattern bits
				_ = tmp
			}
			if i < len(wf) {
				// value length byte == first byte of the representation?
				eq = fmt.Sprintf(" vlen=%s", lenClass(len(fc.F.Value)))
			}
			return fmt.Sprintf("%s name=%s huff=%v/%v%s", fc.Ch.Rep, map[bool]string{true: "indexed", false: "literal"}[fc.Ch.NameIndex], fc.Ch.HuffName, fc.Ch.HuffValue, eq)
		}
		if i < len(wf) {
			return wf[i].Rep.String()
		}
		return "extra-field"
	}
	if gerr != nil {
		return mk("rejects-valid-block", shapeOf(len(got)), fmt.Sprintf("valid block rejected: %v (decoded %d of %d fields)", gerr, len(got), len(wf)))
	}
	for i := 0; i < len(wf) || i < len(got); i++ {
		if i >= len(wf) || i >= len(got) {
			return mk("decoded-fields-differ", shapeOf(i)+" count", fmt.Sprintf("field count: reference %d, implementation %d (%v)", len(wf), len(got), got))
		}
		if wf[i].Name != got[i].Name || wf[i].Value != got[i].Value {
			return mk("decoded-fields-differ", shapeOf(i), fmt.Sprintf("field %d: reference (%q,%q) implementation (%q,%q)", i, wf[i].Name, short(wf[i].Value), got[i].Name, short(got[i].Value)))
		}
	}
	for i := range wf {
		if wf[i].Sensitive != got[i].Sensitive {
			prev := "first"
			if i > 0 {
				prev = "after-" + wf[i-1].Rep.String()
			}
			return mk("sensitivity-differs", wf[i].Rep.String()+" "+prev, fmt.Sprintf("field %d (%q): reference sensitive=%v implementation %v", i, wf[i].Name, wf[i].Sensitive, got[i].Sensitive))
		}
	}
	if it := implTable(hp); !sameTable(it, t.Ents) {
		return mk("dynamic-table-differs", shapeOf(len(wf)-1), fmt.Sprintf("table after block: reference %v implementation %v", t.Ents, it))
	}
	cur, set := http2.VerifTableLimits(hp)
	if int(cur) != t.Max || int(set) != t.SettingsMax {
		return mk("table-limit-differs", "limits", fmt.Sprintf("limits after block: reference %d/%d implementation %d/%d", t.Max, t.SettingsMax, cur, set))
	}
	return nil
}

func lenClass(n int) string {
	switch {
	case n == 0:
		return "0"
	case n <= 3:
		return "1-3"
	case n < 127:
		return "4-126"
	case n == 127:
		return "127"
	case n == 128:
		return "128"
	}
	return ">128"
}

func short(s string) string {
	if len(s) > 24 {
		return fmt.Sprintf("%s…(%d bytes)", s[:16], len(s))
	}
	return s
}

// xnetCheck decodes access+block with x/net and compares with the reference.
func xnetCheck(c *fw.Ctx, limit int, access [][]byte, block []byte) {
	t := ref.NewTable()
	t.Max, t.SettingsMax = limit, limit
	d := hpack.NewDecoder(uint32(limit), nil)
	d.SetAllowedMaxDynamicTableSize(uint32(limit))
	for _, a := range access {
		ref.DecodeBlock(t, a)
		d.DecodeFull(a)
	}
	want, werr := ref.DecodeBlock(t, block)
	got, xerr := d.DecodeFull(block)
	if (werr == nil) != (xerr == nil) {
		c.Disagree()
		c.Note(fmt.Sprintf("x/net disagrees with ref on %x: ref err=%v x/net err=%v", block, werr, xerr))
		return
	}
	if werr != nil {
		return
	}
	i := 0
	for _, f := range want {
		if f.Rep == ref.RepSizeUpdate {
			continue
		}
		if i >= len(got) || got[i].Name != f.Name || got[i].Value != f.Value || got[i].Sensitive != f.Sensitive {
			c.Disagree()
			c.Note(fmt.Sprintf("x/net disagrees with ref on %x field %d", block, i))
			return
		}
		i++
	}
	if i != len(got) {
		c.Disagree()
	}
}

type c03State struct {
	limit  int
	access [][]byte
	table  *ref.Table
	depth  int
}

func tableKey(limit int, t *ref.Table) string {
	var sb strings.Builder
	fmt.Fprintf(&sb, "%d/%d/%d", limit, t.Max, t.SettingsMax)
	for _, e := range t.Ents {
		sb.WriteString("|" + e.Name + "\x00" + e.Value)
	}
	return sb.String()
}

func hexes(bs [][]byte) []string {
	out := make([]string, len(bs))
	for i, b := range bs {
		out[i] = hex.EncodeToString(b)
	}
	return out
}

func runC03(c *fw.Ctx) {
	runC03Limit(c)
	thorough := c.Tier == "thorough"
	maxDepth := 2
	if thorough {
		maxDepth = 3
	}
	c.Bound["ax_depth_blocks"] = maxDepth
	c.Bound["table_limits"] = []int{4096, 100}
	modes := []string{"server", "next"}
	var item int64
	sampled := 0

	for _, limit := range []int{4096, 100} {
		start := ref.NewTable()
		start.Max, start.SettingsMax = limit, limit
		frontier := []*c03State{{limit: limit, table: start}}
		seen := map[string]bool{tableKey(limit, start): true}
		for len(frontier) > 0 {
			st := frontier[0]
			frontier = frontier[1:]
			if c.Expired("C03 AX") {
				break
			}
			c.State(fw.Hash("c03", tableKey(limit, st.table)))
			alpha := c03Alphabet(st.table, thorough || st.depth == 0)
			red := reduced(alpha)
			var blocks []hpBlock
			for _, fc := range alpha {
				blocks = append(blocks, hpBlock{Fields: []fieldChoice{fc}})
			}
			for _, a := range red {
				for _, b := range red {
					blocks = append(blocks, hpBlock{Fields: []fieldChoice{a, b}})
				}
			}
			sizes := []int{0, 40, 64, limit}
			for _, su := range sizes {
				for _, a := range red {
					blocks = append(blocks, hpBlock{SizeUpdates: []int{su}, Fields: []fieldChoice{a}})
				}
			}
			// shrink-then-grow (two updates) before a field
			for _, a := range red[:min(len(red), 6)] {
				blocks = append(blocks, hpBlock{SizeUpdates: []int{0, limit}, Fields: []fieldChoice{a}})
			}
			for _, blk := range blocks {
				item++
				tt := st.table.Clone()
				enc := blk.encode(tt)
				// successor states are computed by every shard (cheap, deterministic)
				if st.depth+1 < maxDepth {
					k := tableKey(limit, tt)
					if !seen[k] {
						seen[k] = true
						frontier = append(frontier, &c03State{limit: limit, access: append(append([][]byte{}, st.access...), enc), table: tt, depth: st.depth + 1})
					}
				}
				if !c.Mine(item) {
					continue
				}
				touches := len(blk.SizeUpdates) > 0 || len(blk.Fields) > 1 || len(st.access) > 0
				for _, fc := range blk.Fields {
					if fc.Ch.Rep == ref.RepIncremental {
						touches = true
					}
				}
				xnetCheck(c, limit, st.access, enc)
				for _, mode := range modes {
					cs := c03Case{Limit: limit, Access: hexes(st.access), Block: hex.EncodeToString(enc), Mode: mode, Desc: blk.String()}
					c.Eval(nt(touches, append([]byte(tableKey(limit, st.table)+mode), enc...)))
					c.AddTransitions(1)
					b := blk
					if v := c03Eval(cs, &b); v != nil {
						c.Violate(*v)
						c.Outcome(v.Rule)
					} else {
						c.Outcome("agree")
					}
					if sampled < 3 && len(st.access) > 0 && len(blk.Fields) == 2 {
						sampled++
						c.Sample(map[string]any{"family": "AX", "state": st.table.String(), "block": blk.String(), "case": cs})
					}
				}
			}
		}
	}
	c.Family("AX")

	// ---- rejection half ----
	bxLen := 2
	if thorough {
		bxLen = 3
	}
	c.Bound["bx_len"] = bxLen
	type tstate struct {
		limit  int
		access [][]byte
	}
	mkAccess := func(limit int, fs ...ref.Field) [][]byte {
		t := ref.NewTable()
		t.Max, t.SettingsMax = limit, limit
		var out [][]byte
		for _, f := range fs {
			out = append(out, ref.EncodeField(nil, t, f, ref.EncChoice{Rep: ref.RepIncremental}))
		}
		return out
	}
	tstates := []tstate{
		{4096, nil},
		{4096, mkAccess(4096, ref.Field{Name: "a", Value: "1"}, ref.Field{Name: "bb", Value: "22"})},
		{100, mkAccess(100, ref.Field{Name: "a", Value: "1"}, ref.Field{Name: "bb", Value: "22"}, ref.Field{Name: "c", Value: "3"})},
	}
	evalRaw := func(ts tstate, block []byte, desc string) {
		t := ref.NewTable()
		t.Max, t.SettingsMax = ts.limit, ts.limit
		for _, a := range ts.access {
			ref.DecodeBlock(t, a)
		}
		_, werr := ref.DecodeBlock(t.Clone(), block)
		// size-update-only blocks are outside the stated domain
		if werr == nil {
			fs, _ := ref.DecodeBlock(t.Clone(), block)
			only := len(fs) > 0
			for _, f := range fs {
				only = only && f.Rep == ref.RepSizeUpdate
			}
			last := len(fs) > 0 && fs[len(fs)-1].Rep == ref.RepSizeUpdate
			if only || last {
				return
			}
		}
		xnetCheck(c, ts.limit, ts.access, block)
		for _, mode := range modes {
			cs := c03Case{Limit: ts.limit, Access: hexes(ts.access), Block: hex.EncodeToString(block), Mode: mode, Desc: desc}
			c.Eval(nt(werr != nil || len(ts.access) > 0, append([]byte(fmt.Sprint(ts.limit, len(ts.access), mode)), block...)))
			c.AddTransitions(1)
			if v := c03Eval(cs, nil); v != nil {
				c.Violate(*v)
				c.Outcome(v.Rule)
			} else if werr != nil {
				c.Outcome("reject:" + werr.Error())
			} else {
				c.Outcome("agree")
			}
		}
	}
	for _, ts := range tstates {
		for n := 1; n <= bxLen; n++ {
			total := 1
			for i := 0; i < n; i++ {
				total *= 256
			}
			for v := 0; v < total; v++ {
				if v&0xfff == 0 && c.Expired("C03 BX") {
					break
				}
				if item++; !c.Mine(item) {
					continue
				}
				b := make([]byte, n)
				x := v
				for i := n - 1; i >= 0; i-- {
					b[i] = byte(x)
					x >>= 8
				}
				evalRaw(ts, b, "")
			}
		}
	}
	c.Family("BX-bytes")

	// catalogue of invalid forms appended to a valid prefix
	prefixes := [][]byte{nil, {0x82}, {0x40, 0x01, 'k', 0x01, 'v'}}
	var cat []struct {
		b    []byte
		desc string
	}
	addc := func(desc string, b ...byte) {
		cat = append(cat, struct {
			b    []byte
			desc string
		}{b, desc})
	}
	addc("index 0", 0x80)
	addc("index 0 as literal-name marker is fine but truncated", 0x40)
	for _, d := range []uint64{62, 63, 70, 1000, 1 << 20} {
		addc(fmt.Sprintf("indexed %d past the table", d), ref.EncInt(nil, 0x80, 7, d+8)...)
		addc(fmt.Sprintf("incremental name index %d past the table", d), append(ref.EncInt(nil, 0x40, 6, d+8), 0x01, 'v')...)
		addc(fmt.Sprintf("without-indexing name index %d past the table", d), append(ref.EncInt(nil, 0x00, 4, d+8), 0x01, 'v')...)
		addc(fmt.Sprintf("never-indexed name index %d past the table", d), append(ref.EncInt(nil, 0x10, 4, d+8), 0x01, 'v')...)
	}
	for _, over := range []uint64{1, 1000} {
		for _, lim := range []uint64{4096, 100} {
			addc(fmt.Sprintf("size update %d above limit %d", over, lim), append(ref.EncInt(nil, 0x20, 5, lim+over), 0x82)...)
		}
	}
	// truncated integers at every length, and overflowing ones with 5..12 continuation bytes
	for _, pat := range []struct {
		high   byte
		prefix uint
		name   string
	}{{0x80, 7, "indexed"}, {0x40, 6, "incremental"}, {0x00, 4, "without"}, {0x10, 4, "never"}, {0x20, 5, "size-update"}} {
		full := ref.EncInt(nil, pat.high, pat.prefix, 300000)
		for cut := 1; cut < len(full); cut++ {
			addc(fmt.Sprintf("%s integer truncated after %d bytes", pat.name, cut), full[:cut]...)
		}
		for n := 5; n <= 12; n++ {
			b := []byte{pat.high | byte(1<<pat.prefix-1)}
			for i := 0; i < n-1; i++ {
				b = append(b, 0xff)
			}
			b = append(b, 0x7f)
			addc(fmt.Sprintf("%s integer overflowing with %d continuation bytes", pat.name, n), b...)
			// wrap-around candidates: high bits only
			w := []byte{pat.high | byte(1<<pat.prefix-1)}
			for i := 0; i < n-1; i++ {
				w = append(w, 0x80)
			}
			w = append(w, 0x01)
			if n >= 6 {
				addc(fmt.Sprintf("%s integer = 2^%d (must not wrap)", pat.name, 7*(n-1)), w...)
			}
		}
	}
	// string length beyond the block / truncated string / string length overflow
	addc("literal value longer than the block", 0x40, 0x01, 'k', 0x05, 'a', 'b')
	addc("literal name longer than the block", 0x40, 0x7e, 'k')
	addc("literal value length integer overflows", 0x00, 0x01, 'k', 0x7f, 0xff, 0xff, 0xff, 0xff, 0xff, 0xff, 0xff, 0xff, 0xff, 0x7f)
	// string lengths near every implementation limit: 2..12 continuation octets, for name and value,
	// raw and Huffman-flagged, in each literal representation
	for _, first := range []byte{0x00, 0x10, 0x40} {
		for n := 2; n <= 12; n++ {
			for _, hbit := range []byte{0x00, 0x80} {
				for _, lastb := range []byte{0x7f, 0x01} {
					l := []byte{0x7f | hbit}
					for i := 0; i < n-1; i++ {
						l = append(l, 0xff)
					}
					l = append(l, lastb)
					addc(fmt.Sprintf("value length with %d continuation octets (first %#x, H=%v, last %#x)", n, first, hbit != 0, lastb), append([]byte{first, 0x01, 'k'}, l...)...)
					addc(fmt.Sprintf("name length with %d continuation octets (first %#x, H=%v, last %#x)", n, first, hbit != 0, lastb), append([]byte{first}, l...)...)
				}
			}
		}
	}
	// bad huffman strings
	addc("huffman value with EOS", 0x00, 0x01, 'k', 0x84, 0xff, 0xff, 0xff, 0xff)
	addc("huffman value with 8 bits of padding", 0x00, 0x01, 'k', 0x82, 0x1f, 0xff)
	addc("huffman value with zero padding", 0x00, 0x01, 'k', 0x81, 0x18)
	addc("huffman name with zero padding", 0x00, 0x81, 0x18, 0x01, 'v')
	// size update after a field
	addc("size update after a field", 0x82, 0x20)
	addc("size update after a field, then a field", 0x82, 0x3f, 0x01, 0x84)
	addc("size update between two literal fields", 0x00, 0x01, 'k', 0x01, 'v', 0x20, 0x82)
	c.Bound["invalid_catalogue"] = len(cat)
	for _, ts := range tstates {
		for _, pre := range prefixes {
			for _, it := range cat {
				if item++; !c.Mine(item) {
					continue
				}
				// a size update is only "above the limit"/"at start" relative to its position
				evalRaw(ts, append(append([]byte{}, pre...), it.b...), it.desc)
			}
		}
	}
	c.Family("invalid-catalogue")

	// ---- integer boundaries: lengths, indices and table sizes around 2^N-1 and 2^N-1+128 ----
	big := 65536
	for _, n := range []int{0, 1, 2, 65, 66, 67, 129, 130, 131, 193, 194, 195} {
		t := ref.NewTable()
		t.Max, t.SettingsMax = big, big
		var access [][]byte
		var blk []byte
		for i := 0; i < n; i++ {
			blk = ref.EncodeField(blk, t, ref.Field{Name: fmt.Sprintf("n%d", i), Value: "v"}, ref.EncChoice{Rep: ref.RepIncremental})
			if len(blk) > 200 || i == n-1 {
				access = append(access, blk)
				blk = nil
			}
		}
		ts := tstate{big, access}
		var probes []hpBlock
		if n > 0 {
			for _, rep := range []ref.Rep{ref.RepIndexed, ref.RepIncremental, ref.RepWithout, ref.RepNever} {
				v := "v"
				if rep != ref.RepIndexed {
					v = "other"
				}
				probes = append(probes, hpBlock{Fields: []fieldChoice{{ref.Field{Name: "n0", Value: v, Sensitive: rep == ref.RepNever}, ref.EncChoice{Rep: rep, NameIndex: true}}}})
				if n > 1 {
					probes = append(probes, hpBlock{Fields: []fieldChoice{{ref.Field{Name: "n1", Value: v, Sensitive: rep == ref.RepNever}, ref.EncChoice{Rep: rep, NameIndex: true}}}})
				}
			}
		}
		for _, l := range []int{126, 127, 128, 129, 254, 255, 256, 383, 16510, 16511, 16512} {
			for _, h := range []bool{false, true} {
				val := valOfLen(l)
				if h {
					val = strings.Repeat("0", l*8/5)
				}
				if n <= 2 {
					probes = append(probes,
						hpBlock{Fields: []fieldChoice{{ref.Field{Name: "x", Value: val}, ref.EncChoice{Rep: ref.RepIncremental, HuffValue: h}}, {ref.Field{Name: "y", Value: "after"}, ref.EncChoice{Rep: ref.RepWithout}}}},
						hpBlock{Fields: []fieldChoice{{ref.Field{Name: val, Value: "v"}, ref.EncChoice{Rep: ref.RepWithout, HuffName: h}}, {ref.Field{Name: "y", Value: "after"}, ref.EncChoice{Rep: ref.RepWithout}}}})
				}
			}
		}
		if n <= 2 {
			for _, sz := range []int{29, 30, 31, 32, 33, 158, 159, 160, 286, 287, 4095, 4096, 16414, 16415, 16416} {
				probes = append(probes, hpBlock{SizeUpdates: []int{sz}, Fields: []fieldChoice{{ref.Field{Name: "y", Value: "after"}, ref.EncChoice{Rep: ref.RepIncremental}}}})
			}
		}
		for _, pb := range probes {
			if item++; !c.Mine(item) {
				continue
			}
			tt := ref.NewTable()
			tt.Max, tt.SettingsMax = big, big
			for _, a := range access {
				ref.DecodeBlock(tt, a)
			}
			enc := pb.encode(tt)
			xnetCheck(c, big, access, enc)
			for _, mode := range modes {
				cs := c03Case{Limit: big, Access: hexes(access), Block: hex.EncodeToString(enc), Mode: mode, Desc: "int-boundary: " + pb.String()}
				c.Eval(nt(true, append([]byte(fmt.Sprint("ib", n, mode)), enc...)))
				c.AddTransitions(1)
				b := pb
				if v := c03Eval(cs, &b); v != nil {
					v.Shape = "int-boundary " + v.Shape
					c.Violate(*v)
					c.Outcome(v.Rule)
				} else {
					c.Outcome("agree")
				}
			}
		}
		_ = ts
	}
	c.Family("int-boundaries")
	c.AddTraces(c.Evals)
}

func replayC03(raw json.RawMessage) (string, bool) {
	var fam struct {
		Family string       `json:"family"`
		Case   c03LimitCase `json:"case"`
	}
	if json.Unmarshal(raw, &fam) == nil && fam.Family == "c03limit" {
		if v := c03LimitEval(fam.Case); v != nil {
			return v.Rule + ": " + v.Detail, true
		}
		return "implementation agrees with the reference on this limit change", false
	}
	var r struct {
		Case c03Case `json:"case"`
	}
	if err := json.Unmarshal(raw, &r); err != nil {
		return err.Error(), false
	}
	if v := c03Eval(r.Case, nil); v != nil {
		return v.Rule + ": " + v.Detail, true
	}
	return "implementation agrees with the reference on this block", false
}

var _ = bytes.Equal
