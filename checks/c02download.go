package checks

import (
	"bytes"
	"encoding/json"
	"fmt"
	"strings"

	"verif/fw"
	"verif/harness"
	"verif/peer"
	"verif/ref"
)

// C02, family "large-downloads": the mirror image of C01's large uploads. 1-3 concurrent requests are answered
// with bodies of 100000-300000 octets each (more than the client's stream window refill mark, interleaved across
// the streams in different rhythms, cut into DATA frames of different sizes, padded or not) by a scripted server
// that only writes within the windows the client has granted. Every octet says which stream and offset it belongs
// to. Oracle: each caller gets exactly its own body.

type c02DownloadCase struct {
	Streams int  `json:"streams"`
	Size    int  `json:"octets_per_download"`
	Chunk   int  `json:"chunk"`
	Pad     int  `json:"pad"`
	Burst   int  `json:"frames_per_stream_before_switching"`
	Trailer bool `json:"trailers"`
}

func c02DownloadRun(cs c02DownloadCase) (*fw.Violation, *harness.Client) {
	h := harness.NewClient(harness.ClientOpts{})
	mk := func(rule, shape, detail string) *fw.Violation {
		ev := h.EventLog
		if len(ev) > 8 {
			ev = append([]string{fmt.Sprintf("…%d events…", len(ev)-8)}, ev[len(ev)-8:]...)
		}
		return &fw.Violation{Rule: rule, Shape: shape, Detail: detail + "\n    events: " + strings.Join(ev, " ; "), Replay: map[string]any{"family": "c02download", "case": cs}}
	}
	shape := fmt.Sprintf("streams=%d chunk=%d pad=%d", cs.Streams, cs.Chunk, cs.Pad)
	type down struct {
		call *harness.CCall
		id   uint32
		body []byte
		off  int
	}
	var downs []*down
	for i := 0; i < cs.Streams; i++ {
		downs = append(downs, &down{call: h.Go(harness.ReqSpec{Tag: fmt.Sprint("d", i), Method: "GET", Path: fmt.Sprintf("/download/%d", i)})})
	}
	if len(h.Conns) != 1 {
		return mk("unexpected-dials", fmt.Sprint(len(h.Conns)), fmt.Sprintf("%d connections dialed for %d requests", len(h.Conns), cs.Streams)), h
	}
	srv := h.Conns[0]
	if len(srv.Order) != cs.Streams {
		return mk("request-not-sent", shape, fmt.Sprintf("the server has seen %d of %d requests", len(srv.Order), cs.Streams)), h
	}
	s := &csender{h: h, srv: srv, conn: 65535, init: 65535, strm: map[uint32]int64{}}
	for _, st := range srv.Settings {
		for _, p := range st {
			if p.ID == peer.SInitialWindowSize {
				s.init = int64(p.Val)
			}
		}
	}
	for i, d := range downs {
		d.id = srv.Order[i]
	}
	// the caller whose request a stream carries is found by its path
	byPath := map[string]*harness.CCall{}
	for i := 0; i < cs.Streams; i++ {
		byPath[fmt.Sprintf("/download/%d", i)] = h.Calls[i]
	}
	for _, d := range downs {
		for _, kv := range srv.Streams[d.id].Fields {
			if kv[0] == ":path" {
				d.call = byPath[kv[1]]
			}
		}
		d.body = c01UploadBody(int(d.id), cs.Size+int(d.id)*500)
		s.strm[d.id] = s.init
		h.Send(srv.Idx, srv.RespFrames(d.id, []ref.Field{{Name: ":status", Value: "200"}, {Name: "x-stream", Value: fmt.Sprint(d.id)}}, nil, nil, [][]byte{nil}, -1)[0])
	}
	for left := cs.Streams; left > 0; {
		for _, d := range downs {
			for k := 0; k < cs.Burst && d.off < len(d.body); k++ {
				n := min(cs.Chunk, len(d.body)-d.off)
				last := d.off+n == len(d.body)
				if r, dd := s.send(d.id, d.body[d.off:d.off+n], last && !cs.Trailer, cs.Pad); r != "" {
					return mk("response-not-deliverable", shape+" "+r, fmt.Sprintf("stream %d at offset %d: %s", d.id, d.off, dd)), h
				}
				d.off += n
				if last {
					left--
					if cs.Trailer {
						h.Send(srv.Idx, peer.Headers(d.id, srv.Enc.Block([]ref.Field{{Name: "x-sum", Value: fmt.Sprint(len(d.body))}}, nil), peer.HeadersOpt{EndStream: true, EndHeaders: true, Pad: -1}))
					}
				}
				if srv.C.Closed() || len(srv.GoAways) > 0 {
					return mk("client-dropped-connection", shape, fmt.Sprintf("stream %d at offset %d: the client ended the connection (GOAWAY %v)", d.id, d.off, srv.GoAways)), h
				}
			}
		}
	}
	for _, d := range downs {
		c := d.call
		if c == nil || !c.Done || c.Err != nil {
			return mk("response-not-delivered-intact", shape+" unresolved", fmt.Sprintf("stream %d: complete response sent, caller: %+v", d.id, c)), h
		}
		if !bytes.Equal(c.Body, d.body) {
			at := 0
			for at < len(c.Body) && at < len(d.body) && c.Body[at] == d.body[at] {
				at++
			}
			lo, hiG, hiW := max(at-12, 0), min(at+24, len(c.Body)), min(at+24, len(d.body))
			return mk("response-not-delivered-intact", shape+" body", fmt.Sprintf("stream %d: caller got %d octets, the server sent %d; first difference at offset %d: caller %q, sent %q", d.id, len(c.Body), len(d.body), at, c.Body[lo:hiG], d.body[lo:hiW])), h
		}
		ok := false
		for _, kv := range c.Headers {
			if strings.EqualFold(kv[0], "x-stream") && kv[1] == fmt.Sprint(d.id) {
				ok = true
			}
		}
		if !ok {
			return mk("response-not-delivered-intact", shape+" other-stream", fmt.Sprintf("stream %d: the caller's response does not carry x-stream: %d (headers %v)", d.id, d.id, c.Headers)), h
		}
	}
	if len(h.S.Panics) > 0 {
		return mk("process-would-crash", shape, strings.Join(h.S.Panics, "; ")), h
	}
	return nil, h
}

func runC02Download(c *fw.Ctx) {
	sizes := []int{100000}
	chunks := []int{997, 16384, 4096}
	if c.Tier == "thorough" {
		sizes = []int{100000, 300000, 1200000}
		chunks = []int{97, 997, 4096, 16383, 16384}
	}
	n := 0
	for _, size := range sizes {
		for streams := 1; streams <= 3; streams++ {
			for _, ch := range chunks {
				for _, pad := range []int{-1, 0, 200} {
					if pad >= 0 && ch+pad+1 > 16384 {
						continue
					}
					for _, burst := range []int{1, 3, 1000} {
						if streams == 1 && burst != 1 {
							continue
						}
						for _, tr := range []bool{false, true} {
							n++
							if !c.Mine(int64(1)<<45 + int64(n)) {
								continue
							}
							if c.Expired("C02 large downloads") {
								return
							}
							cs := c02DownloadCase{Streams: streams, Size: size, Chunk: ch, Pad: pad, Burst: burst, Trailer: tr}
							v, h := c02DownloadRun(cs)
							js, _ := json.Marshal(cs)
							c.Eval(nt(true, append([]byte("download"), js...)))
							c.AddTransitions(int64(h.Events))
							c.AddTraces(1)
							c.State(fw.Hash(h.Digest()))
							if v != nil {
								c.Violate(*v)
								c.Outcome(v.Rule)
							} else {
								c.Outcome("intact")
							}
							h.Close()
						}
					}
				}
			}
		}
	}
	c.Family("large-downloads")
}

func replayC02Download(raw json.RawMessage) (string, bool) {
	var r struct {
		Case c02DownloadCase `json:"case"`
	}
	if err := json.Unmarshal(raw, &r); err != nil {
		return err.Error(), false
	}
	v, h := c02DownloadRun(r.Case)
	defer h.Close()
	if v != nil {
		return v.Rule + " [" + v.Shape + "]: " + v.Detail, true
	}
	return "downloads delivered intact", false
}
