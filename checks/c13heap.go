package checks

import (
	"encoding/json"
	"fmt"
	"runtime"
	"strings"

	"verif/fw"
)

// C13, retained heap. The pool gauges see pooled objects only; maps and slices the connection keeps (the
// closed-stream memory, reset marks, buffers) are ordinary heap. With runtime.MemProfileRate = 1 every allocation
// is recorded with its stack, and after a collection the profile says how many bytes allocated from dgrr/http2's
// own functions are still live. A fixed adversarial phrase is repeated n and 3n times on a connection whose slots
// are held by parked handlers; what the connection retains must not grow with the number of repetitions.

type c13HeapCase struct {
	Phrase []string `json:"phrase"`
	N      int      `json:"repetitions"`
	// Open: instead of two parked handlers holding the slots, one request is opened this way (a move) and left
	// unfinished; the phrase then keeps sending on it
	Open string `json:"open,omitempty"`
}

// retainedByHTTP2 returns the live bytes whose allocation stack passes through a function of package http2
// (serverConn / stream / hpack code), excluding what the harness allocates on its behalf in its own frames.
func retainedByHTTP2() int64 {
	runtime.GC()
	runtime.GC()
	var recs []runtime.MemProfileRecord
	n, _ := runtime.MemProfile(nil, true)
	for {
		recs = make([]runtime.MemProfileRecord, n+50)
		var ok bool
		n, ok = runtime.MemProfile(recs, true)
		if ok {
			recs = recs[:n]
			break
		}
	}
	var total int64
	for i := range recs {
		r := &recs[i]
		if r.InUseBytes() == 0 {
			continue
		}
		frames := runtime.CallersFrames(r.Stack())
		mine := false
		for {
			f, more := frames.Next()
			if strings.Contains(f.Function, "github.com/dgrr/http2.(*serverConn)") || strings.Contains(f.Function, "github.com/dgrr/http2.(*Server)") {
				mine = true
				break
			}
			if !more {
				break
			}
		}
		if mine {
			total += r.InUseBytes()
		}
	}
	return total
}

func c13HeapExec(cs c13HeapCase) (retained int64, dead bool, trace []string) {
	x := newC13()
	defer x.h.Close()
	if cs.Open != "" {
		x.apply(cs.Open)
	} else {
		// both slots are taken by requests whose handlers stay parked for the whole run
		x.apply("request")
		x.apply("request")
	}
	for i := 0; i < cs.N && !x.dead; i++ {
		for _, mv := range cs.Phrase {
			ok := false
			for _, m := range x.menu() {
				ok = ok || m == mv
			}
			if !ok || x.dead {
				continue
			}
			x.apply(mv)
		}
	}
	return retainedByHTTP2(), x.dead, x.trace
}

var c13HeapPhrases = [][]string{
	{"request"},                                // refused: the slots are taken
	{"half-open", "rst-newest"},                // refused half-open request, then its reset
	{"request", "rst-newest"},                  // refused request, reset by the peer
	{"priority-new"},                           // PRIORITY on ever new idle ids
	{"request-huge-path"},                      // refused, header list above the limit
	{"headers-open-block", "continuation-end"}, // refused request in two frames
	{"content-length-over"},                    // refused, body declared above the limit
	{"request", "ping", "settings"},            // refusals between control frames
}

// one request left open (no END_STREAM), declared in different ways, and DATA that never ends sent on it
var c13HeapOpens = []string{"half-open", "content-length-0-open", "content-length-4-open", "content-length-over"}

func runC13Heap(c *fw.Ctx) {
	old := runtime.MemProfileRate
	runtime.MemProfileRate = 1
	defer func() { runtime.MemProfileRate = old }()
	base := 300
	if c.Tier == "thorough" {
		base = 600
	}
	c.Bound["retained_heap_repetitions"] = []int{base, 3 * base}
	var cases []c13HeapCase
	for _, ph := range c13HeapPhrases {
		cases = append(cases, c13HeapCase{Phrase: ph, N: base})
	}
	for _, op := range c13HeapOpens {
		cases = append(cases, c13HeapCase{Phrase: []string{"data-over-limit"}, N: base, Open: op}, c13HeapCase{Phrase: []string{"data-over-limit", "ping"}, N: base, Open: op})
	}
	for i, cs := range cases {
		if !c.Mine(int64(1)<<48 + int64(i)) {
			continue
		}
		if c.Expired("C13 retained heap") {
			break
		}
		ph := cs.Phrase
		a, deadA, _ := c13HeapExec(cs)
		b, deadB, tr := c13HeapExec(c13HeapCase{Phrase: ph, N: 3 * base, Open: cs.Open})
		if cs.Open != "" {
			ph = append([]string{"(" + cs.Open + ")"}, ph...)
		}
		js, _ := json.Marshal(ph)
		c.Eval(nt(true, append([]byte("heap"), js...)))
		c.AddTransitions(int64(len(tr)))
		c.AddTraces(2)
		c.State(fw.Hash("c13heap", ph))
		if deadA || deadB {
			c.Outcome("heap:connection-ended")
			continue
		}
		// allow for allocator granularity and one-off lazily built structures; 3x the repetitions of a phrase that
		// leaks 16 bytes per repetition adds about 10 KB (quick) and more than this
		slack := int64(4096) + a/64
		if b > a+slack {
			c.Violate(fw.Violation{Rule: "state-grows-with-frames", Shape: "retained heap: " + strings.Join(ph, ","),
				Detail: fmt.Sprintf("with both slots held (or, with a move in brackets, one request opened that way and left unfinished), repeating %v %d times leaves %d bytes allocated by the server's own code reachable; %d times leaves %d: the connection's state grows with the number of frames the peer sends", ph, base, a, 3*base, b),
				Replay: map[string]any{"family": "c13heap", "case": cs}})
			c.Outcome("state-grows-with-frames")
		} else {
			c.Outcome("heap:bounded")
		}
		c.Sample(map[string]any{"retained_heap_phrase": ph, "bytes_at_n": a, "bytes_at_3n": b})
	}
	c.Family("retained-heap")
}

func replayC13Heap(raw json.RawMessage) (string, bool) {
	var r struct {
		Case c13HeapCase `json:"case"`
	}
	json.Unmarshal(raw, &r)
	old := runtime.MemProfileRate
	runtime.MemProfileRate = 1
	defer func() { runtime.MemProfileRate = old }()
	a, _, _ := c13HeapExec(r.Case)
	b, _, _ := c13HeapExec(c13HeapCase{Phrase: r.Case.Phrase, N: 3 * r.Case.N, Open: r.Case.Open})
	if b > a+4096+a/64 {
		return fmt.Sprintf("retained heap grows with repetitions: %d bytes after %d, %d bytes after %d", a, r.Case.N, b, 3*r.Case.N), true
	}
	return fmt.Sprintf("retained heap bounded: %d bytes after %d repetitions, %d after %d", a, r.Case.N, b, 3*r.Case.N), false
}
