package checks

import (
	"encoding/json"
	"fmt"
	"sort"
	"strings"

	"verif/fw"
	"verif/harness"
	"verif/peer"
	"verif/ref"
)

// C20 — malformed HTTP messages are rejected; well-formed ones are all accepted.
// Server half here; the client half is c20client.go.

func init() {
	fw.Register(&fw.Check{
		ID: "C20", Level: "model_checking",
		Rule:   "ELX input enumeration: request header lists built from a base request by every subset of <= 2 (quick) / <= 3 (thorough) items of a valid/invalid vocabulary (each pseudo-header dropped / duplicated / after a regular field, :status, unknown pseudo-header, upper-case name, each connection-specific field, te trailers/gzip, content-length equal/short/long/non-numeric/overflowing/two values, empty :path, repeated fields, cookies) x body {0,5 bytes} x trailers {none, valid, with pseudo-header}, each placed first / middle / last between two valid neighbours on one connection; client half: response lists from the mirrored vocabulary against the real client. Oracle: RFC 7540 8.1.2 predicate well-formed <=> handler runs (response delivered); otherwise never runs and only that stream sees RST_STREAM(PROTOCOL_ERROR) or a 4xx. Non-trivial: >= 1 vocabulary item applied; distinct by (list, body, trailers, position).",
		Assume: []string{"ref/msg.go is RFC 7540 8.1.2 restricted to the vocabulary the property fixes (no CONNECT, token/field-value grammar not checked)", "blocks are encoded without dynamic-table references so that HPACK accounting of rejected blocks (C09) does not interfere"},
		Run:    runC20, Replay: replayC20, Policies: 1, QuickS: 120, ThoroughS: 600,
	})
}

type c20Item struct {
	Name  string
	Apply func(fs []ref.Field) []ref.Field
}

func dropField(name string) func([]ref.Field) []ref.Field {
	return func(fs []ref.Field) []ref.Field {
		var out []ref.Field
		for _, f := range fs {
			if f.Name != name {
				out = append(out, f)
			}
		}
		return out
	}
}

func dupField(name string) func([]ref.Field) []ref.Field {
	return func(fs []ref.Field) []ref.Field {
		var out []ref.Field
		for _, f := range fs {
			out = append(out, f)
			if f.Name == name {
				out = append(out, f)
			}
		}
		return out
	}
}

func addField(name, value string) func([]ref.Field) []ref.Field {
	return func(fs []ref.Field) []ref.Field { return append(fs, ref.Field{Name: name, Value: value}) }
}

// addPseudo inserts a pseudo-header right after the existing ones.
func addPseudo(name, value string) func([]ref.Field) []ref.Field {
	return func(fs []ref.Field) []ref.Field {
		i := 0
		for i < len(fs) && strings.HasPrefix(fs[i].Name, ":") {
			i++
		}
		out := append([]ref.Field{}, fs[:i]...)
		out = append(out, ref.Field{Name: name, Value: value})
		return append(out, fs[i:]...)
	}
}

var c20Items = []c20Item{
	{"drop :method", dropField(":method")},
	{"drop :scheme", dropField(":scheme")},
	{"drop :path", dropField(":path")},
	{"drop :authority", dropField(":authority")},
	{"duplicate :method", dupField(":method")},
	{"duplicate :path", dupField(":path")},
	{"duplicate :scheme", dupField(":scheme")},
	{"duplicate :authority", dupField(":authority")},
	{":path after regular field", func(fs []ref.Field) []ref.Field {
		var p []ref.Field
		var out []ref.Field
		for _, f := range fs {
			if f.Name == ":path" {
				p = append(p, f)
			} else {
				out = append(out, f)
			}
		}
		return append(out, p...)
	}},
	{":status in request", addPseudo(":status", "200")},
	{"unknown pseudo-header", addPseudo(":foo", "bar")},
	{"upper-case name", addField("X-Upper", "v")},
	{"connection", addField("connection", "close")},
	{"keep-alive", addField("keep-alive", "timeout=5")},
	{"proxy-connection", addField("proxy-connection", "keep-alive")},
	{"transfer-encoding", addField("transfer-encoding", "chunked")},
	{"upgrade", addField("upgrade", "h2c")},
	{"te: trailers", addField("te", "trailers")},
	{"te: gzip", addField("te", "gzip")},
	{"content-length equal", addField("content-length", "=")},
	{"content-length short", addField("content-length", "-")},
	{"content-length long", addField("content-length", "+")},
	{"content-length non-numeric", addField("content-length", "abc")},
	{"content-length overflowing", addField("content-length", "O")},
	{"content-length second value", addField("content-length", "9")},
	{"empty :path", func(fs []ref.Field) []ref.Field {
		out := append([]ref.Field{}, fs...)
		for i := range out {
			if out[i].Name == ":path" {
				out[i].Value = ""
			}
		}
		return out
	}},
	{"second :path, first one empty", func(fs []ref.Field) []ref.Field {
		out := addPseudo(":path", "/second")(fs)
		for i := range out {
			if out[i].Name == ":path" {
				out[i].Value = ""
				break
			}
		}
		return out
	}},
	{"second :path, empty", addPseudo(":path", "")},
	{"second :path with another value", addPseudo(":path", "/second")},
	{"second :method with another value", addPseudo(":method", "DELETE")},
	{"second :scheme with another value", addPseudo(":scheme", "http")},
	{"second :authority with another value", addPseudo(":authority", "other.example")},
	{"repeated regular field", func(fs []ref.Field) []ref.Field {
		return append(fs, ref.Field{Name: "x-rep", Value: "1"}, ref.Field{Name: "x-rep", Value: "2"})
	}},
	{"cookies", func(fs []ref.Field) []ref.Field {
		return append(fs, ref.Field{Name: "cookie", Value: "a=1"}, ref.Field{Name: "cookie", Value: "b=2"})
	}},
}

type c20Case struct {
	Items    []int  `json:"items"`
	BodyLen  int    `json:"body_len"`
	Trailers string `json:"trailers"`                      // none | valid | pseudo
	Pos      int    `json:"pos"`                           // 0 first, 1 middle, 2 last
	Split    int    `json:"split"`                         // >0: header block cut into HEADERS+CONTINUATION at this offset
	PadData  int    `json:"pad_data"`                      // >0: DATA sent with this much padding (stored +1; 0 = none)
	CLPadded bool   `json:"content_length_counts_padding"` // content-length = DATA payload size incl. padding (malformed)
	// Repeat: the request under test is sent twice on the connection with a stateful HPACK encoder: first its fields
	// are literals with incremental indexing, the second time references to the entries the first one inserted
	Repeat bool `json:"repeat_with_dynamic_table,omitempty"`
}

func c20Fields(cs c20Case, id uint32) (fields []ref.Field, names []string) {
	method := "GET"
	if cs.BodyLen > 0 || cs.Trailers != "none" {
		method = "POST"
	}
	fields = []ref.Field{{Name: ":method", Value: method}, {Name: ":scheme", Value: "https"}, {Name: ":path", Value: "/c20"}, {Name: ":authority", Value: "h"}, {Name: "x-sid", Value: fmt.Sprint(id)}}
	for _, it := range cs.Items {
		fields = c20Items[it].Apply(fields)
		names = append(names, c20Items[it].Name)
	}
	for i := range fields {
		if fields[i].Name == "content-length" {
			switch fields[i].Value {
			case "=":
				fields[i].Value = fmt.Sprint(cs.BodyLen)
			case "-":
				fields[i].Value = fmt.Sprint(cs.BodyLen - 1)
				if cs.BodyLen == 0 {
					fields[i].Value = "7"
				}
			case "+":
				fields[i].Value = fmt.Sprint(cs.BodyLen + 1)
			case "O":
				// 2^64 + bodyLen: wraps to bodyLen in 64-bit arithmetic
				fields[i].Value = "1844674407370955161" + fmt.Sprint(6+cs.BodyLen)
			}
		}
	}
	return fields, names
}

func sendPlain(h *harness.Server, id uint32, fields []ref.Field, body []byte, trailers []ref.Field) {
	sendPlainX(h, id, fields, body, trailers, 0, -1)
}

func sendPlainX(h *harness.Server, id uint32, fields []ref.Field, body []byte, trailers []ref.Field, split, pad int) {
	sendBlockX(h, id, staticBlock(fields), body, trailers, split, pad)
}

// edgeSplits: the cuts at the ends of a block, as negative values of a case's Split: -1 an empty HEADERS fragment
// and everything in the CONTINUATION, -2 everything in HEADERS and an empty CONTINUATION carrying END_HEADERS,
// -3 two empty CONTINUATION frames after the whole block, -4 an empty CONTINUATION in the middle (offset 3).
func edgeSplits(split, n int) []int {
	switch split {
	case -1:
		return []int{0}
	case -2:
		return []int{n}
	case -3:
		return []int{n, n}
	case -4:
		return []int{min(3, n), min(3, n)}
	}
	if split > 0 {
		return []int{split}
	}
	return nil
}

func sendBlockX(h *harness.Server, id uint32, blk []byte, body []byte, trailers []ref.Field, split, pad int) {
	hasMore := len(body) > 0 || trailers != nil
	if split < 0 {
		offs := edgeSplits(split, len(blk))
		h.SendFrames(peer.Headers(id, blk[:offs[0]], peer.HeadersOpt{EndStream: !hasMore, Pad: -1}))
		for i, o := range offs {
			end := len(blk)
			if i+1 < len(offs) {
				end = offs[i+1]
			}
			h.SendFrames(peer.Continuation(id, blk[o:end], i == len(offs)-1))
		}
	} else if split > 0 && split <= len(blk) {
		h.SendFrames(peer.Headers(id, blk[:split], peer.HeadersOpt{EndStream: !hasMore, Pad: -1}))
		h.SendFrames(peer.Continuation(id, blk[split:], true))
	} else {
		h.SendFrames(peer.Headers(id, blk, peer.HeadersOpt{EndStream: !hasMore, EndHeaders: true, Pad: -1}))
	}
	if len(body) > 0 {
		h.SendFrames(peer.Data(id, body, trailers == nil, pad))
	}
	if trailers != nil {
		h.SendFrames(peer.Headers(id, staticBlock(trailers), peer.HeadersOpt{EndStream: true, EndHeaders: true, Pad: -1}))
	}
}

func c20Run(cs c20Case) (*fw.Violation, *harness.Server) {
	h := harness.NewServer(harness.ServerOpts{MaxConcurrentStreams: 4})
	mk := func(rule, shape, detail string) *fw.Violation {
		return &fw.Violation{Rule: rule, Shape: shape, Detail: detail + "\n    events: " + strings.Join(h.EventLog, " ; "), Replay: map[string]any{"family": "c20", "case": cs}}
	}
	id := uint32(1)
	var verdict, xNames string
	var xid uint32
	for pos := 0; pos < 3; pos++ {
		if pos != cs.Pos {
			// a valid neighbour, run to completion
			fields := harness.ReqFields("GET", "https", "h", "/ok", [2]string{"x-sid", fmt.Sprint(id)})
			calls := len(h.Calls)
			sendPlain(h, id, fields, nil, nil)
			if len(h.Calls) != calls+1 || h.Calls[calls].Stream != id {
				return mk("neighbour-disturbed", fmt.Sprintf("neighbour-%s", map[bool]string{true: "after", false: "before"}[pos > cs.Pos])+" -> "+reactionClass(h.Reaction(0)), fmt.Sprintf("well-formed neighbour on stream %d was not dispatched (malformed request items %s); reaction %s", id, xNames, h.Reaction(0))), h
			}
			h.Finish(calls, harness.Resp{Status: 200, Body: []byte("ok")})
			if d, cls := harness.CheckResponse(h.Streams[id], harness.Resp{Status: 200, Body: []byte("ok")}); d != "" {
				return mk("neighbour-disturbed", "neighbour-response "+cls, fmt.Sprintf("neighbour stream %d: %s", id, d)), h
			}
			id += 2
			continue
		}
		reps := 1
		if cs.Repeat {
			reps = 2
		}
		for rep := 0; rep < reps; rep++ {
			xid = id
			fields, names := c20Fields(cs, id)
			xNames = strings.Join(names, "+")
			body := []byte(valOfLen(cs.BodyLen))
			var trailers []ref.Field
			switch cs.Trailers {
			case "valid":
				trailers = []ref.Field{{Name: "x-trailer", Value: "t"}}
			case "pseudo":
				trailers = []ref.Field{{Name: ":path", Value: "/t"}, {Name: "x-trailer", Value: "t"}}
			}
			pad := cs.PadData - 1
			if cs.CLPadded && pad >= 0 && len(body) > 0 {
				fields = append(fields, ref.Field{Name: "content-length", Value: fmt.Sprint(len(body) + pad + 1)})
				xNames += "+content-length counts padding"
			}
			verdict = ref.RequestWellFormed(fields, len(body), trailers)
			calls := len(h.Calls)
			from := len(h.Out)
			if cs.Repeat {
				var choice func(int) ref.EncChoice
				if rep == 1 {
					// whatever the first copy inserted is now referred to by index
					choice = func(int) ref.EncChoice { return ref.EncChoice{Rep: ref.RepIndexed, NameIndex: true} }
				}
				sendBlockX(h, id, h.PeerEnc.Block(fields, choice), body, trailers, cs.Split, pad)
			} else {
				sendPlainX(h, id, fields, body, trailers, cs.Split, pad)
			}
			dispatched := len(h.Calls) > calls
			shape := xNames
			if shape == "" {
				shape = "base"
			}
			shape += fmt.Sprintf(" body=%d trailers=%s", cs.BodyLen, cs.Trailers)
			if cs.Split > 0 {
				shape += " continuation"
			} else if cs.Split < 0 {
				shape += fmt.Sprintf(" edge-continuation(%d)", cs.Split)
			}
			if pad >= 0 {
				shape += " padded-data"
			}
			if rep == 1 {
				shape += " repeated-as-table-references"
			}
			if len(h.GoAways) > 0 || h.C.Closed() {
				return mk("whole-connection-refused", orWF(verdict)+" -> "+reactionClass(h.Reaction(from)), fmt.Sprintf("request on stream %d (%s; RFC 7540 8.1.2 verdict: %s) ended the connection: %s", id, xNames, orWF(verdict), h.Reaction(from))), h
			}
			if verdict == "" {
				if !dispatched || len(h.Calls) != calls+1 {
					return mk("wellformed-request-refused", xNames+fmt.Sprintf(" trailers=%s", cs.Trailers)+" -> "+reactionClass(h.Reaction(from)), fmt.Sprintf("well-formed request (%s) on stream %d was not dispatched exactly once; reaction %s", xNames, id, h.Reaction(from))), h
				}
				want := harness.WantReq{ID: id, Fields: fields, Body: body, Trailers: trailers}
				if d, cls := harness.CheckRequest(want, h.Calls[calls].Req); d != "" {
					return mk("wellformed-request-not-intact", cls+" "+shape, d), h
				}
				h.Finish(calls, harness.Resp{Status: 200})
			} else {
				if dispatched {
					if rep == 1 {
						verdict += " (fields sent as references to dynamic-table entries)"
					}
					return mk("malformed-request-dispatched", verdict, fmt.Sprintf("malformed request (%s: %s) on stream %d reached the handler: %+v", verdict, xNames, id, h.Calls[calls].Req)), h
				}
				so := h.Streams[id]
				ok := false
				if so != nil && len(so.Rst) == 1 && so.Rst[0] == cPROTOCOL {
					ok = true
				}
				if so != nil && len(so.HeaderBlocks) == 1 && strings.HasPrefix(harness.Status(so.HeaderBlocks[0]), "4") {
					ok = true
				}
				if !ok {
					return mk("malformed-request-not-refused", verdict+" -> "+reactionClass(h.Reaction(from)), fmt.Sprintf("malformed request (%s: %s) on stream %d: expected RST_STREAM(PROTOCOL_ERROR) or a 4xx on that stream, got %s", verdict, xNames, id, h.Reaction(from))), h
				}
			}
			id += 2
		}
	}
	_ = xid
	if p := h.Panicked(); len(p) > 0 {
		return mk("server-panic", "panic", strings.Join(p, "; ")), h
	}
	return nil, h
}

func orWF(v string) string {
	if v == "" {
		return "well-formed"
	}
	return v
}

func runC20(c *fw.Ctx) {
	thorough := c.Tier == "thorough"
	maxItems := 2
	if thorough {
		maxItems = 3
	}
	c.Bound["max_vocabulary_items_per_request"] = maxItems
	var item int64
	sampled := 0
	var subsets [][]int
	var rec func(start int, cur []int)
	rec = func(start int, cur []int) {
		subsets = append(subsets, append([]int{}, cur...))
		if len(cur) == maxItems {
			return
		}
		for i := start; i < len(c20Items); i++ {
			rec(i+1, append(cur, i))
		}
	}
	rec(0, nil)
	c.Bound["header_lists"] = len(subsets)
	for _, sub := range subsets {
		for _, bl := range []int{0, 5} {
			for _, tr := range []string{"none", "valid", "pseudo"} {
				for pos := 0; pos < 3; pos++ {
					if item++; !c.Mine(item) {
						continue
					}
					if c.Expired("C20 server") {
						return
					}
					cs := c20Case{Items: sub, BodyLen: bl, Trailers: tr, Pos: pos}
					v, h := c20Run(cs)
					js, _ := json.Marshal(cs)
					c.Eval(nt(len(sub) > 0 || tr != "none", js))
					c.AddTransitions(int64(h.Events))
					c.AddTraces(1)
					c.State(fw.Hash(h.Digest()))
					if v != nil {
						c.Violate(*v)
						c.Outcome(v.Rule)
					} else {
						fields, _ := c20Fields(cs, 1)
						var trl []ref.Field
						if tr == "pseudo" {
							trl = []ref.Field{{Name: ":path"}}
						}
						c.Outcome("ok:" + orWF(ref.RequestWellFormed(fields, bl, trl)))
					}
					if sampled < 3 && len(sub) == 2 {
						sampled++
						c.Sample(map[string]any{"case": cs, "events": h.EventLog})
					}
					h.Close()
				}
			}
		}
	}
	c.Family("server")
	// every single item with the block cut at every offset, and with padded DATA
	one := func(cs c20Case) {
		if item++; !c.Mine(item) {
			return
		}
		v, h := c20Run(cs)
		js, _ := json.Marshal(cs)
		c.Eval(nt(true, js))
		c.AddTransitions(int64(h.Events))
		c.AddTraces(1)
		if v != nil {
			c.Violate(*v)
			c.Outcome(v.Rule)
		} else {
			c.Outcome("ok:fragmented")
		}
		h.Close()
	}
	for it := -1; it < len(c20Items); it++ {
		var items []int
		if it >= 0 {
			items = []int{it}
		}
		fields, _ := c20Fields(c20Case{Items: items, BodyLen: 5, Trailers: "none"}, 3)
		n := len(staticBlock(fields))
		for off := -4; off < n; off++ {
			if c.Expired("C20 fragmented") {
				break
			}
			if off == 0 {
				continue
			}
			one(c20Case{Items: items, BodyLen: 5, Trailers: "none", Pos: 1, Split: off})
			if off < 0 {
				one(c20Case{Items: items, BodyLen: 0, Trailers: "none", Pos: 1, Split: off})
				one(c20Case{Items: items, BodyLen: 5, Trailers: "valid", Pos: 1, Split: off})
			}
		}
		for _, pd := range []int{1, 5, 256} {
			one(c20Case{Items: items, BodyLen: 5, Trailers: "none", Pos: 1, PadData: pd})
			one(c20Case{Items: items, BodyLen: 5, Trailers: "valid", Pos: 1, PadData: pd})
			one(c20Case{Items: items, BodyLen: 5, Trailers: "none", Pos: 1, PadData: pd, CLPadded: true})
		}
	}
	c.Family("server-fragmented")
	// every list again, sent twice with a stateful encoder: literals first, then references to what they inserted
	for _, sub := range subsets {
		for _, bl := range []int{0, 5} {
			if c.Expired("C20 repeated") {
				break
			}
			one(c20Case{Items: sub, BodyLen: bl, Trailers: "none", Pos: 1, Repeat: true})
		}
	}
	// ... and single items with the (short) second block cut at every offset, so that each reference opens a fragment
	for it := 0; it < len(c20Items); it++ {
		for off := -4; off <= 24; off++ {
			if off != 0 {
				one(c20Case{Items: []int{it}, BodyLen: 0, Trailers: "none", Pos: 1, Repeat: true, Split: off})
			}
		}
	}
	c.Family("server-repeated-with-dynamic-table")
	runC20Client(c)
}

func replayC20(raw json.RawMessage) (string, bool) {
	var r struct {
		Family string          `json:"family"`
		Case   json.RawMessage `json:"case"`
	}
	if err := json.Unmarshal(raw, &r); err != nil {
		return err.Error(), false
	}
	if r.Family == "c20client" {
		return replayC20Client(r.Case)
	}
	var cs c20Case
	json.Unmarshal(r.Case, &cs)
	v, h := c20Run(cs)
	defer h.Close()
	if v != nil {
		return v.Rule + " [" + v.Shape + "]: " + v.Detail, true
	}
	return "verdict matches RFC 7540 8.1.2: " + strings.Join(h.EventLog, " ; "), false
}

var _ = sort.Strings
