package checks

import (
	"encoding/json"
	"fmt"
	"strings"

	"github.com/dgrr/http2"
	"golang.org/x/net/http2/hpack"

	"verif/fw"
	"verif/ref"
)

// C04 — what the HPACK encoder emits is valid, decodes to the same list, and
// keeps the peer's table in sync.
//
// AX: explicit-state search over the reference state of the connection
// (peer decoder table, allowed size, pending size announcement). Transitions:
// one header block (1-2 AppendHeader calls with store/sensitive flags) or a
// SetMaxTableSize call. Every state is re-reached on a fresh real encoder by
// replaying its access sequence; after every block the bytes are decoded by the
// strict RFC 7541 reference and by x/net, and the encoder's own table (injected
// dump) is compared with the decoder's.

func init() {
	fw.Register(&fw.Check{
		ID: "C04", Level: "model_checking",
		Rule:   "AX: BFS over (config, peer decoder table, allowed size, pending announcement); transitions = header block of 1-2 AppendHeader(field, store, sensitive) calls over an alphabet of static hits, dynamic hits, new names (empty, 1 byte, '00000000', trailing NUL) x value lengths (0,1,127,128,300) or SetMaxTableSize(v); every emitted block decoded by the strict reference and x/net, tables compared. Non-trivial: history has >= 1 earlier op or block has 2 fields or a size change is pending; distinct by (state, op).",
		Assume: []string{"ref/hpack.go is RFC 7541 (x/net decodes every emitted block too; disagreements counted)", "the peer applies SETTINGS_HEADER_TABLE_SIZE = v at the moment SetMaxTableSize(v) is called on the encoder"},
		Run:    runC04, Replay: replayC04, QuickS: 120, ThoroughS: 600,
	})
}

type c04Field struct {
	Name      string `json:"name"`
	Value     string `json:"value"`
	Store     bool   `json:"store"`
	Sensitive bool   `json:"sensitive"`
}

// c04Op is one transition: a block of fields, or a table size change.
type c04Op struct {
	SetMax *int       `json:"setmax,omitempty"`
	Fields []c04Field `json:"fields,omitempty"`
}

func (o c04Op) String() string {
	if o.SetMax != nil {
		return fmt.Sprintf("SetMaxTableSize(%d)", *o.SetMax)
	}
	var p []string
	for _, f := range o.Fields {
		p = append(p, fmt.Sprintf("(%q:%s store=%v sens=%v)", f.Name, short(f.Value), f.Store, f.Sensitive))
	}
	return "block" + strings.Join(p, "")
}

type c04Config struct {
	NoCompress bool `json:"disable_compression"`
	NoDynamic  bool `json:"disable_dynamic_table"`
}

type c04Case struct {
	Cfg c04Config `json:"config"`
	Ops []c04Op   `json:"ops"`
}

type c04Model struct {
	t         *ref.Table
	pending   bool
	minSince  int
	announced int
	// lastShape: what the last emitted block consisted of (representation kinds, in order, run-length collapsed)
	lastShape string
}

func nameClass(n string) string {
	switch {
	case n == "":
		return "empty"
	case strings.HasSuffix(n, "\x00"):
		return "ends-in-NUL"
	case n == "00000000":
		return "huffman-form-ends-in-zero-byte"
	case strings.HasPrefix(n, ":"):
		return "pseudo"
	}
	return "plain"
}

// c04Eval replays ops on a fresh encoder and checks every step. It returns the
// violation of the LAST op (nil if it holds) and the model state after all ops;
// the model is nil when the history cannot be extended (an earlier or the last
// step broke the connection).
func c04Eval(cs c04Case, c *fw.Ctx) (*fw.Violation, *c04Model) {
	hp := http2.AcquireHPACK()
	defer http2.ReleaseHPACK(hp)
	hp.DisableCompression = cs.Cfg.NoCompress
	hp.DisableDynamicTable = cs.Cfg.NoDynamic
	defer func() { hp.DisableDynamicTable = false }()
	m := &c04Model{t: ref.NewTable(), announced: 4096}
	xd := hpack.NewDecoder(4096, nil)
	mk := func(rule, shape, detail string) *fw.Violation {
		return &fw.Violation{Rule: rule, Shape: shape, Detail: detail + fmt.Sprintf(" [config=%+v ops=%v]", cs.Cfg, cs.Ops), Replay: map[string]any{"family": "hpack-encode", "case": cs}}
	}
	for i, op := range cs.Ops {
		last := i == len(cs.Ops)-1
		if op.SetMax != nil {
			v := *op.SetMax
			hp.SetMaxTableSize(uint32(v))
			if !m.pending || v < m.minSince {
				m.minSince = v
			}
			m.pending = true
			m.t.SettingsMax = v
			xd.SetAllowedMaxDynamicTableSize(uint32(v))
			continue
		}
		var enc []byte
		hf := http2.AcquireHeaderField()
		var pan any
		sensStored := -1
		func() {
			defer func() { pan = recover() }()
			for j, f := range op.Fields {
				hf.SetBytes([]byte(f.Name), []byte(f.Value))
				http2.VerifSetSensible(hf, f.Sensitive)
				tb := implTable(hp)
				enc = hp.AppendHeader(enc, hf, f.Store)
				if ta := implTable(hp); f.Sensitive && len(ta) > 0 && len(ta) >= len(tb) && !sameTable(tb, ta) {
					sensStored = j
				}
			}
		}()
		http2.VerifSetSensible(hf, false)
		http2.ReleaseHeaderField(hf)
		bad := func(v *fw.Violation) (*fw.Violation, *c04Model) {
			if !last {
				return nil, nil
			}
			return v, nil
		}
		if pan != nil {
			return bad(mk("encoder-panic", "panic", fmt.Sprintf("AppendHeader panicked: %v", pan)))
		}
		// RFC 7541 4.2: if the allowed size dipped below the decoder's current
		// maximum, the block starts with an update to at most that minimum.
		needShrink := m.pending && m.minSince < m.t.Max
		before := m.t.Clone()
		got, err := ref.DecodeBlock(m.t, enc)
		var shape [8]byte
		ns := 0
		for _, g := range got {
			k := byte('0' + int(g.Rep)%10)
			if (ns == 0 || shape[ns-1] != k) && ns < len(shape) {
				shape[ns] = k
				ns++
			}
		}
		m.lastShape = string(shape[:ns])
		xf, xerr := xd.DecodeFull(enc)
		if c != nil && last {
			if (xerr == nil) != (err == nil) {
				c.Disagree()
				c.Note(fmt.Sprintf("x/net err=%v ref err=%v on %x", xerr, err, enc))
			} else if err == nil {
				j := 0
				for _, g := range got {
					if g.Rep == ref.RepSizeUpdate {
						continue
					}
					if j >= len(xf) || xf[j].Name != g.Name || xf[j].Value != g.Value || xf[j].Sensitive != g.Sensitive {
						c.Disagree()
						break
					}
					j++
				}
			}
		}
		fshape := func(fi int) string {
			if fi >= len(op.Fields) {
				fi = len(op.Fields) - 1
			}
			f := op.Fields[fi]
			full, nameOnly := before.Find(f.Name, f.Value)
			src := "new-name"
			if full != 0 {
				src = "full-match"
			} else if nameOnly != 0 {
				src = "name-match"
				if nameOnly >= 15 {
					src = "name-match(index>=15)"
				}
				if nameOnly >= 62 {
					src = "name-match(dynamic)"
				}
			}
			return fmt.Sprintf("%s name=%s vlen=%s store=%v sens=%v compress=%v dyn=%v", src, nameClass(f.Name), lenClass(len(f.Value)), f.Store, f.Sensitive, !cs.Cfg.NoCompress, !cs.Cfg.NoDynamic)
		}
		if err != nil {
			return bad(mk("emits-invalid-block", fshape(countFields(got)), fmt.Sprintf("block %x is not valid HPACK for the peer (%v); peer table %s", enc, err, before)))
		}
		var fields []ref.DecField
		var updates []int
		for _, g := range got {
			if g.Rep == ref.RepSizeUpdate {
				updates = append(updates, g.NewMax)
			} else {
				fields = append(fields, g)
			}
		}
		for j := 0; j < len(fields) || j < len(op.Fields); j++ {
			if j >= len(fields) || j >= len(op.Fields) {
				return bad(mk("decodes-to-other-fields", fshape(j)+" count", fmt.Sprintf("block %x decodes to %d fields, %d were encoded: %v", enc, len(fields), len(op.Fields), fields)))
			}
			if fields[j].Name != op.Fields[j].Name || fields[j].Value != op.Fields[j].Value {
				return bad(mk("decodes-to-other-fields", fshape(j), fmt.Sprintf("field %d of block %x decodes to (%q,%q), encoded (%q,%q)", j, enc, fields[j].Name, short(fields[j].Value), op.Fields[j].Name, short(op.Fields[j].Value))))
			}
			if op.Fields[j].Sensitive && fields[j].Rep != ref.RepNever {
				return bad(mk("sensitive-not-never-indexed", fshape(j), fmt.Sprintf("sensitive field %d emitted as %s in %x", j, fields[j].Rep, enc)))
			}
		}
		if needShrink && (len(updates) == 0 || updates[0] > m.minSince) {
			kind := "single-change"
			if m.minSince < m.t.SettingsMax {
				kind = "shrink-then-grow"
			}
			return bad(mk("size-change-not-announced", kind, fmt.Sprintf("the allowed table size dipped to %d (now %d), below the decoder's %d: the next block must start with a size update <= %d; block %x starts with updates %v", m.minSince, m.t.SettingsMax, before.Max, m.minSince, enc, updates)))
		}
		// tables in sync, and within the allowed size
		it := implTable(hp)
		if !sameTable(it, m.t.Ents) {
			return bad(mk("tables-out-of-sync", fshape(len(op.Fields)-1), fmt.Sprintf("after block %x encoder table %v, peer decoder table %v", enc, it, m.t.Ents)))
		}
		if int(hp.DynamicSize()) > m.t.SettingsMax {
			return bad(mk("table-larger-than-allowed", "size", fmt.Sprintf("encoder table %d bytes > allowed %d", hp.DynamicSize(), m.t.SettingsMax)))
		}
		if sensStored >= 0 {
			return bad(mk("sensitive-field-stored", fshape(sensStored), fmt.Sprintf("encoding sensitive field %q changed the dynamic table", op.Fields[sensStored].Name)))
		}
		m.pending = false
	}
	return nil, m
}

func countFields(fs []ref.DecField) int {
	n := 0
	for _, f := range fs {
		if f.Rep != ref.RepSizeUpdate {
			n++
		}
	}
	return n
}

func c04StateKey(cfg c04Config, m *c04Model) string {
	return fmt.Sprintf("%v|%v|%d|%d|%s", cfg, m.pending, m.minSince, m.announced, tableKey(0, m.t))
}

func c04Alphabet(m *c04Model, full bool) []c04Field {
	type nv struct{ n, v string }
	pairs := []nv{
		{":method", "GET"}, {":method", "PUT"}, {"cookie", "a=b"}, {"authorization", "tok"}, {"www-authenticate", "x"},
		{"x", "1"}, {"", "v"}, {"00000000", "v"}, {"ab\x00", "v"}, {"custom-key", ""},
		{"x", valOfLen(128)},
	}
	if full {
		pairs = append(pairs, nv{"x", valOfLen(127)}, nv{"x", valOfLen(300)}, nv{"cookie", ""}, nv{"00000000", ""}, nv{"\x00", "\x00"}, nv{"content-length", "0"})
	}
	for i, e := range m.t.Ents {
		if i < 2 {
			pairs = append(pairs, nv{e.Name, e.Value}, nv{e.Name, "other"})
		}
	}
	var out []c04Field
	seen := map[string]bool{}
	for _, p := range pairs {
		for _, store := range []bool{true, false} {
			for _, sens := range []bool{false, true} {
				if sens && !full && !(p.n == "authorization" || p.n == "x" && len(p.v) == 1 || p.n == ":method" && p.v == "GET") {
					continue
				}
				k := fmt.Sprint(p.n, "\x01", p.v, store, sens)
				if !seen[k] {
					seen[k] = true
					out = append(out, c04Field{p.n, p.v, store, sens})
				}
			}
		}
	}
	return out
}

func runC04(c *fw.Ctx) {
	thorough := c.Tier == "thorough"
	maxBlocks := 2
	if thorough {
		maxBlocks = 3
	}
	c.Bound["ax_depth_blocks"] = maxBlocks
	sizes := []int{0, 50, 100, 4096, 8192}
	c.Bound["setmax_values"] = sizes
	sampled := 0
	type state struct {
		ops    []c04Op
		m      *c04Model
		blocks int
		sets   int // consecutive SetMax ops at the end
		tsets  int // SetMax ops in the whole history
	}
	maxSets := 2
	if thorough {
		maxSets = 3
	}
	c.Bound["setmax_ops_per_history"] = maxSets
	genOps := func(st *state) []c04Op {
		var ops []c04Op
		if st.blocks < maxBlocks {
			alpha := c04Alphabet(st.m, thorough || st.blocks == 0)
			for _, f := range alpha {
				ops = append(ops, c04Op{Fields: []c04Field{f}})
			}
			var red []c04Field
			rs := map[string]bool{}
			for _, f := range alpha {
				k := fmt.Sprint(nameClass(f.Name), lenClass(len(f.Value)), f.Store, f.Sensitive, f.Name == ":method", f.Name == "cookie")
				if !rs[k] {
					rs[k] = true
					red = append(red, f)
				}
			}
			for _, a := range red {
				for _, b := range red {
					ops = append(ops, c04Op{Fields: []c04Field{a, b}})
				}
			}
		}
		if st.sets < 2 && st.tsets < maxSets {
			for i := range sizes {
				ops = append(ops, c04Op{SetMax: &sizes[i]})
			}
		}
		return ops
	}
	for _, cfg := range []c04Config{{false, false}, {true, false}, {false, true}, {true, true}} {
		_, m0 := c04Eval(c04Case{Cfg: cfg}, nil)
		root := &state{m: m0}
		// Level 1 is expanded by every shard (about a thousand steps) so that all
		// shards agree on the de-duplicated set of depth-1 states; each of those and
		// everything below it then belongs to exactly one shard.
		expand := func(st *state, owned bool, seen map[string]bool) (next []*state) {
			if owned {
				c.State(fw.Hash("c04", c04StateKey(cfg, st.m)))
			}
			for oi, op := range genOps(st) {
				if oi&0x3f == 0 && c.Expired("C04 AX") {
					break
				}
				cs := c04Case{Cfg: cfg, Ops: append(append([]c04Op{}, st.ops...), op)}
				var v *fw.Violation
				var m *c04Model
				if owned {
					v, m = c04Eval(cs, c)
					c.Eval(nt(len(st.ops) > 0 || len(op.Fields) > 1 || st.m.pending, []byte(c04StateKey(cfg, st.m)+op.String())))
					c.AddTransitions(1)
					if v != nil {
						c.Violate(*v)
						c.Outcome(v.Rule)
					} else if m != nil {
						c.Outcome("agree:" + m.lastShape)
					} else {
						c.Outcome("agree")
					}
					if sampled < 3 && len(st.ops) >= 2 && len(op.Fields) == 2 {
						sampled++
						c.Sample(map[string]any{"family": "AX", "peer_table": st.m.t.String(), "op": op.String(), "case": cs})
					}
				} else {
					_, m = c04Eval(cs, nil)
				}
				nb, ns, nts := st.blocks, 0, st.tsets
				if op.SetMax != nil {
					ns = st.sets + 1
					nts++
				} else {
					nb++
				}
				if m != nil && nb < maxBlocks {
					k := fmt.Sprint(c04StateKey(cfg, m), nb, nts)
					if !seen[k] {
						seen[k] = true
						next = append(next, &state{ops: cs.Ops, m: m, blocks: nb, sets: ns, tsets: nts})
					}
				}
			}
			return next
		}
		seen1 := map[string]bool{c04StateKey(cfg, m0): true}
		level1 := expand(root, c.Mine(0), seen1)
		for i, st1 := range level1 {
			if !c.Mine(int64(i)) {
				continue
			}
			seen := map[string]bool{}
			for k := range seen1 {
				seen[k] = true
			}
			frontier := []*state{st1}
			for len(frontier) > 0 && !c.Expired("C04 AX") {
				st := frontier[0]
				frontier = frontier[1:]
				frontier = append(frontier, expand(st, true, seen)...)
			}
		}
	}
	c.Family("AX")

	// ---- integer-emission boundaries through the public API ----
	// string lengths, table sizes and indices around 2^N-1 and 2^N-1+128 for
	// every prefix width the encoder uses (RFC 7541 5.1)
	var item int64
	doCase := func(cs c04Case, key string) {
		if item++; !c.Mine(item) {
			return
		}
		var v *fw.Violation
		for k := 1; k <= len(cs.Ops) && v == nil; k++ {
			if cs.Ops[k-1].SetMax != nil {
				continue
			}
			pre := c04Case{Cfg: cs.Cfg, Ops: cs.Ops[:k]}
			var m *c04Model
			if v, m = c04Eval(pre, c); m == nil {
				break
			}
		}
		c.Eval(nt(true, []byte("int:"+key)))
		c.AddTransitions(int64(len(cs.Ops)))
		if v != nil {
			v.Shape = "int-boundary " + key
			c.Violate(*v)
			c.Outcome(v.Rule)
		} else {
			c.Outcome("agree")
		}
	}
	lens := []int{126, 127, 128, 129, 254, 255, 256, 383, 16510, 16511, 16512}
	for _, cfg := range []c04Config{{false, false}, {true, false}} {
		for _, l := range lens {
			for _, store := range []bool{true, false} {
				for _, sens := range []bool{false, true} {
					// raw length l, and a string of '0' characters whose Huffman form is l octets long
					vals := []string{valOfLen(l), strings.Repeat("0", l*8/5)}
					for vi, val := range vals {
						doCase(c04Case{Cfg: cfg, Ops: []c04Op{{Fields: []c04Field{{"x-len", val, store, sens}}}, {Fields: []c04Field{{"x-after", "v", true, false}}}}}, fmt.Sprintf("value-length=%d(%d) compress=%v", l, vi, !cfg.NoCompress))
						doCase(c04Case{Cfg: cfg, Ops: []c04Op{{Fields: []c04Field{{val, "v", store, sens}}}, {Fields: []c04Field{{"x-after", "v", true, false}}}}}, fmt.Sprintf("name-length=%d(%d) compress=%v", l, vi, !cfg.NoCompress))
					}
				}
			}
		}
	}
	for _, sz := range []int{29, 30, 31, 32, 33, 158, 159, 160, 286, 287, 4095, 4096, 16414, 16415, 16416} {
		sz := sz
		doCase(c04Case{Ops: []c04Op{{Fields: []c04Field{{"x", "1", true, false}}}, {SetMax: &sz}, {Fields: []c04Field{{"y", "2", true, false}}}, {Fields: []c04Field{{"x", "1", true, false}, {"y", "2", true, false}}}}}, fmt.Sprintf("table-size=%d", sz))
	}
	// indices: n dynamic entries, then the oldest one again (full match, index 61+n),
	// and its name with another value under each literal representation
	big := 65536
	for _, n := range []int{1, 2, 3, 65, 66, 67, 129, 130, 131, 193, 194, 195, 257, 258} {
		ops := []c04Op{{SetMax: &big}}
		var fs []c04Field
		for i := 0; i < n; i++ {
			fs = append(fs, c04Field{fmt.Sprintf("n%d", i), "v", true, false})
			if len(fs) == 16 || i == n-1 {
				ops = append(ops, c04Op{Fields: fs})
				fs = nil
			}
		}
		for _, probe := range []c04Field{{"n0", "v", true, false}, {"n0", "other", true, false}, {"n0", "other", false, false}, {"n0", "other", false, true}, {"n1", "v", false, false}} {
			doCase(c04Case{Ops: append(append([]c04Op{}, ops...), c04Op{Fields: []c04Field{probe}}, c04Op{Fields: []c04Field{{"x-after", "v", true, false}}})}, fmt.Sprintf("dynamic-index=%d %s store=%v sens=%v", 61+n, map[bool]string{true: "full", false: "name"}[probe.Value == "v"], probe.Store, probe.Sensitive))
		}
	}
	// static name indices around the 4-bit prefix boundary (15 = accept-charset, 16 = accept-encoding)
	for _, name := range []string{":status", "accept-charset", "accept-encoding", "www-authenticate"} {
		for _, sens := range []bool{false, true} {
			for _, store := range []bool{false, true} {
				doCase(c04Case{Ops: []c04Op{{Fields: []c04Field{{name, "zz", store, sens}}}, {Fields: []c04Field{{"x-after", "v", true, false}}}}}, fmt.Sprintf("static-name=%s store=%v sens=%v", name, store, sens))
			}
		}
	}
	c.Family("int-boundaries")
	c.AddTraces(c.Evals)
}

func replayC04(raw json.RawMessage) (string, bool) {
	var r struct {
		Case c04Case `json:"case"`
	}
	if err := json.Unmarshal(raw, &r); err != nil {
		return err.Error(), false
	}
	if v, _ := c04Eval(r.Case, nil); v != nil {
		return v.Rule + ": " + v.Detail, true
	}
	return "every emitted block decodes to the encoded fields and tables stay in sync", false
}
