#!/bin/bash
# mirror.sh <name>: make an independent copy of /verif + /repo under /tmp/mir/<name> so that a sweep of patches
# can run there while /repo is used for something else. Prints the directory. Remove it when done.
n="$1"; d=/tmp/mir/$n
rm -rf "$d"; mkdir -p "$d"
rsync -a --exclude .build --exclude replays /verif/ "$d/verif/"
git -C /repo worktree add --detach "$d/repo" HEAD -q 2>/dev/null || { rsync -a /repo/ "$d/repo/"; }
sed -i "s#=> /repo#=> $d/repo#" "$d/verif/go.mod"
sed -i "s#cp /repo/go.sum#cp $d/repo/go.sum#" "$d/verif/setup.sh"
cat > "$d/patchall.sh" <<EOS
#!/bin/bash
# patchall.sh <diff> [tier] [ids...] in the mirror
p="\$1"; tier="\${2:-quick}"; shift 2 2>/dev/null
export VERIF_REPO=$d/repo
cd $d/repo || exit 2
git checkout -q -- . ; git apply "\$p" || { echo "PATCH DOES NOT APPLY: \$p"; exit 3; }
cd $d/verif
ids="\$*"
[ -z "\$ids" ] && ids=\$(python3 -c "import json;print(' '.join(c['property_id'] for c in json.load(open('MANIFEST.json'))['checks']))")
for id in \$ids; do
  out=\$(./run.sh "\$id" "\$tier" 2>&1); rc=\$?
  echo "\$(basename \$p) \$id rc=\$rc \$(echo "\$out" | grep -a 'rule=' | sed 's/.*rule=//' | cut -c1-150 | sort | uniq | head -4 | tr '\n' '|')"
done
git -C $d/repo checkout -q -- .
EOS
chmod +x "$d/patchall.sh"
echo "$d"
