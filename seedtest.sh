#!/bin/bash
# seedtest.sh <seeded-dir> <tier> <check-id>...: apply a seeded change to /repo, run the checks, undo it.
d="$1"; tier="$2"; shift 2
cd /repo || exit 2
git diff --quiet || { echo "repo dirty"; exit 2; }
git apply "/verif/$d/patch.diff" || { echo "PATCH DOES NOT APPLY: $d"; exit 3; }
cd /verif
for c in "$@"; do
  out=$(./run.sh "$c" "$tier" 2>&1); rc=$?
  echo "== $d $c $tier exit=$rc $(echo "$out" | grep -a "^$c " | cut -c1-120)"
  echo "$out" | grep -a "rule=" | cut -c1-200 | sort | uniq | head -6
done
git -C /repo checkout -- . ; git -C /repo status --short
