// Package vtls replaces "crypto/tls" in the client: the handshake is a
// pass-through that reports ALPN "h2", so the real Dialer/Client code paths run
// over the in-memory transport. No property is about TLS itself.
package vtls

import (
	"crypto/tls"
	"net"
)

type (
	Config          = tls.Config
	ConnectionState = tls.ConnectionState
	Certificate     = tls.Certificate
)

const (
	VersionTLS10 = tls.VersionTLS10
	VersionTLS11 = tls.VersionTLS11
	VersionTLS12 = tls.VersionTLS12
	VersionTLS13 = tls.VersionTLS13
)

// Proto is the ALPN protocol the fake handshake negotiates.
var Proto = "h2"

type Conn struct {
	net.Conn
	cfg *Config
}

func Client(c net.Conn, cfg *Config) *Conn { return &Conn{Conn: c, cfg: cfg} }
func Server(c net.Conn, cfg *Config) *Conn { return &Conn{Conn: c, cfg: cfg} }

func (c *Conn) Handshake() error { return nil }

func (c *Conn) ConnectionState() ConnectionState {
	return ConnectionState{HandshakeComplete: true, NegotiatedProtocol: Proto, Version: VersionTLS13}
}

func (c *Conn) NetConn() net.Conn { return c.Conn }

func LoadX509KeyPair(certFile, keyFile string) (Certificate, error) {
	return tls.LoadX509KeyPair(certFile, keyFile)
}

func X509KeyPair(certPEMBlock, keyPEMBlock []byte) (Certificate, error) {
	return tls.X509KeyPair(certPEMBlock, keyPEMBlock)
}
