//go:build race

package fw

const raceBuild = true
