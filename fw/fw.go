// Package fw is the small framework shared by every check: sharded workers,
// evidence accumulation, violation classification against known_findings.jsonl,
// replay artefacts and the MANIFEST exit-code contract.
package fw

import (
	"bufio"
	"crypto/sha1"
	"encoding/binary"
	"encoding/hex"
	"encoding/json"
	"fmt"
	"hash/fnv"
	"os"
	"os/exec"
	"path/filepath"
	"runtime/debug"
	"sort"
	"strconv"
	"strings"
	"sync"
	"time"
)

// Root is /verif (the directory run.sh runs in).
var Root = func() string {
	if r := os.Getenv("VERIF_ROOT"); r != "" {
		return r
	}
	return "/verif"
}()

// Violation is one witness of a broken oracle rule.
type Violation struct {
	Rule   string `json:"rule"`   // which oracle rule failed
	Shape  string `json:"shape"`  // protocol-level class of the witness (identity of a finding)
	Detail string `json:"detail"` // expected vs observed, human readable
	Replay any    `json:"replay"` // enough to re-execute the case: {"family":..., ...}
}

// Ctx is handed to a check's Run function in a worker process.
type Ctx struct {
	ID       string
	Tier     string
	Seed     int64
	Shard    int
	NShards  int
	Deadline time.Time

	mu          sync.Mutex
	Evals       int64
	Nontrivial  int64
	Transitions int64
	Traces      int64
	RefDisagree int64
	Exhaustive  bool
	Capped      []string
	Bound       map[string]any
	Outcomes    map[string]int64
	Samples     []any
	Notes       []string
	states      map[uint64]struct{}
	statesCap   bool
	nontriv     map[uint64]struct{}
	policy      int
	viol        map[string]*Violation
	violCount   map[string]int64
	Families    map[string]int64
}

const maxStates = 6_000_000

func newCtx(id, tier string, seed int64, shard, n int, dl time.Time) *Ctx {
	return &Ctx{ID: id, Tier: tier, Seed: seed, Shard: shard, NShards: n, Deadline: dl,
		Exhaustive: true, Bound: map[string]any{}, Outcomes: map[string]int64{},
		states: map[uint64]struct{}{}, nontriv: map[uint64]struct{}{},
		viol: map[string]*Violation{}, violCount: map[string]int64{}, Families: map[string]int64{}}
}

// Mine reports whether work item i belongs to this shard.
func (c *Ctx) Mine(i int64) bool { return int(i%int64(c.NShards)) == c.Shard }

// Expired reports whether the time budget is used up; the caller stops
// enumerating and the run is recorded as not exhaustive.
func (c *Ctx) Expired(what string) bool {
	if time.Now().After(c.Deadline) {
		c.mu.Lock()
		if c.Exhaustive {
			c.Exhaustive = false
		}
		found := false
		for _, s := range c.Capped {
			if s == what {
				found = true
			}
		}
		if !found {
			c.Capped = append(c.Capped, what)
		}
		c.mu.Unlock()
		return true
	}
	return false
}

func Hash(parts ...any) uint64 {
	h := fnv.New64a()
	for _, p := range parts {
		switch v := p.(type) {
		case []byte:
			h.Write(v)
		case string:
			h.Write([]byte(v))
		default:
			fmt.Fprint(h, v)
		}
		h.Write([]byte{0xff, 0})
	}
	return h.Sum64()
}

// State records one canonical state as visited.
func (c *Ctx) State(h uint64) {
	c.mu.Lock()
	if len(c.states) < maxStates {
		c.states[h] = struct{}{}
	} else {
		c.statesCap = true
	}
	c.mu.Unlock()
}

// Eval counts one evaluated case. nontrivKey != 0 marks the case as non-trivial
// by the check's rule, counted as distinct by that key.
func (c *Ctx) Eval(nontrivKey uint64) {
	c.mu.Lock()
	c.Evals++
	if nontrivKey != 0 && len(c.nontriv) < maxStates {
		c.nontriv[nontrivKey] = struct{}{}
	}
	c.mu.Unlock()
}

func (c *Ctx) AddTransitions(n int64) { c.mu.Lock(); c.Transitions += n; c.mu.Unlock() }
func (c *Ctx) AddTraces(n int64)      { c.mu.Lock(); c.Traces += n; c.mu.Unlock() }
func (c *Ctx) Outcome(k string)       { c.mu.Lock(); c.Outcomes[k]++; c.mu.Unlock() }
func (c *Ctx) Family(k string)        { c.mu.Lock(); c.Families[k]++; c.mu.Unlock() }
func (c *Ctx) Disagree()              { c.mu.Lock(); c.RefDisagree++; c.mu.Unlock() }
func (c *Ctx) Note(s string)          { c.mu.Lock(); c.Notes = append(c.Notes, s); c.mu.Unlock() }

// Sample keeps a few explored cases, written out, for the evidence file.
func (c *Ctx) Sample(s any) {
	c.mu.Lock()
	if len(c.Samples) < 6 {
		c.Samples = append(c.Samples, s)
	}
	c.mu.Unlock()
}

// Violate records a witness. Only the first witness per (rule, shape) is kept
// (enumeration is simplest-first, so it is the smallest in enumeration order).
func (c *Ctx) Violate(v Violation) {
	if c.policy != 0 {
		v.Detail += fmt.Sprintf("\n    internal schedule: alternative %d (always switch goroutine at a synchronisation point)", c.policy)
		if m, ok := v.Replay.(map[string]any); ok {
			m["policy"] = c.policy
		}
	}
	k := v.Rule + "\x00" + v.Shape
	c.mu.Lock()
	c.violCount[k]++
	if _, ok := c.viol[k]; !ok {
		vv := v
		c.viol[k] = &vv
	}
	c.mu.Unlock()
}

type partial struct {
	Evals, Transitions, Traces, RefDisagree int64
	Exhaustive                              bool
	Capped                                  []string
	Bound                                   map[string]any
	Outcomes                                map[string]int64
	Families                                map[string]int64
	Samples                                 []any
	Notes                                   []string
	StatesCapped                            bool
	Viol                                    []*Violation
	ViolCount                               map[string]int64
	WallS                                   float64
}

func writeHashes(path string, m map[uint64]struct{}) error {
	f, err := os.Create(path)
	if err != nil {
		return err
	}
	w := bufio.NewWriterSize(f, 1<<20)
	var b [8]byte
	for h := range m {
		binary.LittleEndian.PutUint64(b[:], h)
		w.Write(b[:])
	}
	if err := w.Flush(); err != nil {
		return err
	}
	return f.Close()
}

func readHashes(path string, into map[uint64]struct{}) {
	data, err := os.ReadFile(path)
	if err != nil {
		return
	}
	for i := 0; i+8 <= len(data); i += 8 {
		into[binary.LittleEndian.Uint64(data[i:])] = struct{}{}
	}
}

// Check is one property's decision procedure.
type Check struct {
	ID     string
	Level  string // evidence "level"
	Rule   string // how cases are enumerated / what is non-trivial
	Assume []string
	Run    func(c *Ctx)
	Replay func(raw json.RawMessage) (string, bool) // re-execute one witness; returns description, still-violates
	Race   bool                                     // needs the -race binary
	// Policies: number of alternative internal schedules (vsched.Policy 1..n) under which Run is repeated
	Policies  int
	QuickS    int // enumeration budget, seconds (quick)
	ThoroughS int
}

// ReplayHook, when set, sees every witness before the check's own Replay
// function (witness families shared between checks).
var ReplayHook func(prop string, raw json.RawMessage) (desc string, violates bool, handled bool)

var registry = map[string]*Check{}

func Register(c *Check) { registry[c.ID] = c }

// AppendRule adds text to the enumeration rule of an already registered check
// (a family shared between checks describes itself once).
func AppendRule(id, text string) {
	if c := registry[id]; c != nil {
		c.Rule += " " + text
	}
}

// Main is the entry point of the check binary.
func Main() {
	args := os.Args[1:]
	if len(args) == 0 {
		fmt.Fprintln(os.Stderr, "usage: check <id> [--tier quick|thorough] | check replay <file> | check list")
		os.Exit(2)
	}
	switch args[0] {
	case "list":
		ids := []string{}
		for id := range registry {
			ids = append(ids, id)
		}
		sort.Strings(ids)
		fmt.Println(strings.Join(ids, " "))
		return
	case "israce":
		ck := registry[args[1]]
		if ck != nil && ck.Race {
			fmt.Println("yes")
		} else {
			fmt.Println("no")
		}
		return
	case "replay":
		replayMain(args[1:])
		return
	}
	id := args[0]
	ck, ok := registry[id]
	if !ok {
		fmt.Fprintf(os.Stderr, "unknown check %s\n", id)
		os.Exit(2)
	}
	tier := os.Getenv("VERIF_TIER")
	shard, nshards := -1, 0
	out := ""
	for i := 1; i < len(args); i++ {
		switch args[i] {
		case "--tier":
			i++
			tier = args[i]
		case "--shard":
			i++
			fmt.Sscanf(args[i], "%d/%d", &shard, &nshards)
		case "--out":
			i++
			out = args[i]
		}
	}
	if tier == "" {
		tier = "quick"
	}
	seed, _ := strconv.ParseInt(os.Getenv("VERIF_SEED"), 10, 64)
	if shard >= 0 {
		worker(ck, tier, seed, shard, nshards, out)
		return
	}
	parent(ck, tier, seed)
}

func budget(ck *Check, tier string) time.Duration {
	q, t := ck.QuickS, ck.ThoroughS
	if q == 0 {
		q = 40
	}
	if t == 0 {
		t = 600
	}
	if s := os.Getenv("VERIF_BUDGET_S"); s != "" {
		if n, err := strconv.Atoi(s); err == nil {
			return time.Duration(n) * time.Second
		}
	}
	if tier == "thorough" {
		return time.Duration(t) * time.Second
	}
	return time.Duration(q) * time.Second
}

func worker(ck *Check, tier string, seed int64, shard, n int, out string) {
	start := time.Now()
	c := newCtx(ck.ID, tier, seed, shard, n, start.Add(budget(ck, tier)))
	run := func() {
		// A panic raised by the library itself while a check calls it directly (the codec checks do) is a finding,
		// not a broken harness: report it, and record that this shard stopped there. Anything else still crashes.
		defer func() {
			r := recover()
			if r == nil {
				return
			}
			stack := string(debug.Stack())
			where := ""
			for _, l := range strings.Split(stack, "\n") {
				if strings.HasPrefix(l, "\t") || strings.HasPrefix(l, "goroutine ") || strings.HasPrefix(l, "runtime") || strings.HasPrefix(l, "panic(") {
					continue
				}
				if strings.HasPrefix(l, "verif/fw.worker") || strings.HasPrefix(l, "runtime/debug.Stack") {
					continue
				}
				if strings.HasPrefix(l, "github.com/dgrr/http2.") {
					where = l
				}
				break
			}
			if where == "" {
				panic(fmt.Sprintf("%v\n%s", r, stack))
			}
			if i := strings.IndexByte(where, '('); i > 0 && !strings.HasPrefix(where[i:], "(*") {
				where = where[:i]
			}
			if len(stack) > 3000 {
				stack = stack[:3000] + "…"
			}
			c.Violate(Violation{Rule: "library-panic", Shape: where, Detail: fmt.Sprintf("the library panicked when called by the check: %v\n%s", r, stack), Replay: map[string]any{"family": "library-panic", "note": "not replayable on its own: re-run the check"}})
			c.mu.Lock()
			c.Exhaustive = false
			c.Capped = append(c.Capped, fmt.Sprintf("shard %d stopped at a panic in the library", shard))
			c.mu.Unlock()
		}()
		ck.Run(c)
	}
	run()
	// event-level checks run their families again under the alternative internal schedules: between two
	// environment events the goroutines of the implementation are then interleaved the other way round
	for p := 1; p <= ck.Policies && SetPolicy != nil; p++ {
		SetPolicy(p)
		c.policy = p
		run()
	}
	if SetPolicy != nil {
		SetPolicy(0)
	}
	c.policy = 0
	p := partial{Evals: c.Evals, Transitions: c.Transitions, Traces: c.Traces, RefDisagree: c.RefDisagree,
		Exhaustive: c.Exhaustive, Capped: c.Capped, Bound: c.Bound, Outcomes: c.Outcomes, Families: c.Families,
		Samples: c.Samples, Notes: c.Notes, StatesCapped: c.statesCap, ViolCount: c.violCount,
		WallS: time.Since(start).Seconds()}
	keys := []string{}
	for k := range c.viol {
		keys = append(keys, k)
	}
	sort.Strings(keys)
	for _, k := range keys {
		p.Viol = append(p.Viol, c.viol[k])
	}
	if err := writeHashes(out+".states", c.states); err != nil {
		fmt.Fprintln(os.Stderr, "BROKEN:", err)
		os.Exit(2)
	}
	if err := writeHashes(out+".nontriv", c.nontriv); err != nil {
		fmt.Fprintln(os.Stderr, "BROKEN:", err)
		os.Exit(2)
	}
	data, err := json.Marshal(p)
	if err != nil {
		fmt.Fprintln(os.Stderr, "BROKEN:", err)
		os.Exit(2)
	}
	if err := os.WriteFile(out, data, 0o644); err != nil {
		fmt.Fprintln(os.Stderr, "BROKEN:", err)
		os.Exit(2)
	}
}

// Known finding record (known_findings.jsonl, committed; never written at run time).
type Known struct {
	Property string `json:"property"`
	Rule     string `json:"rule"`
	Shape    string `json:"shape"`
	Status   string `json:"status"` // open | fixed
	Commit   string `json:"commit,omitempty"`
	What     string `json:"what"`
}

func loadKnown() []Known {
	var ks []Known
	f, err := os.Open(filepath.Join(Root, "known_findings.jsonl"))
	if err != nil {
		return nil
	}
	defer f.Close()
	sc := bufio.NewScanner(f)
	sc.Buffer(make([]byte, 1<<20), 1<<24)
	for sc.Scan() {
		line := strings.TrimSpace(sc.Text())
		if line == "" || strings.HasPrefix(line, "#") || strings.HasPrefix(line, "fixed:") {
			continue
		}
		var k Known
		if json.Unmarshal([]byte(line), &k) == nil {
			ks = append(ks, k)
		}
	}
	return ks
}

func nworkers() int {
	if s := os.Getenv("VERIF_WORKERS"); s != "" {
		if n, err := strconv.Atoi(s); err == nil && n > 0 {
			return n
		}
	}
	return 16
}

func parent(ck *Check, tier string, seed int64) {
	start := time.Now()
	n := nworkers()
	tmp, err := os.MkdirTemp(filepath.Join(Root, ".build"), "run-"+ck.ID+"-")
	if err != nil {
		fmt.Fprintln(os.Stderr, "BROKEN:", err)
		os.Exit(2)
	}
	defer os.RemoveAll(tmp)
	self, _ := os.Executable()
	type res struct {
		err error
		log string
	}
	results := make([]res, n)
	var wg sync.WaitGroup
	hard := budget(ck, tier)*3 + 120*time.Second
	for i := 0; i < n; i++ {
		wg.Add(1)
		go func(i int) {
			defer wg.Done()
			out := filepath.Join(tmp, fmt.Sprintf("shard%d.json", i))
			cmd := exec.Command(self, ck.ID, "--tier", tier, "--shard", fmt.Sprintf("%d/%d", i, n), "--out", out)
			cmd.Env = append(os.Environ(), "GOMAXPROCS=1", "GOGC=800", "GOMEMLIMIT=3GiB")
			if ck.Race {
				// reports go to a file the worker reads back after every execution, so that
				// each race is tied to the schedule that showed it and exploration goes on
				rl := filepath.Join(tmp, fmt.Sprintf("race%d", i))
				cmd.Env = append(cmd.Env, "GORACE=halt_on_error=0 exitcode=0 log_path="+rl, "VERIF_RACE_LOG="+rl)
			}
			logf := filepath.Join(tmp, fmt.Sprintf("shard%d.log", i))
			lf, _ := os.Create(logf)
			cmd.Stdout = lf
			cmd.Stderr = lf
			if err := cmd.Start(); err != nil {
				results[i] = res{err: err}
				return
			}
			done := make(chan error, 1)
			go func() { done <- cmd.Wait() }()
			select {
			case err := <-done:
				results[i].err = err
			case <-time.After(hard):
				cmd.Process.Kill()
				<-done
				results[i].err = fmt.Errorf("worker exceeded hard limit %s", hard)
			}
			lf.Close()
			b, _ := os.ReadFile(logf)
			if len(b) > 20000 {
				b = b[len(b)-20000:]
			}
			results[i].log = string(b)
		}(i)
	}
	wg.Wait()

	merged := partial{Exhaustive: true, Bound: map[string]any{}, Outcomes: map[string]int64{}, Families: map[string]int64{}, ViolCount: map[string]int64{}}
	states := map[uint64]struct{}{}
	nontriv := map[uint64]struct{}{}
	viol := map[string]*Violation{}
	sampleSeen := map[string]bool{}
	for i := 0; i < n; i++ {
		out := filepath.Join(tmp, fmt.Sprintf("shard%d.json", i))
		if results[i].err != nil {
			// A worker that died is a harness failure unless the check knows how to
			// turn it into a violation (race detector exit code 66).
			if ee, ok := results[i].err.(*exec.ExitError); ok && ee.ExitCode() == 66 && ck.Race {
				v := raceViolation(results[i].log)
				k := v.Rule + "\x00" + v.Shape
				if _, ok := viol[k]; !ok {
					viol[k] = v
				}
				merged.ViolCount[k]++
				merged.Exhaustive = false
				merged.Capped = append(merged.Capped, fmt.Sprintf("shard %d stopped at the first data race", i))
				continue
			}
			fmt.Fprintf(os.Stderr, "BROKEN: worker %d: %v\n%s\n", i, results[i].err, results[i].log)
			os.Exit(2)
		}
		data, err := os.ReadFile(out)
		if err != nil {
			fmt.Fprintf(os.Stderr, "BROKEN: worker %d wrote no result: %v\n%s\n", i, err, results[i].log)
			os.Exit(2)
		}
		var p partial
		if err := json.Unmarshal(data, &p); err != nil {
			fmt.Fprintf(os.Stderr, "BROKEN: worker %d result: %v\n", i, err)
			os.Exit(2)
		}
		merged.Evals += p.Evals
		merged.Transitions += p.Transitions
		merged.Traces += p.Traces
		merged.RefDisagree += p.RefDisagree
		merged.Exhaustive = merged.Exhaustive && p.Exhaustive
		merged.StatesCapped = merged.StatesCapped || p.StatesCapped
		for _, s := range p.Capped {
			dup := false
			for _, t := range merged.Capped {
				dup = dup || s == t
			}
			if !dup {
				merged.Capped = append(merged.Capped, s)
			}
		}
		for k, v := range p.Bound {
			merged.Bound[k] = v
		}
		for k, v := range p.Outcomes {
			merged.Outcomes[k] += v
		}
		for k, v := range p.Families {
			merged.Families[k] += v
		}
		for k, v := range p.ViolCount {
			merged.ViolCount[k] += v
		}
		for _, s := range p.Samples {
			js, _ := json.Marshal(s)
			if !sampleSeen[string(js)] && len(merged.Samples) < 8 {
				sampleSeen[string(js)] = true
				merged.Samples = append(merged.Samples, s)
			}
		}
		for _, s := range p.Notes {
			dup := false
			for _, t := range merged.Notes {
				dup = dup || s == t
			}
			if !dup {
				merged.Notes = append(merged.Notes, s)
			}
		}
		for _, v := range p.Viol {
			k := v.Rule + "\x00" + v.Shape
			if _, ok := viol[k]; !ok {
				viol[k] = v
			}
		}
		readHashes(out+".states", states)
		readHashes(out+".nontriv", nontriv)
	}

	known := loadKnown()
	keys := []string{}
	for k := range viol {
		keys = append(keys, k)
	}
	sort.Strings(keys)
	var lines []string
	knownHit := []string{}
	newViol := 0
	os.MkdirAll(filepath.Join(Root, "replays"), 0o755)
	for _, k := range keys {
		v := viol[k]
		matched := false
		for _, kf := range known {
			if kf.Property == ck.ID && kf.Status == "open" && kf.Rule == v.Rule && kf.Shape == v.Shape {
				lines = append(lines, fmt.Sprintf("KNOWN-FINDING: property=%s %s [rule=%s shape=%s witnesses=%d]", ck.ID, kf.What, v.Rule, v.Shape, merged.ViolCount[k]))
				knownHit = append(knownHit, v.Rule+":"+v.Shape)
				matched = true
				break
			}
		}
		if matched {
			continue
		}
		newViol++
		sum := sha1.Sum([]byte(k))
		path := filepath.Join(Root, "replays", fmt.Sprintf("%s-%s.json", ck.ID, hex.EncodeToString(sum[:5])))
		body, _ := json.MarshalIndent(map[string]any{"property": ck.ID, "rule": v.Rule, "shape": v.Shape, "detail": v.Detail, "replay": v.Replay, "witnesses": merged.ViolCount[k]}, "", " ")
		os.WriteFile(path, body, 0o644)
		fmt.Printf("  rule=%s shape=%s\n  %s\n", v.Rule, v.Shape, v.Detail)
		lines = append(lines, fmt.Sprintf("VIOLATION property=%s replay=%s", ck.ID, path))
	}

	nstates := int64(len(states))
	if nstates == 0 {
		nstates = 1
	}
	cov := map[string]any{
		"evaluations":                   merged.Evals,
		"distinct_nontrivial":           int64(len(nontriv)),
		"rule":                          ck.Rule,
		"samples":                       merged.Samples,
		"states":                        nstates,
		"transitions":                   merged.Transitions,
		"traces_validated_against_impl": merged.Traces,
		"exhaustive":                    merged.Exhaustive,
		"bound":                         merged.Bound,
		"distinct_outcomes":             len(merged.Outcomes),
		"outcomes":                      topOutcomes(merged.Outcomes, 40),
		"families":                      merged.Families,
		"reference_disagreements":       merged.RefDisagree,
		"known_findings_hit":            knownHit,
		"workers":                       n,
	}
	if len(merged.Capped) > 0 {
		cov["capped"] = merged.Capped
	}
	if merged.StatesCapped {
		cov["states_capped_at"] = maxStates
	}
	if len(merged.Notes) > 0 {
		cov["notes"] = merged.Notes
	}
	if len(merged.Samples) == 0 {
		cov["samples"] = []any{"(no sample recorded)"}
	}
	if merged.Transitions == 0 {
		cov["transitions"] = merged.Evals
	}
	if ck.Assume == nil {
		ck.Assume = []string{}
	}
	ev := map[string]any{
		"property_id": ck.ID,
		"tier":        tier,
		"seed":        seed,
		"level":       ck.Level,
		"coverage":    cov,
		"assumptions": ck.Assume,
		"wall_s":      time.Since(start).Seconds(),
		"violations":  newViol,
	}
	os.MkdirAll(filepath.Join(Root, "evidence"), 0o755)
	body, _ := json.MarshalIndent(ev, "", " ")
	if err := os.WriteFile(filepath.Join(Root, "evidence", ck.ID+".json"), body, 0o644); err != nil {
		fmt.Fprintln(os.Stderr, "BROKEN:", err)
		os.Exit(2)
	}
	fmt.Printf("%s tier=%s evals=%d states=%d transitions=%d traces=%d nontrivial=%d outcomes=%d exhaustive=%v wall=%.1fs\n",
		ck.ID, tier, merged.Evals, nstates, cov["transitions"], merged.Traces, len(nontriv), len(merged.Outcomes), merged.Exhaustive, time.Since(start).Seconds())
	for _, l := range lines {
		fmt.Println(l)
	}
	if newViol > 0 {
		os.Exit(1)
	}
}

func topOutcomes(m map[string]int64, n int) map[string]int64 {
	type kv struct {
		k string
		v int64
	}
	var kvs []kv
	for k, v := range m {
		kvs = append(kvs, kv{k, v})
	}
	sort.Slice(kvs, func(i, j int) bool {
		if kvs[i].v != kvs[j].v {
			return kvs[i].v > kvs[j].v
		}
		return kvs[i].k < kvs[j].k
	})
	out := map[string]int64{}
	for i, e := range kvs {
		if i >= n {
			break
		}
		out[e.k] = e.v
	}
	return out
}

// raceViolation turns a race detector report (worker log) into a violation.
func raceViolation(log string) *Violation {
	shape := "unclassified"
	// shape: the two top non-runtime frames of the racing accesses, file:func only
	var fns []string
	lines := strings.Split(log, "\n")
	for i, l := range lines {
		t := strings.TrimSpace(l)
		if strings.HasPrefix(t, "Write at") || strings.HasPrefix(t, "Read at") || strings.HasPrefix(t, "Previous write at") || strings.HasPrefix(t, "Previous read at") {
			for j := i + 1; j < len(lines) && j < i+12; j++ {
				f := strings.TrimSpace(lines[j])
				if strings.HasPrefix(f, "github.com/dgrr/http2") {
					if k := strings.Index(f, "("); k > 0 {
						f = f[:k]
					}
					fns = append(fns, strings.TrimPrefix(f, "github.com/dgrr/http2."))
					break
				}
			}
		}
	}
	if len(fns) >= 2 {
		sort.Strings(fns[:2])
		shape = fns[0] + "|" + fns[1]
	}
	sched := ""
	for i := len(lines) - 1; i >= 0; i-- {
		if strings.HasPrefix(lines[i], "SCHEDULE ") {
			sched = lines[i]
			break
		}
	}
	if len(log) > 6000 {
		log = log[:6000]
	}
	return &Violation{Rule: "data-race", Shape: shape, Detail: log, Replay: map[string]any{"family": "race", "schedule": sched}}
}

// RaceDelta returns what the race detector has reported since the last call
// (empty without -race or when nothing new was reported). The detector writes
// to $VERIF_RACE_LOG.<pid> (GORACE log_path), set up by the parent.
func RaceDelta() string {
	base := os.Getenv("VERIF_RACE_LOG")
	if base == "" {
		return ""
	}
	f, err := os.Open(fmt.Sprintf("%s.%d", base, os.Getpid()))
	if err != nil {
		return ""
	}
	defer f.Close()
	st, err := f.Stat()
	if err != nil || st.Size() <= raceOff {
		return ""
	}
	b := make([]byte, st.Size()-raceOff)
	n, _ := f.ReadAt(b, raceOff)
	raceOff += int64(n)
	return string(b[:n])
}

var raceOff int64

// SetPolicy is installed by the package that owns the controlled scheduler (fw does not import it).
var SetPolicy func(p int)

// RaceShape names a race by the two dgrr/http2 functions whose accesses conflict.
func RaceShape(report string) string {
	var fns []string
	lines := strings.Split(report, "\n")
	for i, l := range lines {
		t := strings.TrimSpace(l)
		if strings.HasPrefix(t, "Write at") || strings.HasPrefix(t, "Read at") || strings.HasPrefix(t, "Previous write at") || strings.HasPrefix(t, "Previous read at") {
			for j := i + 1; j < len(lines) && j < i+14; j++ {
				f := strings.TrimSpace(lines[j])
				if f == "" {
					break
				}
				if strings.HasPrefix(f, "github.com/dgrr/http2") {
					if k := strings.Index(f, "("); k > 0 && !strings.HasPrefix(f[k:], "(*") {
						f = f[:k]
					} else if k := strings.LastIndex(f, "("); k > 0 {
						f = f[:k]
					}
					fns = append(fns, strings.TrimPrefix(f, "github.com/dgrr/http2."))
					break
				}
			}
		}
	}
	if len(fns) >= 2 {
		fns = fns[:2]
		sort.Strings(fns)
		return fns[0] + " | " + fns[1]
	}
	if len(fns) == 1 {
		return fns[0] + " | (outside dgrr/http2)"
	}
	return "unclassified"
}

func replayMain(args []string) {
	if len(args) < 1 {
		fmt.Fprintln(os.Stderr, "usage: check replay <file>")
		os.Exit(2)
	}
	data, err := os.ReadFile(args[0])
	if err != nil {
		fmt.Fprintln(os.Stderr, err)
		os.Exit(2)
	}
	if os.Getenv("VERIF_RACE_LOG") == "" && raceBuild {
		// re-run with the detector reporting to a file the replay can read back
		// The detector keeps four accesses per 8-byte word and evicts pseudo-randomly,
		// so one execution of a racy schedule can stay silent: try a few times.
		for attempt := 1; attempt <= 5; attempt++ {
			dir, err := os.MkdirTemp(filepath.Join(os.Getenv("VERIF_ROOT"), ".build"), "replay-race")
			if err != nil {
				break
			}
			self, _ := os.Executable()
			cmd := exec.Command(self, append([]string{"replay"}, args...)...)
			rl := filepath.Join(dir, "race")
			cmd.Env = append(os.Environ(), "GOMAXPROCS=1", "GOGC=800", "GOMEMLIMIT=3GiB", "GORACE=halt_on_error=0 exitcode=0 log_path="+rl, "VERIF_RACE_LOG="+rl)
			var buf strings.Builder
			cmd.Stdout, cmd.Stderr = &buf, &buf
			err = cmd.Run()
			os.RemoveAll(dir)
			if ee, ok := err.(*exec.ExitError); ok && ee.ExitCode() == 1 {
				fmt.Print(buf.String())
				os.Exit(1)
			}
			if err != nil {
				fmt.Print(buf.String())
				fmt.Fprintln(os.Stderr, err)
				os.Exit(2)
			}
			if attempt == 5 {
				fmt.Print(buf.String())
				fmt.Println("replay: 5 executions of the schedule, none reported")
			}
		}
		os.Exit(0)
	}
	var r struct {
		Property string          `json:"property"`
		Rule     string          `json:"rule"`
		Shape    string          `json:"shape"`
		Replay   json.RawMessage `json:"replay"`
	}
	if err := json.Unmarshal(data, &r); err != nil {
		fmt.Fprintln(os.Stderr, err)
		os.Exit(2)
	}
	ck := registry[r.Property]
	if ck == nil || ck.Replay == nil {
		fmt.Fprintf(os.Stderr, "no replay function for %s\n", r.Property)
		os.Exit(2)
	}
	var pol struct {
		Policy int `json:"policy"`
	}
	json.Unmarshal(r.Replay, &pol)
	if pol.Policy != 0 && SetPolicy != nil {
		SetPolicy(pol.Policy)
	}
	var desc string
	var bad bool
	handled := false
	if ReplayHook != nil {
		desc, bad, handled = ReplayHook(r.Property, r.Replay)
	}
	if !handled {
		desc, bad = ck.Replay(r.Replay)
	}
	fmt.Println(desc)
	if bad {
		fmt.Printf("VIOLATION property=%s replay=%s\n", r.Property, args[0])
		os.Exit(1)
	}
	fmt.Println("replay: property held on this case")
}
