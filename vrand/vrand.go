// Package vrand replaces github.com/valyala/fastrand and crypto/rand in http2utils: the padding
// length becomes a value the harness sets instead of a random one.
package vrand

// Next is returned (mod n) by the next Uint32n call.
var Next uint32

func Uint32n(n uint32) uint32 {
	if n == 0 {
		return 0
	}
	return Next % n
}

func Uint32() uint32 { return Next }

// Read fills b with a fixed non-zero pattern (what crypto/rand.Read would randomise).
func Read(b []byte) (int, error) {
	for i := range b {
		b[i] = 0xA5
	}
	return len(b), nil
}
