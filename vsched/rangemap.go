package vsched

import (
	"fmt"
	"iter"
	"sort"
)

// RangeMap replaces `range m` over a map: keys are visited in ascending order
// (deterministic), entries deleted before they are reached are skipped and
// entries added during the loop are not visited — both allowed by the spec.
//
//go:norace
func RangeMap[M ~map[K]V, K comparable, V any](m M) iter.Seq2[K, V] {
	return (&mapRanger[M, K, V]{m}).run
}

type mapRanger[M ~map[K]V, K comparable, V any] struct{ m M }

//go:norace
func (r *mapRanger[M, K, V]) run(yieldFn func(K, V) bool) {
	keys := make([]K, 0, len(r.m))
	for k := range r.m {
		keys = append(keys, k)
	}
	ks := &keySorter[K]{keys}
	sort.Sort(ks)
	for _, k := range keys {
		v, ok := r.m[k]
		if !ok {
			continue
		}
		if !yieldFn(k, v) {
			return
		}
	}
}

type keySorter[K comparable] struct{ k []K }

//go:norace
func (s *keySorter[K]) Len() int { return len(s.k) }

//go:norace
func (s *keySorter[K]) Swap(i, j int) { s.k[i], s.k[j] = s.k[j], s.k[i] }

//go:norace
func (s *keySorter[K]) Less(i, j int) bool { return lessAny(s.k[i], s.k[j]) }

//go:norace
func lessAny(a, b any) bool {
	switch x := a.(type) {
	case int:
		return x < b.(int)
	case int8:
		return x < b.(int8)
	case int16:
		return x < b.(int16)
	case int32:
		return x < b.(int32)
	case int64:
		return x < b.(int64)
	case uint:
		return x < b.(uint)
	case uint8:
		return x < b.(uint8)
	case uint16:
		return x < b.(uint16)
	case uint32:
		return x < b.(uint32)
	case uint64:
		return x < b.(uint64)
	case uintptr:
		return x < b.(uintptr)
	case string:
		return x < b.(string)
	case float64:
		return x < b.(float64)
	}
	return fmt.Sprintf("%v", a) < fmt.Sprintf("%v", b)
}
