//go:build race

package vsched

import (
	"runtime"
	"unsafe"
)

// Under -race the hand-off must not create happens-before edges, otherwise the
// cooperative scheduler would order every pair of accesses and blind the
// detector. A plain flag polled inside //go:norace functions is invisible to
// it, so the only edges the detector sees are the program's own
// synchronisation (which the shims replay on the real primitives or annotate
// with runtime.RaceAcquire/RaceRelease).
type parker struct{ f *int32 }

//go:norace
func newParker() parker { return parker{f: new(int32)} }

//go:norace
func (p *parker) wake() { *p.f = 1 }

//go:norace
func (p *parker) wait() {
	for *p.f == 0 {
		runtime.Gosched()
	}
	*p.f = 0
}

const RaceEnabled = true

type eface struct {
	t, p unsafe.Pointer
}

//go:norace
func addrOf(a any) unsafe.Pointer { return (*eface)(unsafe.Pointer(&a)).p }

//go:norace
func raceAcquire(addr any) { runtime.RaceAcquire(addrOf(addr)) }

//go:norace
func raceRelease(addr any) { runtime.RaceRelease(addrOf(addr)) }

//go:norace
func raceReleaseMerge(addr any) { runtime.RaceReleaseMerge(addrOf(addr)) }

//go:norace
func addrOfAny(a any) unsafe.Pointer { return addrOf(a) }

var ownershipZero uint64

// ownershipWrite tells the race detector that releasing a pooled object is a write to the whole object by the
// releasing goroutine (the contents are left as they are): from now on the pool may hand it to anybody, so an
// access by a goroutine that the release is not ordered with is an access to an object with two owners. It is
// deliberately NOT //go:norace, and not inlined into its //go:norace caller (an inlined body is not instrumented).
// Under the cooperative scheduler nothing else runs during the loop.
//
//go:noinline
func ownershipWrite(p unsafe.Pointer, n uintptr) {
	for off := uintptr(0); off+8 <= n; off += 8 {
		q := (*uint64)(unsafe.Add(p, off))
		*q = *q ^ ownershipZero
	}
}
