// Package vsched is the controlled runtime the rewritten dgrr/http2 runs on.
//
// Exactly one managed goroutine runs at a time. Every synchronisation
// operation of the program (channel op, select, mutex, atomic, transport
// read/write, goroutine start) is a scheduling point: the goroutine publishes
// the operation it is about to perform together with an enabledness predicate
// and the scheduler decides who runs next. With no explorer attached the
// canonical policy applies (keep running the current goroutine while it is
// enabled, otherwise the lowest id that is enabled), which makes every
// execution deterministic. Quiescence ("no managed goroutine is enabled") is
// detected exactly and hands control back to the driver.
//
// Style rule for this package and the other shims: no function literals, and
// every function carries //go:norace. Under -race the scheduler's own state
// must be invisible to the detector (see park_race.go); closures are not
// covered by the pragma.
package vsched

import (
	"fmt"
	"runtime"
	"runtime/debug"
	"sort"
	"strconv"
	"strings"
)

// Op is the operation a parked goroutine is about to perform.
type Op interface {
	Enabled() bool
	Kind() string
}

type alwaysOp struct{ kind string }

//go:norace
func (o *alwaysOp) Enabled() bool { return true }

//go:norace
func (o *alwaysOp) Kind() string { return o.kind }

// G is a managed goroutine.
type G struct {
	ID     int
	Name   string
	park   parker
	op     Op
	done   bool
	dying  bool
	exited chan struct{}
	dyOps  int
	s      *Sched
	f      func()
	// Low marks an environment thread (peer script, clock, handler releases):
	// under the canonical policy it only runs when no program goroutine is
	// enabled, so the default execution is "every event processed to
	// quiescence" and letting an event happen earlier is a deviation.
	Low bool

	// unbuffered-channel rendezvous: the pending op was completed by the partner
	hand    bool
	handVal any
	handOK  bool
	handIdx int
}

// Point is one recorded decision point of an execution.
type Point struct {
	N          int      // number of alternatives
	CurEnabled bool     // the running goroutine could have continued (choosing another one is a preemption)
	Chosen     int      // index taken
	Kind       byte     // 't' thread choice, 's' select-case choice
	Alts       []string // Debug only: what each alternative was
}

// Sched is one execution's scheduler state.
type Sched struct {
	gs      []*G
	cur     *G
	driver  parker
	Steps   int
	MaxStep int
	Overrun bool

	// exploration
	Explore bool    // record decision points and follow Prefix
	Prefix  []int   // choices to replay, then canonical (0)
	Points  []Point // recorded
	Diverge string  // set when the prefix could not be replayed

	Panics []string // unrecovered panics in managed goroutines ("would have crashed the process")
	armSeq int
	// Policy selects the canonical internal schedule used between environment events (0: the running goroutine
	// carries on, then lowest id; 1 / 2: always switch, to the highest / lowest other id)
	Policy int
	// Recovered: values returned non-nil by the program's own recover() calls (rewritten to NoteRecover)
	Recovered []string
	Events    []string // pool tracker and other runtime events
	Trace     []string // optional op trace (Debug)
	Debug     bool

	clock   int64
	timers  []*Timer
	timerID int

	chans   chanTable
	chanCap int // >0: cap applied to every MakeChan capacity above it

	// The driver (the test's own goroutine) only touches the execution at
	// quiescence. Under -race that order is told to the detector through these
	// two addresses: managed goroutines release toDriver whenever they stop and
	// the driver acquires it when Run returns; the driver releases fromDriver
	// before Run and goroutines acquire it when they are woken. Only the driver
	// sits at the other end, so no edge between two managed goroutines arises.
	toDriver, fromDriver int32

	inUse []inUseEnt // not a map: runtime map operations are visible to the race detector
}

// S is the current execution. It is nil when the program runs unmanaged
// (codec checks); every shim then falls through to the real primitive.
var S *Sched

// New starts a fresh execution: resets pools, clock, ids.
//
// DefaultPolicy is the Policy of every execution created from now on (set by the framework, which runs the
// event-level families of a check once per policy).
var DefaultPolicy int

//go:norace
func New() *Sched {
	if S != nil {
		S.Shutdown()
	}
	s := &Sched{MaxStep: 20000000, Policy: DefaultPolicy}
	s.driver = newParker()
	resetPools()
	S = s
	return s
}

//go:norace
func (s *Sched) SetChanCap(n int) { s.chanCap = n }

//go:norace
func cur() *G {
	if S == nil {
		return nil
	}
	return S.cur
}

// Managed reports whether the caller is a managed goroutine of a live execution.
//
//go:norace
func Managed() bool { return cur() != nil }

//go:norace
func (s *Sched) event(format string, a ...any) {
	s.Events = append(s.Events, fmt.Sprintf(format, a...))
}

// Event lets shims outside this package record a runtime event.
//
//go:norace
func Event(format string, a ...any) {
	if S != nil {
		S.event(format, a...)
	}
}

//go:norace
func (s *Sched) newG(name string) *G {
	g := &G{ID: len(s.gs), Name: name, park: newParker(), exited: make(chan struct{}), s: s}
	s.gs = append(s.gs, g)
	return g
}

var startOp = &alwaysOp{"start"}
var spawnOp = &alwaysOp{"spawn"}

// Spawn creates a managed goroutine. It may be called by the driver or by a
// managed goroutine (through Go).
//
//go:norace
func (s *Sched) Spawn(name string, f func()) *G {
	g := s.newG(name)
	g.op = startOp
	g.f = f
	go g.main()
	return g
}

// SpawnAt creates a managed goroutine whose first scheduling point is op
// instead of the always-enabled start: it begins to run when op is enabled
// and chosen, and then performs op's action without a further point.
//
//go:norace
func (s *Sched) SpawnAt(name string, f func(), op Op, low bool) *G {
	g := s.newG(name)
	g.op = op
	g.f = f
	g.Low = low
	go g.main()
	return g
}

//go:norace
func (g *G) main() {
	g.park.wait()
	defer g.exit()
	if g.dying {
		return
	}
	raceAcquire(&g.s.fromDriver)
	g.op = nil
	f := g.f
	g.f = nil
	f()
}

//go:norace
func (g *G) exit() {
	s := g.s
	if r := recover(); r != nil && !g.dying {
		s.Panics = append(s.Panics, fmt.Sprintf("goroutine %d (%s): %v\n%s", g.ID, g.Name, r, trimStack(debug.Stack())))
	}
	g.done = true
	g.op = nil
	raceReleaseMerge(&s.toDriver)
	dying := g.dying
	close(g.exited)
	if dying {
		return
	}
	s.dispatch(nil)
}

//go:norace
func trimStack(b []byte) string {
	lines := strings.Split(string(b), "\n")
	if len(lines) > 40 {
		lines = lines[:40]
	}
	return strings.Join(lines, "\n")
}

// Go is what a `go f()` statement of the program is rewritten to.
//
//go:norace
func Go(f func()) {
	s := S
	if s == nil || s.cur == nil {
		go f()
		return
	}
	g := s.cur
	if g.dying {
		return
	}
	s.Spawn("go@"+caller(2), f)
	yield(spawnOp)
}

//go:norace
func caller(skip int) string {
	_, file, line, ok := runtime.Caller(skip)
	if !ok {
		return "?"
	}
	if i := strings.LastIndex(file, "/"); i >= 0 {
		file = file[i+1:]
	}
	return file + ":" + strconv.Itoa(line) // not fmt: its internal sync.Pool would order every goroutine that passes here
}

// enabledList returns the enabled goroutines in canonical order: the running
// goroutine first if it is enabled, then ascending ids.
//
//go:norace
func (s *Sched) enabledList(running *G) []*G {
	var out, low []*G
	// an environment thread that is in the middle of one of its steps (a Close call, a caller being started: its
	// pending operation is the program's, not its own gate) is the running thread like any other: letting the step
	// START early is the deviation, not every operation inside it
	midStep := running != nil && running.Low && running.op != nil && !strings.HasPrefix(running.op.Kind(), "env:")
	if running != nil && (!running.Low || midStep) && running.op != nil && !running.done && (running.hand || running.op.Enabled()) {
		out = append(out, running)
	}
	for _, g := range s.gs {
		if (g == running && (!g.Low || midStep)) || g.done || g.op == nil {
			continue
		}
		if g.hand || g.op.Enabled() {
			if g.Low {
				low = append(low, g)
			} else {
				out = append(out, g)
			}
		}
	}
	return append(out, low...)
}

// choose takes a decision among n alternatives.
//
//go:norace
func (s *Sched) choose(n int, curEnabled bool, kind byte) int {
	if !s.Explore || n <= 1 {
		return 0
	}
	i := len(s.Points)
	c := 0
	if i < len(s.Prefix) {
		c = s.Prefix[i]
		if c >= n {
			if s.Diverge == "" {
				s.Diverge = fmt.Sprintf("point %d: recorded choice %d but only %d alternatives", i, c, n)
			}
			c = 0
		}
	}
	s.Points = append(s.Points, Point{N: n, CurEnabled: curEnabled, Chosen: c, Kind: kind})
	return c
}

// dispatch picks the next goroutine to run and wakes it, or wakes the driver
// at quiescence. from is the goroutine giving up control (nil if it exited).
// It returns true if from itself was chosen (no hand-off needed).
//
//go:norace
func (s *Sched) dispatch(from *G) bool {
	s.Steps++
	if s.Steps > s.MaxStep {
		s.Overrun = true
		s.cur = nil
		s.driver.wake()
		return false
	}
	en := s.enabledList(from)
	if len(en) == 0 {
		s.cur = nil
		s.driver.wake()
		return false
	}
	curEn := from != nil && en[0] == from
	next := en[s.choose(len(en), curEn, 't')]
	if !s.Explore && s.Policy != 0 {
		// an alternative canonical schedule for event-level exploration: never let the running goroutine carry
		// on when another one of the program can run, and prefer the one created last (policy 1) or first
		// (policy 2). Environment threads (Low) still only run when nothing else can.
		var prog []*G
		for _, g := range en {
			if !g.Low && g != from {
				prog = append(prog, g)
			}
		}
		if len(prog) > 0 {
			next = prog[0]
			if s.Policy == 1 {
				next = prog[len(prog)-1]
			}
		}
	}
	if s.Debug && s.Explore && len(en) > 1 {
		s.noteAlts(en)
	}
	if s.Debug {
		k := ""
		if next.op != nil {
			k = next.op.Kind()
		}
		s.Trace = append(s.Trace, fmt.Sprintf("g%d(%s) %s", next.ID, next.Name, k))
	}
	if next == from {
		return true
	}
	s.cur = next
	next.park.wake()
	return false
}

//go:norace
func (s *Sched) noteAlts(en []*G) {
	if len(s.Points) == 0 {
		return
	}
	p := &s.Points[len(s.Points)-1]
	for _, g := range en {
		k := "?"
		if g.op != nil {
			k = g.op.Kind()
		}
		p.Alts = append(p.Alts, fmt.Sprintf("g%d(%s):%s", g.ID, g.Name, k))
	}
}

// yield publishes op as the caller's next operation and returns when the
// scheduler lets the caller perform it. The caller must be managed.
//
//go:norace
func yield(op Op) {
	s := S
	g := s.cur
	if g.dying {
		g.dyOps++
		if g.dyOps > 100000 {
			runtime.Goexit()
		}
		return
	}
	g.op = op
	raceReleaseMerge(&s.toDriver)
	if s.dispatch(g) {
		g.op = nil
		return
	}
	g.park.wait()
	if g.dying {
		runtime.Goexit()
	}
	raceAcquire(&s.fromDriver)
	g.op = nil
}

// Point is a scheduling point for shims in other packages: op is what the
// caller is about to do. An unmanaged caller must find it enabled.
//
//go:norace
func PointOp(op Op) {
	if cur() == nil {
		if !op.Enabled() {
			panic("vsched: unmanaged caller would block on " + op.Kind())
		}
		return
	}
	yield(op)
}

// Dying reports whether the calling managed goroutine is being torn down at
// the end of an execution (its remaining operations are no-ops).
//
// NoteRecover is what the overlay turns recover() into: vsched.NoteRecover(recover()).
// A panic the program contains is still a panic; properties that forbid "even a
// recovered panic" read S.Recovered instead of guessing from log lines.
//
//go:norace
//go:norace
func NoteRecover(v any) any {
	if v != nil && S != nil {
		if g := cur(); g == nil || !g.dying {
			S.Recovered = append(S.Recovered, fmt.Sprint(v)+" recovered at "+callers())
		}
	}
	return v
}

func Dying() bool {
	g := cur()
	return g != nil && g.dying
}

// Run lets managed goroutines run until quiescence (or the step horizon).
// Called by the driver only.
//
//go:norace
func (s *Sched) Run() {
	if s.Overrun {
		return
	}
	en := s.enabledList(nil)
	if len(en) == 0 {
		return
	}
	s.Steps++
	next := en[s.choose(len(en), false, 't')]
	if s.Debug && s.Explore && len(en) > 1 {
		s.noteAlts(en)
	}
	if s.Debug {
		s.Trace = append(s.Trace, fmt.Sprintf("run: g%d(%s)", next.ID, next.Name))
	}
	s.cur = next
	raceReleaseMerge(&s.fromDriver)
	next.park.wake()
	s.driver.wait()
	raceAcquire(&s.toDriver)
}

// Quiescent reports whether no managed goroutine is enabled.
//
//go:norace
func (s *Sched) Quiescent() bool { return len(s.enabledList(nil)) == 0 }

// Live returns the goroutines that have not finished, with what they wait on.
//
//go:norace
func (s *Sched) Live() []string {
	var out []string
	for _, g := range s.gs {
		if !g.done {
			k := "running"
			if g.op != nil {
				k = g.op.Kind()
			}
			out = append(out, fmt.Sprintf("g%d(%s):%s", g.ID, g.Name, k))
		}
	}
	return out
}

// LiveNames returns the names of unfinished goroutines.
//
//go:norace
func (s *Sched) LiveNames() []string {
	var out []string
	for _, g := range s.gs {
		if !g.done {
			out = append(out, g.Name)
		}
	}
	sort.Strings(out)
	return out
}

// NumGoroutines returns how many managed goroutines were created.
//
//go:norace
func (s *Sched) NumGoroutines() int { return len(s.gs) }

// Shutdown tears the execution down: every parked goroutine is unwound
// (runtime.Goexit, so deferred calls run as no-ops and recover() sees nothing).
//
//go:norace
func (s *Sched) Shutdown() {
	for _, g := range s.gs {
		if !g.done {
			g.dying = true
		}
	}
	for i := 0; i < len(s.gs); i++ {
		g := s.gs[i]
		if g.done {
			continue
		}
		s.cur = g
		g.park.wake()
		<-g.exited
	}
	s.cur = nil
	if S == s {
		S = nil
	}
}

// MarkInUse / MarkDone let a harness declare that an object is owned by a
// running handler; vsync.Pool reports a Put of such an object.
//
//go:norace
func (s *Sched) MarkInUse(obj any, who string) {
	s.MarkDone(obj)
	s.inUse = append(s.inUse, inUseEnt{obj, who})
}

type inUseEnt struct {
	obj any
	who string
}

//go:norace
func (s *Sched) MarkDone(obj any) {
	for i := range s.inUse {
		if s.inUse[i].obj == obj {
			for j := i; j+1 < len(s.inUse); j++ {
				s.inUse[j] = s.inUse[j+1]
			}
			s.inUse[len(s.inUse)-1] = inUseEnt{}
			s.inUse = s.inUse[:len(s.inUse)-1]
			return
		}
	}
}

//go:norace
func InUse(obj any) (string, bool) {
	if S == nil {
		return "", false
	}
	for i := range S.inUse {
		if S.inUse[i].obj == obj {
			return S.inUse[i].who, true
		}
	}
	return "", false
}

// Always returns an always-enabled op with the given name (for shims).
//
//go:norace
func Always(kind string) Op { return &alwaysOp{kind} }

// RaceAcquire / RaceRelease annotate the program's own synchronisation for the
// race detector (no-ops without -race).
//
//go:norace
func RaceAcquire(addr any) { raceAcquire(addr) }

//go:norace
func RaceRelease(addr any) { raceRelease(addr) }

//go:norace
func RaceReleaseMerge(addr any) { raceReleaseMerge(addr) }

// Debugging reports whether the current execution records a trace.
//
//go:norace
func Debugging() bool { return S != nil && S.Debug }

// CallerSite is caller() for shims in other packages.
//
//go:norace
func CallerSite(skip int) string { return caller(skip + 1) }
