package vsched

import (
	"errors"
	"io"
	"net"
	"os"
	"time"
)

// Conn is one end of an in-memory, scheduler-aware duplex transport. The
// implementation under test holds one end (its Read/Write/Close are
// scheduling points); the other end is either driven directly by the driver at
// quiescence (Inject/TakeAll/PeerClose) or held by a managed peer goroutine.
type Conn struct {
	Name string
	in   *pipe // what this end reads
	out  *pipe // what this end writes
	peer *Conn

	closed bool // this end was closed locally
	rdl    int64
	wdl    int64

	// fault injection on this end
	WriteFailAt  int // >0: the n-th Write call (1-based) fails and the conn is broken
	writes       int
	ReadChunk    int // >0: a Read returns at most this many bytes
	ReadFailAt   int // >0: the n-th Read call fails
	reads        int
	BytesWritten int
	CloseCalls   int
}

type pipe struct {
	buf      []byte
	eof      bool // writer closed: reader gets EOF after draining
	broken   bool // reader gone: writes fail
	capacity int  // >0: writer blocks while len(buf) >= capacity
	stalled  bool // the reader has stopped for good: every write blocks (until the reader goes away)
}

// NewConnPair returns two connected ends.
//
//go:norace
func NewConnPair(a, b string) (*Conn, *Conn) {
	p1, p2 := &pipe{}, &pipe{}
	ca := &Conn{Name: a, in: p1, out: p2}
	cb := &Conn{Name: b, in: p2, out: p1}
	ca.peer, cb.peer = cb, ca
	return ca, cb
}

// FailNextWrite makes the next Write on this end (and every later one) fail: the outbound half is dead while
// the inbound half still works.
//
//go:norace
func (c *Conn) FailNextWrite() { c.WriteFailAt = c.writes + 1 }

var ErrClosedConn = errors.New("memconn: use of closed connection")
var ErrInjected = errors.New("memconn: injected write failure")

type connOp struct {
	c    *Conn
	read bool
}

//go:norace
func (o *connOp) Kind() string {
	if o.read {
		return "read(" + o.c.Name + ")"
	}
	return "write(" + o.c.Name + ")"
}

//go:norace
func (o *connOp) Enabled() bool {
	c := o.c
	if c.closed {
		return true
	}
	if o.read {
		return len(c.in.buf) > 0 || c.in.eof || (c.rdl != 0 && S.clock >= c.rdl) || (c.ReadFailAt > 0 && c.reads+1 >= c.ReadFailAt)
	}
	return c.out.broken || (!c.out.stalled && (c.out.capacity <= 0 || len(c.out.buf) < c.out.capacity)) || (c.wdl != 0 && S.clock >= c.wdl) || (c.WriteFailAt > 0 && c.writes+1 >= c.WriteFailAt)
}

//go:norace
func (c *Conn) Read(p []byte) (int, error) {
	if g := cur(); g != nil && g.dying {
		return 0, io.EOF
	}
	PointOp(&connOp{c: c, read: true})
	c.reads++
	if c.closed {
		return 0, ErrClosedConn
	}
	if c.ReadFailAt > 0 && c.reads >= c.ReadFailAt {
		return 0, ErrInjected
	}
	if len(c.in.buf) == 0 {
		if c.in.eof {
			return 0, io.EOF
		}
		if c.rdl != 0 && S != nil && S.clock >= c.rdl {
			return 0, os.ErrDeadlineExceeded
		}
		return 0, nil
	}
	n := len(p)
	if n > len(c.in.buf) {
		n = len(c.in.buf)
	}
	if c.ReadChunk > 0 && n > c.ReadChunk {
		n = c.ReadChunk
	}
	raceAcquire(c.in)
	copy(p, c.in.buf[:n])
	c.in.buf = c.in.buf[n:]
	return n, nil
}

//go:norace
func (c *Conn) Write(p []byte) (int, error) {
	if g := cur(); g != nil && g.dying {
		return len(p), nil
	}
	PointOp(&connOp{c: c})
	c.writes++
	if c.closed {
		return 0, ErrClosedConn
	}
	if c.WriteFailAt > 0 && c.writes >= c.WriteFailAt {
		c.out.broken = true
		return 0, ErrInjected
	}
	if c.out.broken {
		return 0, io.ErrClosedPipe
	}
	if c.out.stalled || c.out.capacity > 0 && len(c.out.buf) >= c.out.capacity {
		return 0, os.ErrDeadlineExceeded
	}
	c.out.buf = append(c.out.buf, p...)
	c.BytesWritten += len(p)
	raceReleaseMerge(c.out)
	return len(p), nil
}

var connCloseOp = &alwaysOp{"connclose"}

//go:norace
func (c *Conn) Close() error {
	if g := cur(); g != nil && g.dying {
		return nil
	}
	PointOp(connCloseOp)
	c.CloseCalls++
	if c.closed {
		return ErrClosedConn
	}
	c.closed = true
	c.out.eof = true
	c.in.broken = true
	return nil
}

type addr string

func (a addr) Network() string { return "mem" }
func (a addr) String() string  { return string(a) }

//go:norace
func (c *Conn) LocalAddr() net.Addr { return addr(c.Name) }

//go:norace
func (c *Conn) RemoteAddr() net.Addr { return addr(c.peer.Name) }

//go:norace
func vdl(t time.Time) int64 {
	if t.IsZero() {
		return 0
	}
	d := int64(t.Sub(epoch))
	if d <= 0 {
		d = 1
	}
	return d
}

//go:norace
func (c *Conn) SetDeadline(t time.Time) error {
	c.rdl, c.wdl = vdl(t), vdl(t)
	return nil
}

//go:norace
func (c *Conn) SetReadDeadline(t time.Time) error { c.rdl = vdl(t); return nil }

//go:norace
func (c *Conn) SetWriteDeadline(t time.Time) error { c.wdl = vdl(t); return nil }

// ---- driver-side access (at quiescence) ----

// Inject makes b readable by this end's owner (the peer "sent" it).
//
//go:norace
func (c *Conn) Inject(b []byte) {
	c.in.buf = append(c.in.buf, b...)
	raceReleaseMerge(c.in)
}

// TakeAll removes and returns everything this end's owner has written.
//
//go:norace
func (c *Conn) TakeAll() []byte {
	b := c.out.buf
	c.out.buf = nil
	raceAcquire(c.out)
	return b
}

// PendingOut is how many written bytes the peer has not taken.
//
//go:norace
func (c *Conn) PendingOut() int { return len(c.out.buf) }

// PeerClose models the remote end closing: reads drain then EOF, writes fail.
//
//go:norace
func (c *Conn) PeerClose() {
	c.in.eof = true
	c.out.broken = true
}

// PeerHalfClose: remote end stops sending (EOF after drain) but still reads.
//
//go:norace
func (c *Conn) PeerHalfClose() { c.in.eof = true }

// SetOutCapacity makes the owner's writes block once n bytes are unread by the
// peer (a peer that stopped reading). 0 removes the limit.
//
//go:norace
func (c *Conn) SetOutCapacity(n int) { c.out.capacity = n }

// SetOutStalled makes every write of the owner block from now on (a peer that
// stopped reading with its receive buffer full).
//
//go:norace
func (c *Conn) SetOutStalled(b bool) { c.out.stalled = b }

//go:norace
func (c *Conn) Closed() bool { return c.closed }

// PeekOut returns what this end's owner has written and the peer has not taken (not a copy).
//
//go:norace
func (c *Conn) PeekOut() []byte { return c.out.buf }
