package vsched

import (
	"fmt"
	"reflect"
	"runtime"
	"strings"
	"time"
	"unsafe"
)

// Pool backs vsync.Pool: a deterministic LIFO free list plus an ownership
// tracker. sync.Pool hides a stale or doubly released object behind per-P
// caches and GC; here the last object released is always the next one handed
// out, and releasing an object that is already in the pool, or one a handler
// is still using, is recorded as an event.
type Pool struct {
	New   func() any
	items []any
	owner []*G // who released items[i]
	reg   bool
	Name  string
	Gets  int
	Puts  int
	// collected counts objects that were handed out, never released, and have
	// since become unreachable (only with TrackLive)
	collected int
	retired   []any // PoolFresh: released objects, kept so that addresses are not reused and a second release is seen
}

// TrackLive makes every pool follow the objects it hands out with a finalizer, so
// that Reachable() can tell an object the program still holds from one it merely
// did not bother to give back (which is garbage, not state). Set before the
// execution starts; used by the memory gauges of C13.
var TrackLive bool

var poolEpoch int

// PoolFresh switches every pool to "no reuse": Get always builds a new object, Put scrambles the released object
// (numbers and flags overwritten, byte buffers filled with 0xAA, references cleared) and retires it. A program
// that respects ownership cannot tell the difference: it never looks at an object it has released, and never
// relies on what a recycled object happened to contain. C19's pool-transparency family runs the same
// deterministic scenario in both modes and compares everything observable.
var PoolFresh bool

//go:norace
func scramble(x any) {
	v := reflect.ValueOf(x)
	if v.Kind() != reflect.Ptr || v.IsNil() {
		return
	}
	e := v.Elem()
	if e.Kind() != reflect.Struct || !strings.Contains(e.Type().PkgPath(), "dgrr/http2") {
		return // foreign types (fasthttp.RequestCtx) are only never reused
	}
	defer func() { recover() }()
	scrambleStruct(e)
}

//go:norace
func scrambleStruct(e reflect.Value) {
	for i := 0; i < e.NumField(); i++ {
		f := e.Field(i)
		f = reflect.NewAt(f.Type(), unsafe.Pointer(f.UnsafeAddr())).Elem()
		switch f.Kind() {
		case reflect.Bool:
			f.SetBool(!f.Bool())
		case reflect.Int8:
			f.SetInt(0x5a)
		case reflect.Int16:
			f.SetInt(0x5a5a)
		case reflect.Int, reflect.Int32, reflect.Int64:
			f.SetInt(0x5a5a5a5a)
		case reflect.Uint8:
			f.SetUint(0xa5)
		case reflect.Uint16:
			f.SetUint(0xa5a5)
		case reflect.Uint, reflect.Uint32, reflect.Uint64, reflect.Uintptr:
			f.SetUint(0xa5a5a5a5)
		case reflect.String:
			f.SetString("\xaareleased\xaa")
		case reflect.Slice:
			if f.Type().Elem().Kind() == reflect.Uint8 && f.Cap() > 0 {
				b := f.Slice(0, f.Cap()).Bytes()
				for j := range b {
					b[j] = 0xaa
				}
			}
			f.Set(reflect.Zero(f.Type()))
		case reflect.Ptr, reflect.Interface, reflect.Map, reflect.Chan, reflect.Func:
			f.Set(reflect.Zero(f.Type()))
		case reflect.Struct:
			if strings.Contains(f.Type().PkgPath(), "dgrr/http2") {
				scrambleStruct(f)
			}
		}
	}
}

//go:norace
func (p *Pool) track(x any) {
	if !TrackLive || x == nil || reflect.TypeOf(x).Kind() != reflect.Ptr {
		return
	}
	defer func() { recover() }() // not a heap object / finalizer already set: stay with the plain count
	ep := poolEpoch
	runtime.SetFinalizer(x, func(any) {
		if ep == poolEpoch { // objects of an earlier execution do not count in this one
			p.collected++
		}
	})
}

//go:norace
func (p *Pool) untrack(x any) {
	if !TrackLive || x == nil || reflect.TypeOf(x).Kind() != reflect.Ptr {
		return
	}
	defer func() { recover() }()
	runtime.SetFinalizer(x, nil)
}

// Reachable is Outstanding minus the objects the garbage collector has proved
// unreachable. Call SettleGC first.
//
//go:norace
func (p *Pool) Reachable() int { return p.Gets - p.Puts - p.collected }

// SettleGC runs the collector until the finalizers of everything unreachable
// have run (two consecutive rounds without a change).
func SettleGC() {
	sum := func() int {
		n := 0
		for _, p := range allPools {
			n += p.collected
		}
		return n
	}
	stable := 0
	for i := 0; i < 40 && stable < 2; i++ {
		before := sum()
		runtime.GC()
		time.Sleep(300 * time.Microsecond)
		runtime.Gosched()
		if sum() == before {
			stable++
		} else {
			stable = 0
		}
	}
}

var allPools []*Pool

// PoolPerGoroutine selects the reuse policy. false: one LIFO list per pool, the
// last object released is the next one handed out whoever asks (maximal reuse:
// a stale reference meets its new owner as soon as possible; the Put-to-Get
// edge sync.Pool guarantees is given to the race detector). true: a goroutine
// only gets back objects it released itself and otherwise a new one, as with
// sync.Pool's per-P caches on a busy machine: no edge passes through the pool,
// so the detector is not blinded by the chains a LIFO list creates between
// every pair of goroutines that share a pool. C19 explores under both.
var PoolPerGoroutine bool

//go:norace
func resetPools() {
	poolEpoch++
	for _, p := range allPools {
		p.items = nil
		p.owner = nil
		p.retired = nil
		p.Gets, p.Puts, p.collected = 0, 0, 0
	}
}

//go:norace
func (p *Pool) register() {
	if !p.reg {
		p.reg = true
		allPools = append(allPools, p)
	}
}

//go:norace
func (p *Pool) Get() any {
	p.register()
	p.Gets++
	if PoolFresh {
		// nothing is ever handed out twice
	} else if PoolPerGoroutine {
		// only take back what this goroutine released itself: no object, and so no
		// happens-before edge, passes from one goroutine to another through the pool
		me := cur()
		for i := len(p.items) - 1; i >= 0; i-- {
			if p.owner[i] == me {
				x := p.items[i]
				// element by element: copy() and append() report to the race detector from inside the runtime
				for j := i; j+1 < len(p.items); j++ {
					p.items[j], p.owner[j] = p.items[j+1], p.owner[j+1]
				}
				n := len(p.items) - 1
				p.items[n], p.owner[n] = nil, nil
				p.items, p.owner = p.items[:n], p.owner[:n]
				p.track(x)
				return x
			}
		}
	} else if n := len(p.items); n > 0 {
		x := p.items[n-1]
		p.items[n-1] = nil
		p.items = p.items[:n-1]
		p.owner = p.owner[:n-1]
		raceAcquire(poolRaceAddr(x))
		p.track(x)
		return x
	}
	if p.New != nil {
		x := p.New()
		if p.Name == "" {
			p.Name = fmt.Sprintf("%T", x)
		}
		p.track(x)
		return x
	}
	return nil
}

//go:norace
func (p *Pool) Put(x any) {
	if x == nil {
		return
	}
	p.register()
	if p.Name == "" {
		p.Name = fmt.Sprintf("%T", x)
	}
	p.Puts++
	p.untrack(x)
	if p.has(x) {
		Event("pool: double release of %T (pool %s) at %s", x, p.Name, callers())
		return
	}
	if who, ok := InUse(x); ok {
		Event("pool: %T released while %s is still using it at %s", x, who, callers())
	}
	if RaceEnabled {
		if v := reflect.ValueOf(x); v.Kind() == reflect.Ptr && !v.IsNil() && v.Elem().Kind() == reflect.Struct && strings.Contains(v.Elem().Type().PkgPath(), "dgrr/http2") {
			ownershipWrite(unsafe.Pointer(v.Pointer()), v.Elem().Type().Size())
		}
	}
	if PoolFresh {
		for _, y := range p.retired {
			if y == x {
				Event("pool: double release of %T (pool %s) at %s", x, p.Name, callers())
				return
			}
		}
		scramble(x)
		p.retired = append(p.retired, x)
		return
	}
	raceReleaseMerge(poolRaceAddr(x))
	p.items = append(p.items, x)
	p.owner = append(p.owner, cur())
}

// has reports whether x is in the free list (a scan: the lists are short, and a
// runtime map would be visible to the race detector).
//
//go:norace
func (p *Pool) has(x any) bool {
	for _, y := range p.items {
		if y == x {
			return true
		}
	}
	return false
}

// Outstanding is Gets minus Puts in this execution (objects currently owned by the program).
//
//go:norace
func (p *Pool) Outstanding() int { return p.Gets - p.Puts }

// Pools returns every pool that was used, for gauges.
//
//go:norace
func Pools() []*Pool { return allPools }

//go:norace
func callers() string {
	s := ""
	n := 0
	for i := 2; i < 12 && n < 4; i++ {
		c := caller(i)
		if c == "?" {
			break
		}
		if len(c) >= 8 && (c[:8] == "vsync.go" || c[:7] == "pool.go") {
			continue // the shim's own frames
		}
		if s != "" {
			s += "<"
		}
		s += c
		n++
	}
	return s
}

// poolRaceAddr is the synchronisation address for object x, as in sync.Pool:
// a Put of x happens before the Get that returns x, and nothing else. Keying
// the edge on the pool instead would order every user of a busy pool after
// every other one and hide real races from the detector.
var poolRaceHash [1 << 16]uint64 // sync.Pool uses 128; collisions there only cost precision, here they would make detection depend on addresses

//go:norace
func poolRaceAddr(x any) *uint64 {
	ptr := uintptr(addrOfAny(x))
	h := uint32((uint64(ptr>>3) * 0x9E3779B97F4A7C15) >> 40)
	return &poolRaceHash[h%uint32(len(poolRaceHash))]
}
