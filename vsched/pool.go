package vsched

import "fmt"

// Pool backs vsync.Pool: a deterministic LIFO free list plus an ownership
// tracker. sync.Pool hides a stale or doubly released object behind per-P
// caches and GC; here the last object released is always the next one handed
// out, and releasing an object that is already in the pool, or one a handler
// is still using, is recorded as an event.
type Pool struct {
	New   func() any
	items []any
	in    map[any]bool
	reg   bool
	Name  string
	Gets  int
	Puts  int
}

var allPools []*Pool

//go:norace
func resetPools() {
	for _, p := range allPools {
		p.items = nil
		p.in = nil
		p.Gets, p.Puts = 0, 0
	}
}

//go:norace
func (p *Pool) register() {
	if !p.reg {
		p.reg = true
		allPools = append(allPools, p)
	}
}

//go:norace
func (p *Pool) Get() any {
	p.register()
	p.Gets++
	if n := len(p.items); n > 0 {
		x := p.items[n-1]
		p.items[n-1] = nil
		p.items = p.items[:n-1]
		delete(p.in, x)
		raceAcquire(p)
		return x
	}
	if p.New != nil {
		x := p.New()
		if p.Name == "" {
			p.Name = fmt.Sprintf("%T", x)
		}
		return x
	}
	return nil
}

//go:norace
func (p *Pool) Put(x any) {
	if x == nil {
		return
	}
	p.register()
	if p.Name == "" {
		p.Name = fmt.Sprintf("%T", x)
	}
	p.Puts++
	if p.in == nil {
		p.in = map[any]bool{}
	}
	if p.in[x] {
		Event("pool: double release of %T (pool %s) at %s", x, p.Name, callers())
		return
	}
	if who, ok := InUse(x); ok {
		Event("pool: %T released while %s is still using it at %s", x, who, callers())
	}
	p.in[x] = true
	raceRelease(p)
	p.items = append(p.items, x)
}

// Outstanding is Gets minus Puts in this execution (objects currently owned by the program).
//
//go:norace
func (p *Pool) Outstanding() int { return p.Gets - p.Puts }

// Pools returns every pool that was used, for gauges.
//
//go:norace
func Pools() []*Pool { return allPools }

//go:norace
func callers() string {
	s := ""
	for i := 3; i < 7; i++ {
		c := caller(i)
		if c == "?" {
			break
		}
		if s != "" {
			s += "<"
		}
		s += c
	}
	return fmt.Sprint(s)
}
