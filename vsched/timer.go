package vsched

import (
	"sort"
	"time"
)

// Virtual time. The clock only moves when the driver fires a timer.
var epoch = time.Unix(1_700_000_000, 0).UTC()

const never = int64(1) << 62

// Timer backs vtime.Timer and vtime.Ticker.
type Timer struct {
	ID     int
	C      chan time.Time
	when   int64
	armed  bool
	fn     func()
	period int64
	seq    int // order in which the timer was last armed
	Site   string
	s      *Sched
}

//go:norace
func Now() time.Time {
	if S == nil {
		return time.Now()
	}
	return epoch.Add(time.Duration(S.clock))
}

//go:norace
func (s *Sched) Clock() time.Duration { return time.Duration(s.clock) }

//go:norace
func deadline(s *Sched, d time.Duration) int64 {
	if d < 0 {
		d = 0
	}
	if int64(d) >= never || s.clock+int64(d) < s.clock {
		return never
	}
	return s.clock + int64(d)
}

// NewTimer creates a timer; fn == nil gives a channel timer.
//
//go:norace
func NewTimer(d time.Duration, fn func(), period time.Duration) *Timer {
	s := S
	if s == nil {
		panic("vsched: timers need a live execution")
	}
	s.timerID++
	s.armSeq++
	t := &Timer{ID: s.timerID, when: deadline(s, d), armed: true, fn: fn, period: int64(period), Site: caller(3), s: s, seq: s.armSeq}
	if fn == nil {
		t.C = make(chan time.Time, 1)
	}
	s.timers = append(s.timers, t)
	raceReleaseMerge(t)
	return t
}

// Stop reports whether the call stopped the timer before it fired.
//
//go:norace
func (t *Timer) Stop() bool {
	if t.s != S { // timer of an earlier execution (object leaked through a global)
		return false
	}
	was := t.armed
	t.armed = false
	if t.C != nil { // Go 1.23 semantics: no stale value after Stop
		select {
		case <-t.C:
		default:
		}
	}
	return was
}

//go:norace
func (t *Timer) Reset(d time.Duration) bool {
	if t.s != S {
		return false
	}
	was := t.armed
	if t.C != nil {
		select {
		case <-t.C:
		default:
		}
	}
	t.when = deadline(t.s, d)
	t.armed = true
	t.s.armSeq++
	t.seq = t.s.armSeq
	raceReleaseMerge(t) // starting a timer happens before its function runs
	if t.period > 0 {
		t.period = int64(d)
	}
	return was
}

// Armed returns the timers that can fire, earliest first.
//
//go:norace
func (s *Sched) Armed() []*Timer {
	var out []*Timer
	for _, t := range s.timers {
		if t.armed && t.when < never {
			out = append(out, t)
		}
	}
	sort.SliceStable(out, timerLess(out))
	return out
}

//go:norace
func timerLess(ts []*Timer) func(i, j int) bool {
	return (&timerSorter{ts}).less
}

type timerSorter struct{ ts []*Timer }

//go:norace
func (x *timerSorter) less(i, j int) bool {
	if x.ts[i].when != x.ts[j].when {
		return x.ts[i].when < x.ts[j].when
	}
	// same deadline: the one armed first (not the one created first: a recycled object brings an old timer along)
	return x.ts[i].seq < x.ts[j].seq
}

// Fire advances the clock to t's deadline and fires it. Driver only; follow with Run.
//
//go:norace
func (s *Sched) Fire(t *Timer) {
	if !t.armed {
		return
	}
	// a real timer never fires before its deadline and its handler always runs some time after it: the clock
	// is one nanosecond past the deadline (code that asks "is now strictly after the deadline" is then due)
	if t.when >= s.clock && t.when < never {
		s.clock = t.when + 1
	}
	if t.period > 0 {
		t.when = deadline(s, time.Duration(t.period))
	} else {
		t.armed = false
	}
	if t.fn != nil {
		s.Spawn("timer@"+t.Site, t.runFn)
		return
	}
	select {
	case t.C <- Now():
	default:
	}
}

// When returns the deadline as an offset from the start of the execution.
//
//go:norace
func (t *Timer) When() time.Duration { return time.Duration(t.when) }

// Advance moves the clock without firing anything (deadlines on transports).
//
//go:norace
func (s *Sched) Advance(d time.Duration) { s.clock += int64(d) }

//go:norace
func (t *Timer) runFn() {
	raceAcquire(t)
	t.fn()
}
