package vsched

import (
	"iter"
	"runtime"
	"unsafe"
)

// Channels stay real Go channels (so len, cap, channel-typed fields and
// conversions need no rewriting); the shim performs the real operation only at
// a moment when it cannot block. What a real channel cannot tell us without
// side effects (closed?) and what it cannot do under a one-at-a-time scheduler
// (unbuffered rendezvous) is kept in a side table.
type chanMeta struct {
	keep   any // keeps the channel alive so the address cannot be reused within an execution
	closed bool
	unbuf  bool
}

//go:norace
func chanPtr[T any](ch chan T) unsafe.Pointer { return *(*unsafe.Pointer)(unsafe.Pointer(&ch)) }

// hchan starts with qcount, dataqsiz (both uint): len and cap.
//
//go:norace
func rawLen(p unsafe.Pointer) int { return int(*(*uint)(p)) }

//go:norace
func rawCap(p unsafe.Pointer) int {
	return int(*(*uint)(unsafe.Pointer(uintptr(p) + unsafe.Sizeof(uint(0)))))
}

//go:norace
func (s *Sched) meta(p unsafe.Pointer, keep any) *chanMeta {
	m := s.chans.get(uintptr(p))
	if m == nil {
		m = &chanMeta{keep: keep, unbuf: rawCap(p) == 0}
		s.chans.put(uintptr(p), m)
	}
	return m
}

// chanTable maps channel addresses to their side-table entry. It is a
// hand-rolled open-addressing table: the runtime's map operations report to the
// race detector whatever the caller's //go:norace says, and the scheduler's own
// state must stay invisible to it.
type chanTable struct {
	keys []uintptr
	vals []*chanMeta
	n    int
}

//go:norace
func (t *chanTable) slot(k uintptr) int {
	mask := uintptr(len(t.keys) - 1)
	i := (k >> 4 * 0x9E3779B1) & mask
	for t.keys[i] != 0 && t.keys[i] != k {
		i = (i + 1) & mask
	}
	return int(i)
}

//go:norace
func (t *chanTable) get(k uintptr) *chanMeta {
	if len(t.keys) == 0 {
		return nil
	}
	return t.vals[t.slot(k)]
}

//go:norace
func (t *chanTable) put(k uintptr, m *chanMeta) {
	if t.n*2 >= len(t.keys) {
		ok, ov := t.keys, t.vals
		n := len(ok) * 2
		if n == 0 {
			n = 64
		}
		t.keys, t.vals, t.n = make([]uintptr, n), make([]*chanMeta, n), 0
		for i, k := range ok {
			if k != 0 {
				j := t.slot(k)
				t.keys[j], t.vals[j] = k, ov[i]
				t.n++
			}
		}
	}
	i := t.slot(k)
	if t.keys[i] == 0 {
		t.n++
	}
	t.keys[i], t.vals[i] = k, m
}

// MakeChan replaces make(chan T, n).
//
//go:norace
func MakeChan[T any](n int) chan T {
	if S != nil && S.chanCap > 0 && n > S.chanCap {
		n = S.chanCap
	}
	return make(chan T, n)
}

type chanOp struct {
	kind string
	p    unsafe.Pointer
	m    *chanMeta
	send bool
	g    *G
}

//go:norace
func (o *chanOp) Kind() string { return o.kind }

//go:norace
func (o *chanOp) Enabled() bool {
	if o.p == nil {
		return false
	}
	if o.m.closed {
		return true
	}
	if o.m.unbuf {
		return S.partner(o.p, !o.send, o.g) != nil
	}
	if o.send {
		return rawLen(o.p) < rawCap(o.p)
	}
	return rawLen(o.p) > 0
}

// partner finds a parked goroutine (other than self) whose pending op can
// rendezvous on channel p in the given direction (wantSend: we need a sender).
//
//go:norace
func (s *Sched) partner(p unsafe.Pointer, wantSend bool, self *G) *G {
	for _, g := range s.gs {
		if g == self || g.done || g.op == nil || g.hand {
			continue
		}
		switch o := g.op.(type) {
		case *chanOp:
			if o.p == p && o.send == wantSend {
				return g
			}
		case *selectOp:
			for _, c := range o.cases {
				if c.ptr() == p && c.isSend() == wantSend {
					return g
				}
			}
		}
	}
	return nil
}

// Send replaces ch <- v.
//
//go:norace
func Send[T any](ch chan<- T, v T) {
	g := cur()
	if g == nil {
		ch <- v
		return
	}
	if g.dying {
		yield(nil)
		return
	}
	bch := *(*chan T)(unsafe.Pointer(&ch))
	p := chanPtr(bch)
	if p == nil {
		yield(&chanOp{kind: "send(nil chan)", g: g})
		return
	}
	s := S
	m := s.meta(p, bch)
	if m.unbuf {
		g.handVal = v
		raceReleaseMerge(m)
	}
	yield(&chanOp{kind: "send", p: p, m: m, send: true, g: g})
	if g.hand { // a receiver took the value while we were parked
		g.hand = false
		g.handVal = nil
		return
	}
	if m.closed {
		panic("send on closed channel")
	}
	if m.unbuf {
		g.handVal = nil
		r := s.partner(p, false, g)
		deliver(r, p, v)
		return
	}
	bch <- v
}

// deliver completes the receive side of a rendezvous on partner r.
//
//go:norace
func deliver(r *G, p unsafe.Pointer, v any) {
	r.hand = true
	r.handVal = v
	r.handOK = true
	if so, ok := r.op.(*selectOp); ok {
		for i, c := range so.cases {
			if c.ptr() == p && !c.isSend() {
				r.handIdx = i
				break
			}
		}
	}
}

// take completes the send side of a rendezvous on partner sd and returns its value.
//
//go:norace
func take(sd *G, p unsafe.Pointer) any {
	sd.hand = true
	switch o := sd.op.(type) {
	case *selectOp:
		for i, c := range o.cases {
			if c.ptr() == p && c.isSend() {
				sd.handIdx = i
				return c.sendVal()
			}
		}
	}
	return sd.handVal
}

// Recv2 replaces v, ok := <-ch.
//
//go:norace
func Recv2[T any](ch <-chan T) (T, bool) {
	var zero T
	g := cur()
	if g == nil {
		v, ok := <-ch
		return v, ok
	}
	if g.dying {
		yield(nil)
		return zero, false
	}
	bch := *(*chan T)(unsafe.Pointer(&ch))
	p := chanPtr(bch)
	if p == nil {
		yield(&chanOp{kind: "recv(nil chan)", g: g})
		return zero, false
	}
	s := S
	m := s.meta(p, bch)
	yield(&chanOp{kind: "recv", p: p, m: m, g: g})
	if g.hand { // a sender completed the rendezvous while we were parked
		g.hand = false
		v := g.handVal
		g.handVal = nil
		raceAcquire(m)
		return v.(T), true
	}
	if m.unbuf {
		if sd := s.partner(p, true, g); sd != nil {
			v := take(sd, p)
			raceAcquire(m)
			return v.(T), true
		}
		if m.closed {
			raceAcquire(m)
			return zero, false
		}
		panic("vsched: recv enabled without partner")
	}
	v, ok := <-bch
	return v, ok
}

// Recv replaces <-ch used as a value or a statement.
//
//go:norace
func Recv[T any](ch <-chan T) T {
	v, _ := Recv2(ch)
	return v
}

// Close replaces close(ch).
//
//go:norace
func Close[T any](ch chan<- T) {
	g := cur()
	bch := *(*chan T)(unsafe.Pointer(&ch))
	if S == nil {
		close(bch)
		return
	}
	if g != nil && g.dying {
		yield(nil)
		p := chanPtr(bch)
		if p != nil {
			m := S.meta(p, bch)
			if !m.closed {
				m.closed = true
				close(bch)
			}
		}
		return
	}
	p := chanPtr(bch)
	if p == nil {
		panic("close of nil channel")
	}
	m := S.meta(p, bch)
	if g != nil {
		yield(closeOp)
	}
	if m.closed {
		panic("close of closed channel")
	}
	m.closed = true
	if m.unbuf {
		raceReleaseMerge(m)
	}
	close(bch)
}

var closeOp = &alwaysOp{"close"}

// RangeChan replaces `for v := range ch`.
//
//go:norace
func RangeChan[T any](ch <-chan T) iter.Seq[T] {
	return (&chanRanger[T]{ch}).run
}

type chanRanger[T any] struct{ ch <-chan T }

//go:norace
func (r *chanRanger[T]) run(yieldFn func(T) bool) {
	for {
		v, ok := Recv2(r.ch)
		if !ok {
			return
		}
		if !yieldFn(v) {
			return
		}
	}
}

// ---- select ----

// Case is one communication clause of a rewritten select.
type Case interface {
	ptr() unsafe.Pointer
	isSend() bool
	sendVal() any
	ready() bool
	exec(g *G, handed bool)
	setOwner(g *G)
}

// RCase is a receive clause.
type RCase[T any] struct {
	ch  chan T
	p   unsafe.Pointer
	m   *chanMeta
	val T
	ok  bool
	own *G
}

//go:norace
func (c *RCase[T]) setOwner(g *G) { c.own = g }

//go:norace
func RecvCase[T any](ch <-chan T) *RCase[T] {
	bch := *(*chan T)(unsafe.Pointer(&ch))
	c := &RCase[T]{ch: bch, p: chanPtr(bch)}
	if c.p != nil && S != nil {
		c.m = S.meta(c.p, bch)
	}
	return c
}

//go:norace
func (c *RCase[T]) Get() T { return c.val }

//go:norace
func (c *RCase[T]) Get2() (T, bool) { return c.val, c.ok }

//go:norace
func (c *RCase[T]) ptr() unsafe.Pointer { return c.p }

//go:norace
func (c *RCase[T]) isSend() bool { return false }

//go:norace
func (c *RCase[T]) sendVal() any { return nil }

//go:norace
func (c *RCase[T]) ready() bool {
	if c.p == nil {
		return false
	}
	if c.m.unbuf {
		return c.m.closed || S.partner(c.p, true, c.own) != nil
	}
	return rawLen(c.p) > 0 || c.m.closed
}

//go:norace
func (c *RCase[T]) exec(g *G, handed bool) {
	if handed {
		c.val, c.ok = g.handVal.(T), true
		g.handVal = nil
		raceAcquire(c.m)
		return
	}
	if c.m.unbuf {
		if sd := S.partner(c.p, true, g); sd != nil {
			c.val, c.ok = take(sd, c.p).(T), true
			raceAcquire(c.m)
			return
		}
		var zero T
		c.val, c.ok = zero, false
		raceAcquire(c.m)
		return
	}
	c.val, c.ok = <-c.ch
}

// SCase is a send clause.
type SCase[T any] struct {
	ch  chan T
	p   unsafe.Pointer
	m   *chanMeta
	v   T
	own *G
}

//go:norace
func (c *SCase[T]) setOwner(g *G) { c.own = g }

//go:norace
func SendCase[T any](ch chan<- T, v T) *SCase[T] {
	bch := *(*chan T)(unsafe.Pointer(&ch))
	c := &SCase[T]{ch: bch, p: chanPtr(bch), v: v}
	if c.p != nil && S != nil {
		c.m = S.meta(c.p, bch)
	}
	return c
}

//go:norace
func (c *SCase[T]) ptr() unsafe.Pointer { return c.p }

//go:norace
func (c *SCase[T]) isSend() bool { return true }

//go:norace
func (c *SCase[T]) sendVal() any { return c.v }

//go:norace
func (c *SCase[T]) ready() bool {
	if c.p == nil {
		return false
	}
	if c.m.closed {
		return true
	}
	if c.m.unbuf {
		return S.partner(c.p, false, c.own) != nil
	}
	return rawLen(c.p) < rawCap(c.p)
}

//go:norace
func (c *SCase[T]) exec(g *G, handed bool) {
	if handed {
		return
	}
	if c.m.closed {
		panic("send on closed channel")
	}
	if c.m.unbuf {
		r := S.partner(c.p, false, g)
		deliver(r, c.p, c.v)
		return
	}
	c.ch <- c.v
}

type selectOp struct {
	cases      []Case
	hasDefault bool
}

//go:norace
func (o *selectOp) Kind() string { return "select" }

//go:norace
func (o *selectOp) Enabled() bool {
	if o.hasDefault {
		return true
	}
	for _, c := range o.cases {
		if c.ready() {
			return true
		}
	}
	return false
}

// Select replaces a select statement: it returns the index of the clause that
// ran, or -1 for default.
//
//go:norace
func Select(hasDefault bool, cases ...Case) int {
	g := cur()
	if g == nil {
		return selectUnmanaged(hasDefault, cases)
	}
	if g.dying {
		yield(nil)
		return -1
	}
	s := S
	for _, c := range cases {
		c.setOwner(g)
		if c.isSend() && c.ptr() != nil {
			raceReleaseCase(c)
		}
	}
	yield(&selectOp{cases: cases, hasDefault: hasDefault})
	if g.hand {
		g.hand = false
		i := g.handIdx
		cases[i].exec(g, true)
		return i
	}
	var ready []int
	for i, c := range cases {
		if c.ready() {
			ready = append(ready, i)
		}
	}
	if len(ready) == 0 {
		if hasDefault {
			return -1
		}
		panic("vsched: select scheduled with nothing ready")
	}
	i := ready[s.choose(len(ready), true, 's')]
	cases[i].exec(g, false)
	return i
}

// selectUnmanaged serves callers outside an execution (or the driver): it
// takes the first ready clause, and must not need to block.
//
//go:norace
func selectUnmanaged(hasDefault bool, cases []Case) int {
	if S == nil {
		// no side table: probe with real non-blocking operations is not possible
		// generically, so fall back to readiness by length (closed channels are
		// only known to the table).
		for i, c := range cases {
			if c.ptr() == nil {
				continue
			}
			if c.isSend() && rawLen(c.ptr()) < rawCap(c.ptr()) || !c.isSend() && rawLen(c.ptr()) > 0 {
				execRaw(c)
				return i
			}
		}
		if hasDefault {
			return -1
		}
		panic("vsched: unmanaged select would block")
	}
	for i, c := range cases {
		if c.ready() {
			c.exec(nil, false)
			return i
		}
	}
	if hasDefault {
		return -1
	}
	panic("vsched: unmanaged select would block")
}

//go:norace
func raceReleaseCase(c Case) {
	type hasMeta interface{ meta() *chanMeta }
	if m := c.(hasMeta).meta(); m != nil && m.unbuf {
		raceReleaseMerge(m)
	}
}

//go:norace
func (c *RCase[T]) meta() *chanMeta { return c.m }

//go:norace
func (c *SCase[T]) meta() *chanMeta { return c.m }

//go:norace
func execRaw(c Case) {
	type rawExec interface{ execRaw() }
	c.(rawExec).execRaw()
}

//go:norace
func (c *RCase[T]) execRaw() { c.val, c.ok = <-c.ch }

//go:norace
func (c *SCase[T]) execRaw() { c.ch <- c.v }

// Unreachable is called by the default clause vrewrite adds to a select
// without default. A goroutine that is being torn down ends here.
//
//go:norace
func Unreachable() {
	if g := cur(); g != nil && g.dying {
		runtime.Goexit()
	}
}
