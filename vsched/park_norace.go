//go:build !race

package vsched

import "unsafe"

// parker is the hand-off primitive between managed goroutines and the driver.
// Without the race detector a buffered channel is the fastest correct choice.
type parker struct{ c chan struct{} }

func newParker() parker { return parker{c: make(chan struct{}, 1)} }

func (p *parker) wake() { p.c <- struct{}{} }
func (p *parker) wait() { <-p.c }

// RaceEnabled reports whether this binary was built with -race.
const RaceEnabled = false

func raceAcquire(addr any)      {}
func raceRelease(addr any)      {}
func raceReleaseMerge(addr any) {}

func addrOfAny(a any) unsafe.Pointer { return (*[2]unsafe.Pointer)(unsafe.Pointer(&a))[1] }

func ownershipWrite(p unsafe.Pointer, n uintptr) {}
