#!/bin/bash
# seedin.sh <seed-id> <check>...: take the patch out of the sub-agent's worktree /tmp/wt/<seed-id> and try the checks on it
id="$1"; shift
mkdir -p /verif/seeded/$id
(cd /tmp/wt/$id && git diff -- . ':(exclude)seed_demo_test.go' > /verif/seeded/$id/patch.diff && cp seed_demo_test.go /verif/seeded/$id/seed_demo_test.go.txt)
cd /verif && ./seedtest.sh seeded/$id quick "$@" | cut -c1-260
