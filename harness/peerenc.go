package harness

import (
	"golang.org/x/net/http2/hpack"

	"verif/ref"
)

// PeerEncoder is the peer's HPACK encoder: the reference encoder with every
// choice explicit, mirrored by an x/net decoder so that a generated block on
// which the two references disagree is noticed (Disagree).
type PeerEncoder struct {
	T        *ref.Table
	mirror   *hpack.Decoder
	Disagree int
}

func NewPeerEncoder() *PeerEncoder {
	return &PeerEncoder{T: ref.NewTable(), mirror: hpack.NewDecoder(4096, nil)}
}

// Default encodes with incremental indexing, indexed names, raw strings.
var Default = ref.EncChoice{Rep: ref.RepIncremental, NameIndex: true}

// Block encodes fields; choice(i) picks the representation of field i (nil: Default).
func (e *PeerEncoder) Block(fields []ref.Field, choice func(i int) ref.EncChoice) []byte {
	var out []byte
	for i, f := range fields {
		ch := Default
		if choice != nil {
			ch = choice(i)
		}
		out = ref.EncodeField(out, e.T, f, ch)
	}
	got, err := e.mirror.DecodeFull(out)
	if err != nil || len(got) != len(fields) {
		e.Disagree++
	} else {
		for i := range got {
			if got[i].Name != fields[i].Name || got[i].Value != fields[i].Value {
				e.Disagree++
				break
			}
		}
	}
	return out
}

// SizeUpdate emits a dynamic table size update (to be placed at the start of a block).
func (e *PeerEncoder) SizeUpdate(n int) []byte {
	b := ref.EncodeSizeUpdate(nil, e.T, n)
	e.mirror.DecodeFull(append(append([]byte{}, b...), 0x82))
	return b
}

// ReqFields builds a request header list.
func ReqFields(method, scheme, authority, path string, extra ...[2]string) []ref.Field {
	fs := []ref.Field{{Name: ":method", Value: method}, {Name: ":scheme", Value: scheme}}
	if authority != "" {
		fs = append(fs, ref.Field{Name: ":authority", Value: authority})
	}
	fs = append(fs, ref.Field{Name: ":path", Value: path})
	for _, kv := range extra {
		fs = append(fs, ref.Field{Name: kv[0], Value: kv[1]})
	}
	return fs
}
