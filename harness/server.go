// Package harness runs the real dgrr/http2 server and client connection code
// under the controlled scheduler (verif/vsched) against an independent peer
// (verif/peer + x/net hpack), one environment event at a time, with the
// implementation run to exact quiescence after every event (ELX driver).
package harness

import (
	"bytes"
	"encoding/binary"
	"fmt"
	"io"
	"sort"
	"strconv"
	"strings"
	"time"

	"github.com/dgrr/http2"
	"github.com/valyala/fasthttp"
	"golang.org/x/net/http2/hpack"

	"verif/peer"
	"verif/vsched"
)

// ServerOpts configures one server connection.
type ServerOpts struct {
	MaxConcurrentStreams int
	MaxHeaderListSize    int
	MaxRequestBodySize   int
	ReadTimeout          time.Duration
	IdleTimeout          time.Duration
	PingInterval         time.Duration // 0 => disabled (-1)
	ChanCap              int           // >0: scale channel capacities down to this
	Debug                bool
	// PeerSettings are sent by the peer right after the preface (nil: empty SETTINGS)
	PeerSettings []peer.Setting
	NoHandshake  bool // leave preface/SETTINGS to the scenario
	MaxSteps     int
	// EarlyBodyStream: every handler attaches a response body stream (SetBodyStream, unknown length) as soon as it
	// starts and only then waits to be released: while it runs, the stream and the Response are its own
	EarlyBodyStream bool
}

// Req is a request as the handler saw it through the fasthttp API.
type Req struct {
	Method  string
	URI     string
	Host    string
	Proto   string
	Headers [][2]string // in order, as Header.All() yields them
	Body    []byte
}

// BodyStream describes a streamed response body.
type BodyStream struct {
	Chunks      [][]byte
	Declared    int  // content length passed to SetBodyStream (-1: unknown)
	EOFWithLast bool // last chunk is returned together with io.EOF
	FailAfter   int  // >0: the FailAfter-th Read returns an error
	OneByte     bool // at most one byte per Read
}

// Resp is what the driver tells a parked handler to produce.
type Resp struct {
	Status  int
	Headers [][2]string
	Body    []byte
	Stream  *BodyStream
	Panic   bool
}

// Call is one handler invocation.
type Call struct {
	Idx      int
	Req      Req
	Stream   uint32 // filled by scenarios that tag requests (x-sid header) or 0
	Returned bool
	Resp     Resp
	gate     chan Resp
	ctx      *fasthttp.RequestCtx
	reader   *streamReader
}

// StreamOut is everything the peer received on one stream.
type StreamOut struct {
	ID           uint32
	HeaderBlocks [][][2]string // decoded header blocks, in order
	RawBlocks    [][]byte      // the same blocks as received (HPACK bytes)
	BlockFrames  [][]int       // payload size of each frame that carried block i
	HeaderEnd    []bool        // END_STREAM seen on the HEADERS frame of block i
	HeadersIdx   []int         // index in Out of the HEADERS frame of block i
	Data         []byte
	DataFrames   int
	EndStream    int // number of frames carrying END_STREAM
	AfterEnd     int // frames received after END_STREAM
	Rst          []uint32
	MaxDataFrame int
	Order        []string // frame kinds in arrival order
}

// Server is one live server connection under test.
type Server struct {
	S    *vsched.Sched
	C    *vsched.Conn
	Opts ServerOpts

	srv *http2.Server
	fs  *fasthttp.Server

	Calls      []*Call
	Running    int
	MaxRunning int
	Out        []peer.Frame // every frame received, in order
	OutEvent   []int        // event index at which Out[i] arrived
	rest       []byte
	Streams    map[uint32]*StreamOut
	GoAways    []peer.Sem
	Acks       int // SETTINGS ACKs received
	Settings   [][]peer.Setting
	Pings      int
	PingAcks   int
	WindowUps  []peer.Sem
	Log        []string
	Returned   bool
	ServeErr   error
	Events     int
	HpackErr   string
	ProtoErrs  []string // peer-side parse problems with what the server sent
	dec        *hpack.Decoder
	curBlock   uint32
	blockBuf   []byte
	blockEnd   bool
	blockIdx   int
	blockSizes []int
	PeerEnc    *PeerEncoder
	EventLog   []string
	// HandshakeRefused: the connection was over right after the client preface, SETTINGS and SETTINGS ack
	HandshakeRefused bool
	ConnClosedAt     int   // event index at which the server closed the transport (-1: open)
	EnvSeq           int   // SPX: environment steps executed so far
	OutOffset        []int // SPX: byte offset (in the explored phase's output) at which Out[i] started; -1 for earlier frames
}

type hlogger struct{ h *Server }

//go:norace
func (l hlogger) Printf(format string, args ...interface{}) {
	l.h.Log = append(l.h.Log, strings.TrimSpace(fmt.Sprintf(format, args...)))
}

// NewServer builds the connection, starts ServeConn under a fresh scheduler and
// (unless NoHandshake) performs preface + SETTINGS exchange.
func NewServer(o ServerOpts) *Server {
	s := vsched.New()
	if o.MaxSteps > 0 {
		s.MaxStep = o.MaxSteps
	}
	if o.ChanCap > 0 {
		s.SetChanCap(o.ChanCap)
	}
	c, _ := vsched.NewConnPair("server", "peer")
	switch SegMode {
	case 2:
		c.ReadChunk = 1
	case 3:
		c.ReadChunk = 7
	}
	h := &Server{S: s, C: c, Opts: o, Streams: map[uint32]*StreamOut{}, ConnClosedAt: -1}
	h.dec = hpack.NewDecoder(4096, nil)
	h.PeerEnc = NewPeerEncoder()
	h.fs = &fasthttp.Server{Handler: h.handle, Logger: hlogger{h}, ReadTimeout: o.ReadTimeout, IdleTimeout: o.IdleTimeout, MaxRequestBodySize: o.MaxRequestBodySize}
	ping := o.PingInterval
	if ping == 0 {
		ping = -1
	}
	h.srv = http2.ConfigureServer(h.fs, http2.ServerConfig{PingInterval: ping, MaxConcurrentStreams: o.MaxConcurrentStreams, MaxHeaderListSize: o.MaxHeaderListSize, Debug: o.Debug})
	s.Spawn("ServeConn", h.serve)
	if !o.NoHandshake {
		h.Send(peer.Preface)
		h.SendFrames(peer.Settings(o.PeerSettings...))
		h.SendFrames(peer.SettingsAck())
		h.HandshakeRefused = h.Returned || h.C.Closed()
		h.Events = 0
		h.EventLog = nil
	}
	return h
}

//go:norace
func (h *Server) serve() {
	h.ServeErr = h.srv.ServeConn(h.C)
	h.Returned = true
}

// Close tears the execution down (every parked goroutine is unwound).
func (h *Server) Close() { h.S.Shutdown() }

//go:norace
func (h *Server) handle(ctx *fasthttp.RequestCtx) {
	call := &Call{Idx: len(h.Calls), gate: make(chan Resp, 1), ctx: ctx}
	call.Req = snapshotReq(ctx)
	for _, kv := range call.Req.Headers {
		if kv[0] == "X-Sid" || kv[0] == "x-sid" {
			n, _ := strconv.Atoi(kv[1])
			call.Stream = uint32(n)
		}
	}
	h.Calls = append(h.Calls, call)
	h.Running++
	if h.Running > h.MaxRunning {
		h.MaxRunning = h.Running
	}
	h.S.MarkInUse(ctx, "handler#"+strconv.Itoa(call.Idx))
	if h.Opts.EarlyBodyStream {
		call.reader = &streamReader{spec: &BodyStream{Chunks: [][]byte{[]byte("early-stream-body")}, Declared: -1}, owner: call, h: h}
		ctx.Response.SetBodyStream(call.reader, -1)
	}
	r := vsched.Recv(call.gate)
	if vsched.Dying() {
		return
	}
	call.Resp = r
	h.Running--
	h.S.MarkDone(ctx)
	call.Returned = true
	call.ctx = nil // the harness must not be what keeps a finished request's context alive
	if r.Panic {
		panic("handler panic requested by the scenario")
	}
	if r.Status != 0 {
		ctx.Response.SetStatusCode(r.Status)
	}
	for _, kv := range r.Headers {
		ctx.Response.Header.Add(kv[0], kv[1])
	}
	if r.Stream != nil {
		call.reader = &streamReader{spec: r.Stream}
		ctx.Response.SetBodyStream(call.reader, r.Stream.Declared)
	} else if r.Body != nil {
		ctx.Response.SetBody(r.Body)
	}
}

//go:norace
func snapshotReq(ctx *fasthttp.RequestCtx) Req {
	r := Req{
		Method: string(ctx.Request.Header.Method()),
		URI:    string(ctx.Request.Header.RequestURI()),
		Host:   string(ctx.Request.Header.Host()),
		Proto:  string(ctx.Request.Header.Protocol()),
		Body:   append([]byte{}, ctx.Request.Body()...),
	}
	for k, v := range ctx.Request.Header.All() {
		r.Headers = append(r.Headers, [2]string{string(k), string(v)})
	}
	return r
}

type streamReader struct {
	spec   *BodyStream
	i      int
	off    int
	reads  int
	Closed int
	// early: attached by a handler that is still running (EarlyBodyStream)
	owner *Call
	h     *Server
}

//go:norace
func (r *streamReader) Read(p []byte) (int, error) {
	r.reads++
	if r.spec.FailAfter > 0 && r.reads >= r.spec.FailAfter {
		return 0, fmt.Errorf("scenario: body stream failed")
	}
	for r.i < len(r.spec.Chunks) && r.off >= len(r.spec.Chunks[r.i]) {
		r.i++
		r.off = 0
	}
	if r.i >= len(r.spec.Chunks) {
		return 0, io.EOF
	}
	ch := r.spec.Chunks[r.i][r.off:]
	n := len(ch)
	if n > len(p) {
		n = len(p)
	}
	if r.spec.OneByte && n > 1 {
		n = 1
	}
	copy(p, ch[:n])
	r.off += n
	last := r.i == len(r.spec.Chunks)-1 && r.off >= len(r.spec.Chunks[r.i])
	if last && r.spec.EOFWithLast {
		r.i++
		return n, io.EOF
	}
	return n, nil
}

//go:norace
func (r *streamReader) Close() error {
	r.Closed++
	if r.owner != nil && !r.owner.Returned && r.h != nil && !vsched.Dying() {
		r.h.S.Events = append(r.h.S.Events, "ownership: the response body stream of handler#"+strconv.Itoa(r.owner.Idx)+" was closed by the connection while the handler is still running")
	}
	return nil
}

// ---- driver events ----

// SegMode changes how the peer's bytes reach the implementation's transport in every harness created from now on:
// 0 as given; 1 one octet per delivery, the implementation run to quiescence after each (every frame arrives in
// pieces, reads resume in the middle of headers and payloads); 2 / 3 whole, but a Read returns at most 1 / 7 octets.
var SegMode int

// inject delivers b according to SegMode (the caller logs the event and runs the final step).
func (h *Server) inject(b []byte) {
	if SegMode == 1 {
		for i := 0; i+1 < len(b); i++ {
			h.C.Inject(b[i : i+1])
			h.S.Run()
			h.collect()
		}
		if len(b) > 0 {
			h.C.Inject(b[len(b)-1:])
		}
		return
	}
	h.C.Inject(b)
}

// Send delivers raw bytes to the server and runs it to quiescence.
func (h *Server) Send(b []byte) {
	h.inject(b)
	h.step(fmt.Sprintf("send %d bytes", len(b)))
}

// SendFrames delivers frames (one event).
func (h *Server) SendFrames(fs ...peer.Frame) {
	var b []byte
	var names []string
	for _, f := range fs {
		b = f.Append(b)
		names = append(names, f.String())
	}
	h.inject(b)
	h.step("send " + strings.Join(names, ", "))
}

// Finish lets handler call i return with response r (one event).
func (h *Server) Finish(i int, r Resp) {
	if i >= len(h.Calls) || h.Calls[i].Returned {
		return
	}
	h.Calls[i].gate <- r
	h.step(fmt.Sprintf("handler#%d returns", i))
}

// FinishMany lets several handlers return before the server runs again (one event).
func (h *Server) FinishMany(idx []int, rs []Resp) {
	n := 0
	for k, i := range idx {
		if i < len(h.Calls) && !h.Calls[i].Returned {
			h.Calls[i].gate <- rs[k]
			n++
		}
	}
	if n > 0 {
		h.step(fmt.Sprintf("%d handlers return", n))
	}
}

// PeerClose: the peer closes the transport (one event).
func (h *Server) PeerClose() {
	h.C.PeerClose()
	h.step("peer closes")
}

// FireTimer fires the earliest armed timer (one event). It reports false if none is armed.
func (h *Server) FireTimer() bool {
	ts := h.S.Armed()
	if len(ts) == 0 {
		return false
	}
	h.S.Fire(ts[0])
	h.step("timer " + ts[0].Site)
	return true
}

// Drain fires timers until the server has returned or nothing is armed
// (bounded); used to decide "returns within a bounded time".
func (h *Server) Drain(max int) {
	for i := 0; i < max && !h.Returned; i++ {
		if !h.FireTimer() {
			return
		}
	}
}

func (h *Server) step(what string) {
	h.Events++
	h.EventLog = append(h.EventLog, what)
	h.S.Run()
	if h.S.Overrun {
		panic(fmt.Sprintf("harness: step horizon (%d scheduler steps) exceeded after %d events; live: %v", h.S.MaxStep, h.Events, h.S.Live()))
	}
	h.collect()
	if h.C.Closed() && h.ConnClosedAt < 0 {
		h.ConnClosedAt = h.Events
	}
}

func (h *Server) stream(id uint32) *StreamOut {
	so := h.Streams[id]
	if so == nil {
		so = &StreamOut{ID: id}
		h.Streams[id] = so
	}
	return so
}

func (h *Server) collect() {
	b := h.C.TakeAll()
	if len(b) == 0 {
		return
	}
	frames, rest := peer.Parse(append(h.rest, b...))
	h.rest = rest
	for _, f := range frames {
		h.Out = append(h.Out, f)
		h.OutEvent = append(h.OutEvent, h.Events)
		sem, err := peer.SemOf(f)
		if err != nil {
			h.ProtoErrs = append(h.ProtoErrs, fmt.Sprintf("malformed %s from server: %v", f, err))
			continue
		}
		if h.curBlock != 0 && (f.Type != peer.TContinuation || f.Stream != h.curBlock) {
			h.ProtoErrs = append(h.ProtoErrs, fmt.Sprintf("%s while a header block on stream %d is open", f, h.curBlock))
		}
		switch f.Type {
		case peer.TSettings:
			if sem.Ack {
				h.Acks++
			} else {
				h.Settings = append(h.Settings, sem.Settings)
			}
		case peer.TPing:
			if sem.Ack {
				h.PingAcks++
			} else {
				h.Pings++
			}
		case peer.TGoAway:
			h.GoAways = append(h.GoAways, sem)
		case peer.TWindowUpdate:
			h.WindowUps = append(h.WindowUps, sem)
			if f.Stream != 0 {
				h.stream(f.Stream).Order = append(h.stream(f.Stream).Order, "WINDOW_UPDATE")
			}
		case peer.TRstStream:
			so := h.stream(f.Stream)
			so.Rst = append(so.Rst, sem.Code)
			so.Order = append(so.Order, "RST_STREAM")
		case peer.THeaders:
			so := h.stream(f.Stream)
			if so.EndStream > 0 {
				so.AfterEnd++
			}
			so.Order = append(so.Order, "HEADERS")
			h.curBlock, h.blockBuf, h.blockEnd, h.blockIdx = f.Stream, append([]byte{}, sem.Body...), sem.EndStream, len(h.Out)-1
			h.blockSizes = []int{len(f.Payload)}
			if sem.EndHeaders {
				h.finishBlock()
			}
		case peer.TContinuation:
			so := h.stream(f.Stream)
			so.Order = append(so.Order, "CONTINUATION")
			if h.curBlock != f.Stream {
				h.ProtoErrs = append(h.ProtoErrs, fmt.Sprintf("unexpected %s", f))
				continue
			}
			h.blockBuf = append(h.blockBuf, sem.Body...)
			h.blockSizes = append(h.blockSizes, len(f.Payload))
			if sem.EndHeaders {
				h.finishBlock()
			}
		case peer.TData:
			so := h.stream(f.Stream)
			if so.EndStream > 0 {
				so.AfterEnd++
			}
			so.Order = append(so.Order, "DATA")
			so.Data = append(so.Data, sem.Body...)
			so.DataFrames++
			if len(f.Payload) > so.MaxDataFrame {
				so.MaxDataFrame = len(f.Payload)
			}
			if sem.EndStream {
				so.EndStream++
			}
		case peer.TPushPromise:
			h.ProtoErrs = append(h.ProtoErrs, "server sent PUSH_PROMISE")
		}
	}
}

func (h *Server) finishBlock() {
	so := h.stream(h.curBlock)
	fields, err := h.dec.DecodeFull(h.blockBuf)
	if err != nil && h.HpackErr == "" {
		h.HpackErr = fmt.Sprintf("response header block on stream %d does not decode: %v (%x)", h.curBlock, err, h.blockBuf)
	}
	var kv [][2]string
	for _, f := range fields {
		kv = append(kv, [2]string{f.Name, f.Value})
	}
	so.HeaderBlocks = append(so.HeaderBlocks, kv)
	so.RawBlocks = append(so.RawBlocks, append([]byte{}, h.blockBuf...))
	so.BlockFrames = append(so.BlockFrames, h.blockSizes)
	so.HeaderEnd = append(so.HeaderEnd, h.blockEnd)
	so.HeadersIdx = append(so.HeadersIdx, h.blockIdx)
	if h.blockEnd {
		so.EndStream++
	}
	h.curBlock, h.blockBuf = 0, nil
}

// SetPeerTableSize tells the peer's decoder what it allowed (after it sent SETTINGS_HEADER_TABLE_SIZE).
func (h *Server) SetPeerTableSize(n uint32) { h.dec.SetAllowedMaxDynamicTableSize(n) }

// Status of a response block.
func Status(block [][2]string) string {
	for _, kv := range block {
		if kv[0] == ":status" {
			return kv[1]
		}
	}
	return ""
}

// Reaction classifies what the server sent since Out index from.
func (h *Server) Reaction(from int) string {
	var parts []string
	for _, f := range h.Out[from:] {
		switch f.Type {
		case peer.TGoAway:
			s, _ := peer.SemOf(f)
			parts = append(parts, "GOAWAY("+peer.CodeName(s.Code)+")")
		case peer.TRstStream:
			s, _ := peer.SemOf(f)
			parts = append(parts, fmt.Sprintf("RST_STREAM[%d](%s)", f.Stream, peer.CodeName(s.Code)))
		case peer.THeaders:
			parts = append(parts, fmt.Sprintf("response[%d]", f.Stream))
		case peer.TSettings:
			if f.Has(peer.FAck) {
				parts = append(parts, "SETTINGS-ACK")
			}
		case peer.TPing:
			if f.Has(peer.FAck) {
				parts = append(parts, "PING-ACK")
			}
		}
	}
	if h.C.Closed() {
		parts = append(parts, "close")
	}
	if len(parts) == 0 {
		return "none"
	}
	return strings.Join(parts, "+")
}

// Digest is a canonical hash input of everything observed so far (state identity for evidence).
func (h *Server) Digest() string {
	var sb strings.Builder
	for _, f := range h.Out {
		sb.WriteString(f.String())
		sb.WriteByte(';')
	}
	for _, c := range h.Calls {
		fmt.Fprintf(&sb, "call %s %s ret=%v;", c.Req.Method, c.Req.URI, c.Returned)
	}
	fmt.Fprintf(&sb, "ret=%v closed=%v live=%v", h.Returned, h.C.Closed(), h.S.LiveNames())
	return sb.String()
}

// Observation is everything the peer and the handlers can see, as text.
func (h *Server) Observation() string {
	var sb strings.Builder
	for _, f := range h.Out {
		fmt.Fprintf(&sb, "peer received %s %x\n", f.String(), f.Payload)
	}
	for _, c := range h.Calls {
		fmt.Fprintf(&sb, "handler#%d saw %s %s host=%s headers=%v body=%q returned=%v\n", c.Idx, c.Req.Method, c.Req.URI, c.Req.Host, c.Req.Headers, c.Req.Body, c.Returned)
	}
	for _, l := range h.Log {
		fmt.Fprintf(&sb, "log: %s\n", firstLine(l))
	}
	fmt.Fprintf(&sb, "returned=%v err=%v closed=%v panics=%v recovered=%v live=%v\n", h.Returned, h.ServeErr, h.C.Closed(), h.S.Panics, h.S.Recovered, h.S.LiveNames())
	return sb.String()
}

// Panicked reports logger lines produced by a recover() in the server, and
// unrecovered panics caught by the scheduler.
func (h *Server) Panicked() []string {
	var out []string
	for _, l := range h.Log {
		if strings.Contains(l, "panicked") || strings.Contains(l, "panic in the handler") {
			out = append(out, firstLine(l))
		}
	}
	for _, p := range h.S.Panics {
		out = append(out, "UNRECOVERED "+firstLine(p))
	}
	// what the server's own recover() calls caught, whatever it logged about it
	for _, p := range h.S.Recovered {
		if strings.Contains(p, "handler panic requested by the scenario") {
			if len(out) == 0 || !strings.Contains(strings.Join(out, " "), "panic in the handler") {
				out = append(out, "panic in the handler: "+firstLine(p))
			}
			continue
		}
		dup := false
		for _, o := range out {
			dup = dup || strings.Contains(o, "panicked")
		}
		if !dup {
			out = append(out, "RECOVERED "+firstLine(p))
		}
	}
	return out
}

func firstLine(s string) string {
	if i := strings.IndexByte(s, '\n'); i >= 0 {
		return s[:i]
	}
	return s
}

// PoolEvents returns pool tracker events (double release, recycled while in use).
func (h *Server) PoolEvents() []string {
	var out []string
	for _, e := range h.S.Events {
		if strings.HasPrefix(e, "pool:") || strings.HasPrefix(e, "ownership:") {
			out = append(out, e)
		}
	}
	return out
}

// Gauge returns outstanding objects per pool (Gets - Puts in this execution).
func Gauge() map[string]int {
	m := map[string]int{}
	for _, p := range vsched.Pools() {
		if p.Name != "" {
			m[p.Name] += p.Outstanding()
		}
	}
	return m
}

// GaugeReachable is Gauge after a settled garbage collection, counting only the
// objects the program can still reach (needs vsched.TrackLive): an object that
// was simply not given back to its pool is garbage, not per-connection state.
func GaugeReachable() map[string]int {
	vsched.SettleGC()
	m := map[string]int{}
	for _, p := range vsched.Pools() {
		if p.Name != "" {
			m[p.Name] += p.Reachable()
		}
	}
	return m
}

// HighestStream returns the highest stream id any handler was invoked for,
// using the x-sid tag scenarios put on requests.
func (h *Server) DispatchedIDs() []uint32 {
	var ids []uint32
	for _, c := range h.Calls {
		ids = append(ids, c.Stream)
	}
	sort.Slice(ids, func(i, j int) bool { return ids[i] < ids[j] })
	return ids
}

var _ = binary.BigEndian
var _ = bytes.Equal
