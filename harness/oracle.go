package harness

import (
	"bytes"
	"fmt"
	"sort"
	"strings"

	"verif/ref"
)

// WantReq is a request as the peer sent it (the oracle's view).
type WantReq struct {
	ID       uint32
	Fields   []ref.Field // pseudo-headers first, then regular fields, as sent
	Body     []byte
	Trailers []ref.Field
}

func (w WantReq) pseudo(name string) string {
	for _, f := range w.Fields {
		if f.Name == name {
			return f.Value
		}
	}
	return ""
}

// expectedHeaders is the multiset of (lower-case name, value) the handler must
// see: every regular field and trailer the peer sent, cookie crumbs joined with
// "; " (RFC 7540 8.1.2.5), plus host from :authority.
func (w WantReq) expectedHeaders() map[string][]string {
	m := map[string][]string{}
	var cookies []string
	for _, f := range append(append([]ref.Field{}, w.Fields...), w.Trailers...) {
		if strings.HasPrefix(f.Name, ":") {
			continue
		}
		if f.Name == "cookie" {
			cookies = append(cookies, f.Value)
			continue
		}
		m[f.Name] = append(m[f.Name], f.Value)
	}
	if len(cookies) > 0 {
		m["cookie"] = []string{strings.Join(cookies, "; ")}
	}
	if a := w.pseudo(":authority"); a != "" {
		if _, ok := m["host"]; !ok {
			m["host"] = []string{a}
		}
	}
	return m
}

// CheckRequest compares what the handler saw with what the peer sent. It
// returns "" or a description of the first difference, and a short class.
func CheckRequest(w WantReq, got Req) (detail, class string) {
	if got.Method != w.pseudo(":method") {
		return fmt.Sprintf("method: sent %q, handler saw %q", w.pseudo(":method"), got.Method), "method"
	}
	if got.URI != w.pseudo(":path") {
		return fmt.Sprintf(":path: sent %q, handler saw %q", w.pseudo(":path"), got.URI), "path"
	}
	if a := w.pseudo(":authority"); a != "" && got.Host != a {
		return fmt.Sprintf(":authority: sent %q, handler saw host %q", a, got.Host), "authority"
	}
	if !bytes.Equal(got.Body, w.Body) {
		return fmt.Sprintf("body: sent %q (%d bytes), handler saw %q (%d bytes)", clip(w.Body), len(w.Body), clip(got.Body), len(got.Body)), "body"
	}
	want := w.expectedHeaders()
	have := map[string][]string{}
	for _, kv := range got.Headers {
		n := strings.ToLower(kv[0])
		have[n] = append(have[n], kv[1])
	}
	names := []string{}
	for n := range want {
		names = append(names, n)
	}
	sort.Strings(names)
	for _, n := range names {
		if strings.Join(want[n], "\x00") != strings.Join(have[n], "\x00") {
			cls := "header-value"
			if len(have[n]) == 0 {
				cls = "header-missing"
			}
			for _, t := range w.Trailers {
				if t.Name == n {
					cls = "trailer"
				}
			}
			return fmt.Sprintf("field %q: sent %q, handler saw %q", n, clipS(want[n]), clipS(have[n])), cls
		}
	}
	for n, vs := range have {
		if _, ok := want[n]; !ok {
			if n == "content-length" || n == "host" {
				continue // derived by fasthttp
			}
			return fmt.Sprintf("handler saw field %q=%q that the peer never sent", n, clipS(vs)), "header-extra"
		}
	}
	return "", ""
}

func clip(b []byte) string {
	if len(b) > 32 {
		return string(b[:32]) + "…"
	}
	return string(b)
}

func clipS(vs []string) []string {
	out := make([]string, len(vs))
	for i, v := range vs {
		if len(v) > 40 {
			v = fmt.Sprintf("%s…(%d bytes)", v[:24], len(v))
		}
		out[i] = v
	}
	return out
}

// connectionSpecific are the fields a server must not put in an HTTP/2 response.
var connectionSpecific = map[string]bool{"connection": true, "keep-alive": true, "proxy-connection": true, "transfer-encoding": true, "upgrade": true}

// ExpectedResponse is what the peer must receive for response r with body length n.
func ExpectedResponse(r Resp) (status string, fields map[string][]string, body []byte, knownLen bool) {
	status = "200"
	if r.Status != 0 {
		status = fmt.Sprint(r.Status)
	}
	fields = map[string][]string{}
	for _, kv := range r.Headers {
		n := strings.ToLower(kv[0])
		if connectionSpecific[n] {
			continue
		}
		fields[n] = append(fields[n], kv[1])
	}
	if _, ok := fields["content-type"]; !ok {
		fields["content-type"] = []string{"text/plain; charset=utf-8"}
	}
	knownLen = true
	if r.Stream != nil {
		for _, c := range r.Stream.Chunks {
			body = append(body, c...)
		}
		if r.Stream.Declared >= 0 {
			if r.Stream.Declared < len(body) {
				body = body[:r.Stream.Declared]
			}
			fields["content-length"] = []string{fmt.Sprint(r.Stream.Declared)}
		} else {
			knownLen = false
		}
	} else {
		body = r.Body
		fields["content-length"] = []string{fmt.Sprint(len(body))}
	}
	if st := r.Status; st == 204 || st == 304 || (st >= 100 && st < 200) {
		// a response that cannot have a body need not (204: must not) carry content-length
		if cl, ok := fields["content-length"]; ok && len(cl) == 1 && cl[0] == "0" {
			delete(fields, "content-length")
		}
	}
	return
}

// CheckResponse compares what the peer received on a stream with what the
// handler produced.
func CheckResponse(so *StreamOut, r Resp) (detail, class string) {
	if so == nil || len(so.HeaderBlocks) == 0 {
		return "no response HEADERS received", "no-response"
	}
	if len(so.Rst) > 0 {
		return fmt.Sprintf("stream was reset by the server (%v)", so.Rst), "reset"
	}
	if len(so.HeaderBlocks) > 1 {
		return fmt.Sprintf("%d header blocks received", len(so.HeaderBlocks)), "extra-header-block"
	}
	status, fields, body, _ := ExpectedResponse(r)
	blk := so.HeaderBlocks[0]
	if len(blk) == 0 || blk[0][0] != ":status" || blk[0][1] != status {
		return fmt.Sprintf("first field must be :status=%s, got %v", status, first(blk)), "status"
	}
	have := map[string][]string{}
	for _, kv := range blk[1:] {
		if strings.HasPrefix(kv[0], ":") {
			return fmt.Sprintf("pseudo-header %q after :status", kv[0]), "pseudo"
		}
		if kv[0] != strings.ToLower(kv[0]) {
			return fmt.Sprintf("field name %q is not lower-case", kv[0]), "name-case"
		}
		for i := 0; i < len(kv[0]); i++ {
			if c := kv[0][i]; c <= 0x20 || c >= 0x7f {
				return fmt.Sprintf("field name %q contains byte %#x", kv[0], c), "name-bytes"
			}
		}
		if connectionSpecific[kv[0]] {
			return fmt.Sprintf("connection-specific field %q sent", kv[0]), "connection-specific"
		}
		have[kv[0]] = append(have[kv[0]], kv[1])
	}
	names := []string{}
	for n := range fields {
		names = append(names, n)
	}
	sort.Strings(names)
	for _, n := range names {
		if strings.Join(fields[n], "\x00") != strings.Join(have[n], "\x00") {
			cls := "header-value"
			if len(have[n]) == 0 {
				cls = "header-missing"
			}
			if n == "content-length" {
				cls = "content-length"
			}
			return fmt.Sprintf("response field %q: handler produced %q, peer received %q", n, clipS(fields[n]), clipS(have[n])), cls
		}
	}
	for n, vs := range have {
		if _, ok := fields[n]; !ok {
			if n == "content-length" && r.Stream != nil && r.Stream.Declared < 0 {
				return fmt.Sprintf("content-length %q sent for a body of unknown length", vs), "content-length"
			}
			if n == "server" || n == "date" {
				continue
			}
			if n == "content-length" && len(vs) == 1 && vs[0] == "0" && len(body) == 0 {
				continue
			}
			return fmt.Sprintf("peer received field %q=%q the handler did not produce", n, clipS(vs)), "header-extra"
		}
	}
	if !bytes.Equal(so.Data, body) {
		return fmt.Sprintf("body: handler produced %d bytes (%q), peer received %d bytes (%q)", len(body), clip(body), len(so.Data), clip(so.Data)), "body"
	}
	if so.EndStream != 1 {
		return fmt.Sprintf("END_STREAM seen %d times (frames: %v)", so.EndStream, so.Order), fmt.Sprintf("end-stream-%d", min(so.EndStream, 2))
	}
	if so.AfterEnd > 0 {
		return fmt.Sprintf("%d frames after END_STREAM (%v)", so.AfterEnd, so.Order), "after-end"
	}
	for _, k := range so.Order {
		if k == "DATA" {
			return "DATA before the response HEADERS", "order"
		}
		if k == "HEADERS" {
			break
		}
	}
	return "", ""
}

func first(b [][2]string) any {
	if len(b) == 0 {
		return "empty block"
	}
	return b[0]
}

// RespShape names the shape class of a response for finding identities.
func RespShape(r Resp) string {
	switch {
	case r.Panic:
		return "panic"
	case r.Stream != nil:
		n := 0
		for _, c := range r.Stream.Chunks {
			n += len(c)
		}
		s := "streamed"
		if r.Stream.Declared >= 0 {
			s += "-declared"
		} else {
			s += "-unknown"
		}
		if n == 0 {
			s += "-empty"
		}
		if r.Stream.EOFWithLast {
			s += "-eof-with-last"
		}
		return s
	case len(r.Body) == 0:
		return "no-body"
	case len(r.Body) > 16384:
		return "buffered-large"
	}
	return "buffered"
}
