package harness

import (
	"verif/fw"
)

// Explore enumerates every choice sequence of a scenario, depth first, by
// re-execution: run(path) executes the scenario following path and returns the
// number of choices available after it (0: terminal). The subtree below each
// path of length shardDepth belongs to one shard. It returns false if the time
// budget ran out (the run is then recorded as not exhaustive by fw).
func Explore(c *fw.Ctx, what string, maxDepth, shardDepth int, run func(path []int) int) bool {
	var item int64
	complete := true
	var rec func(path []int, owned bool)
	rec = func(path []int, owned bool) {
		if !complete {
			return
		}
		if c.Expired(what) {
			complete = false
			return
		}
		if len(path) == shardDepth {
			item++
			owned = c.Mine(item)
			if !owned {
				return
			}
		}
		// paths shorter than shardDepth are executed by every shard to learn the menu
		n := run(path)
		if len(path) < shardDepth && n == 0 {
			// a terminal path above the shard depth belongs to one shard
			item++
		}
		if len(path) >= maxDepth {
			return
		}
		for i := 0; i < n; i++ {
			rec(append(append([]int{}, path...), i), owned)
		}
	}
	rec(nil, false)
	return complete
}

// Interleavings enumerates all merges of tracks of the given lengths: f is
// called with the sequence of track indices. Returns the number enumerated.
func Interleavings(lens []int, f func(order []int) bool) int {
	total := 0
	for _, l := range lens {
		total += l
	}
	pos := make([]int, len(lens))
	order := make([]int, 0, total)
	n := 0
	var rec func() bool
	rec = func() bool {
		if len(order) == total {
			n++
			return f(order)
		}
		for t := range lens {
			if pos[t] < lens[t] {
				pos[t]++
				order = append(order, t)
				ok := rec()
				order = order[:len(order)-1]
				pos[t]--
				if !ok {
					return false
				}
			}
		}
		return true
	}
	rec()
	return n
}
