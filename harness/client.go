package harness

import (
	"fmt"
	"io"
	"net"
	"strconv"
	"strings"
	"time"

	"github.com/dgrr/http2"
	"github.com/valyala/fasthttp"
	"golang.org/x/net/http2/hpack"

	"verif/peer"
	"verif/ref"
	"verif/vsched"
)

// ClientOpts configures a client under test.
type ClientOpts struct {
	MaxResponseTime time.Duration // 0: default (a minute of virtual time); <0 disabled
	PingInterval    time.Duration
	ServerSettings  []peer.Setting // sent by every scripted server in its first SETTINGS
	NoAutoHandshake bool
	DialFail        func(n int) bool // n-th dial (0-based) fails
	MaxSteps        int
}

// SrvStream is what a scripted server received on one stream.
type SrvStream struct {
	ID          uint32
	Fields      [][2]string
	RawBlock    []byte
	BlockFrames []int
	Blocks      int
	Data        []byte
	DataSizes   []int
	EndStream   int
	Rst         []uint32
	AfterEnd    int
	HdrEvent    int
}

// SrvConn is the scripted server's side of one connection the client dialed.
type SrvConn struct {
	Idx        int
	C          *vsched.Conn
	Out        []peer.Frame // frames received from the client
	rest       []byte
	PrefaceOK  bool
	prefaceBuf []byte
	Streams    map[uint32]*SrvStream
	Order      []uint32 // stream ids in order of their HEADERS
	Settings   [][]peer.Setting
	Acks       int
	Pings      int
	PingAcks   int
	GoAways    []peer.Sem
	WindowUps  []peer.Sem
	dec        *hpack.Decoder
	Enc        *PeerEncoder // the server's encoder for response blocks
	HpackErr   string
	curBlock   uint32
	blockBuf   []byte
	blockES    bool
	ProtoErrs  []string
	handshaken bool
	BadPreface bool
	Stalled    bool // the scripted server has stopped reading: nothing is taken off the transport
}

// CCall is one RoundTrip call made by a caller goroutine.
type CCall struct {
	Idx        int
	Tag        string
	Done       bool
	Retry      bool
	Err        error
	Status     int
	Headers    [][2]string
	Body       []byte
	req        *fasthttp.Request
	res        *fasthttp.Response
	Resolved   int // how many times RoundTrip returned (must be 1)
	BodyReader *ReqBody
}

// ReqBody is a streamed request body.
type ReqBody struct {
	Chunks [][]byte
	i, off int
	Closed int
	Reads  int
	FailAt int
	// EOFWithLast: the last bytes are returned together with io.EOF (io.Reader allows both forms)
	EOFWithLast bool
	// OneByte: at most one byte per Read
	OneByte bool
}

//go:norace
func (r *ReqBody) Read(p []byte) (int, error) {
	r.Reads++
	if r.FailAt > 0 && r.Reads >= r.FailAt {
		return 0, fmt.Errorf("scenario: request body failed")
	}
	for r.i < len(r.Chunks) && r.off >= len(r.Chunks[r.i]) {
		r.i++
		r.off = 0
	}
	if r.i >= len(r.Chunks) {
		return 0, io.EOF
	}
	src := r.Chunks[r.i][r.off:]
	if r.OneByte && len(src) > 1 {
		src = src[:1]
	}
	n := copy(p, src)
	r.off += n
	if r.EOFWithLast && r.i == len(r.Chunks)-1 && r.off >= len(r.Chunks[r.i]) {
		r.i++
		return n, io.EOF
	}
	return n, nil
}

//go:norace
func (r *ReqBody) Close() error { r.Closed++; return nil }

// ReqSpec describes a request a caller issues.
type ReqSpec struct {
	Tag      string
	Method   string
	Path     string
	Headers  [][2]string
	Body     []byte
	Stream   [][]byte // streamed body chunks (nil: buffered)
	Declared int      // content length for a streamed body (-1 unknown)
	// reader behaviour of a streamed body
	EOFWithLast bool
	OneByte     bool
}

// Client is a real http2.Client under the controlled scheduler with scripted servers.
type Client struct {
	S        *vsched.Sched
	Opts     ClientOpts
	Cl       *http2.Client
	Conns    []*SrvConn
	Calls    []*CCall
	AllConns []*http2.Conn // every connection object the client has had, dead ones included
	Dials    int
	Events   int
	EventLog []string
	EnvSeq   int
	// ReuseAfter: callers overwrite their Request and Response as soon as RoundTrip has returned
	ReuseAfter bool
}

func NewClient(o ClientOpts) *Client {
	s := vsched.New()
	if o.MaxSteps > 0 {
		s.MaxStep = o.MaxSteps
	}
	h := &Client{S: s, Opts: o}
	d := &http2.Dialer{Addr: "server:443", NetDial: h.dial, PingInterval: o.PingInterval}
	h.Cl = http2.VerifNewClient(d, http2.ClientOpts{MaxResponseTime: o.MaxResponseTime, PingInterval: o.PingInterval})
	return h
}

func (h *Client) Close() { h.S.Shutdown() }

//go:norace
func (h *Client) dial(addr string) (net.Conn, error) {
	n := h.Dials
	h.Dials++
	if h.Opts.DialFail != nil && h.Opts.DialFail(n) {
		return nil, fmt.Errorf("scenario: dial %d refused", n)
	}
	c, _ := vsched.NewConnPair("client#"+strconv.Itoa(len(h.Conns)), "server#"+strconv.Itoa(len(h.Conns)))
	switch SegMode {
	case 2:
		c.ReadChunk = 1
	case 3:
		c.ReadChunk = 7
	}
	sc := &SrvConn{Idx: len(h.Conns), C: c, Streams: map[uint32]*SrvStream{}, dec: hpack.NewDecoder(4096, nil), Enc: NewPeerEncoder()}
	h.Conns = append(h.Conns, sc)
	return c, nil
}

// Go starts a caller goroutine issuing one request (one event).
func (h *Client) Go(spec ReqSpec) *CCall {
	call := &CCall{Idx: len(h.Calls), Tag: spec.Tag}
	h.Calls = append(h.Calls, call)
	req := fasthttp.AcquireRequest()
	res := fasthttp.AcquireResponse()
	m := spec.Method
	if m == "" {
		m = "GET"
	}
	req.Header.SetMethod(m)
	req.SetRequestURI("https://server" + spec.Path)
	for _, kv := range spec.Headers {
		req.Header.Add(kv[0], kv[1])
	}
	if spec.Stream != nil {
		call.BodyReader = &ReqBody{Chunks: spec.Stream, EOFWithLast: spec.EOFWithLast, OneByte: spec.OneByte}
		req.SetBodyStream(call.BodyReader, spec.Declared)
	} else if spec.Body != nil {
		req.SetBody(spec.Body)
	}
	call.req, call.res = req, res
	h.S.Spawn("caller#"+spec.Tag, (&callRunner{h, call}).run)
	h.step("caller " + spec.Tag + " starts")
	return call
}

type callRunner struct {
	h *Client
	c *CCall
}

//go:norace
func (r *callRunner) run() {
	c := r.c
	retry, err := r.h.Cl.RoundTrip(nil, c.req, c.res)
	if vsched.Dying() {
		return
	}
	c.Resolved++
	c.Retry, c.Err = retry, err
	c.Status = c.res.StatusCode()
	for k, v := range c.res.Header.All() {
		c.Headers = append(c.Headers, [2]string{strings.ToLower(string(k)), string(v)})
	}
	c.Body = append([]byte{}, c.res.Body()...)
	c.Done = true
	if r.h.ReuseAfter && c.BodyReader == nil {
		// the request and the response are the caller's again: use them for something else at once
		// same length as before, so that the bytes land in the buffer the connection was given
		c.req.SetBodyString(strings.Repeat("Z", len(c.req.Body())))
		c.req.Header.Set("X-Reused", "yes")
		c.res.SetBodyString("and its response object too")
	}
}

func (h *Client) step(what string) {
	h.Events++
	h.EventLog = append(h.EventLog, what)
	for i := 0; i < 8; i++ {
		h.S.Run()
		if h.S.Overrun {
			panic(fmt.Sprintf("harness: step horizon (%d scheduler steps) exceeded after %d events; live: %v", h.S.MaxStep, h.Events, h.S.Live()))
		}
		h.collect()
		h.noteConns()
		if h.Opts.NoAutoHandshake || !h.autoHandshake() {
			break
		}
	}
}

// noteConns remembers every connection object the client has had (a dead one leaves its list).
//
//go:norace
func (h *Client) noteConns() {
	if h.Cl == nil {
		return
	}
	for _, c := range http2.VerifClientConnsQuiescent(h.Cl) {
		known := false
		for _, k := range h.AllConns {
			known = known || k == c
		}
		if !known {
			h.AllConns = append(h.AllConns, c)
		}
	}
}

// Observation is everything a user of the client and its servers can see, as text: what each server
// received, what each caller got (error text included), and the error each connection reports.
func (h *Client) Observation() string {
	var sb strings.Builder
	for i, sc := range h.Conns {
		fmt.Fprintf(&sb, "server#%d received:\n", i)
		for _, f := range sc.Out {
			fmt.Fprintf(&sb, "  %s %x\n", f.String(), f.Payload)
		}
	}
	for _, c := range h.Calls {
		fmt.Fprintf(&sb, "caller %s: done=%v retry=%v err=%v status=%d headers=%v body=%q\n", c.Tag, c.Done, c.Retry, c.Err, c.Status, c.Headers, c.Body)
	}
	for i, c := range h.AllConns {
		fmt.Fprintf(&sb, "conn#%d LastErr=%v\n", i, c.LastErr())
	}
	fmt.Fprintf(&sb, "panics=%v live=%v\n", h.S.Panics, h.S.LiveNames())
	return sb.String()
}

// autoHandshake answers a fresh connection's preface with SETTINGS (+ACK of the
// client's). It reports whether it injected anything.
func (h *Client) autoHandshake() bool {
	did := false
	for _, sc := range h.Conns {
		if sc.PrefaceOK && !sc.handshaken {
			sc.handshaken = true
			b := peer.Settings(h.Opts.ServerSettings...).Bytes()
			b = peer.SettingsAck().Append(b)
			sc.C.Inject(b)
			did = true
		}
	}
	return did
}

// Handshake sends the server's first SETTINGS on conn i explicitly (NoAutoHandshake).
func (h *Client) Handshake(i int, settings ...peer.Setting) {
	sc := h.Conns[i]
	sc.handshaken = true
	sc.C.Inject(peer.Settings(settings...).Bytes())
	h.step(fmt.Sprintf("server#%d SETTINGS", i))
}

// Send delivers frames from scripted server i to the client (one event).
func (h *Client) Send(i int, fs ...peer.Frame) {
	var b []byte
	var names []string
	for _, f := range fs {
		b = f.Append(b)
		names = append(names, f.String())
	}
	h.inject(i, b)
	h.step(fmt.Sprintf("server#%d sends %s", i, strings.Join(names, ", ")))
}

// inject delivers b to the client's transport according to SegMode (see server.go).
func (h *Client) inject(i int, b []byte) {
	if SegMode == 1 {
		for k := 0; k+1 < len(b); k++ {
			h.Conns[i].C.Inject(b[k : k+1])
			h.S.Run()
			h.collect()
		}
		if len(b) > 0 {
			h.Conns[i].C.Inject(b[len(b)-1:])
		}
		return
	}
	h.Conns[i].C.Inject(b)
}

// SendRaw delivers raw bytes.
func (h *Client) SendRaw(i int, b []byte) {
	h.inject(i, b)
	h.step(fmt.Sprintf("server#%d sends %d raw bytes", i, len(b)))
}

// ServerStall: scripted server i stops reading; every further write of the client blocks.
func (h *Client) ServerStall(i int) {
	h.collect()
	h.Conns[i].Stalled = true
	h.Conns[i].C.SetOutStalled(true)
}

// ServerResume: scripted server i reads again (one event).
func (h *Client) ServerResume(i int) {
	h.Conns[i].Stalled = false
	h.Conns[i].C.SetOutStalled(false)
	h.step(fmt.Sprintf("server#%d reads again", i))
}

// ServerClose: the server closes connection i.
func (h *Client) ServerClose(i int) {
	h.Conns[i].C.PeerClose()
	h.step(fmt.Sprintf("server#%d closes", i))
}

// FireTimer fires the earliest armed timer whose creation site contains sub ("" any).
func (h *Client) FireTimer(sub string) bool {
	for _, t := range h.S.Armed() {
		if sub == "" || strings.Contains(t.Site, sub) {
			h.S.Fire(t)
			h.step("timer " + t.Site)
			return true
		}
	}
	return false
}

// CloseClient calls Client.Close from a managed goroutine (one event).
func (h *Client) CloseClient() {
	h.S.Spawn("closer", h.closeAll)
	h.step("Client.Close")
}

//go:norace
func (h *Client) closeAll() { _ = h.Cl.Close() }

func (sc *SrvConn) stream(id uint32) *SrvStream {
	s := sc.Streams[id]
	if s == nil {
		s = &SrvStream{ID: id}
		sc.Streams[id] = s
	}
	return s
}

func (h *Client) collect() {
	for _, sc := range h.Conns {
		if sc.Stalled {
			continue
		}
		b := sc.C.TakeAll()
		if len(b) == 0 {
			continue
		}
		if !sc.PrefaceOK && !sc.BadPreface {
			sc.prefaceBuf = append(sc.prefaceBuf, b...)
			if len(sc.prefaceBuf) < len(peer.Preface) {
				continue
			}
			if string(sc.prefaceBuf[:len(peer.Preface)]) != string(peer.Preface) {
				sc.BadPreface = true
				sc.ProtoErrs = append(sc.ProtoErrs, "bad connection preface")
				continue
			}
			sc.PrefaceOK = true
			b = sc.prefaceBuf[len(peer.Preface):]
		}
		frames, rest := peer.Parse(append(sc.rest, b...))
		sc.rest = rest
		for _, f := range frames {
			sc.Out = append(sc.Out, f)
			sem, err := peer.SemOf(f)
			if err != nil {
				sc.ProtoErrs = append(sc.ProtoErrs, fmt.Sprintf("malformed %s from client: %v", f, err))
				continue
			}
			if sc.curBlock != 0 && (f.Type != peer.TContinuation || f.Stream != sc.curBlock) {
				sc.ProtoErrs = append(sc.ProtoErrs, fmt.Sprintf("%s while a header block on stream %d is open", f, sc.curBlock))
			}
			switch f.Type {
			case peer.TSettings:
				if sem.Ack {
					sc.Acks++
				} else {
					sc.Settings = append(sc.Settings, sem.Settings)
				}
			case peer.TPing:
				if sem.Ack {
					sc.PingAcks++
				} else {
					sc.Pings++
				}
			case peer.TGoAway:
				sc.GoAways = append(sc.GoAways, sem)
			case peer.TWindowUpdate:
				sc.WindowUps = append(sc.WindowUps, sem)
			case peer.TRstStream:
				sc.stream(f.Stream).Rst = append(sc.stream(f.Stream).Rst, sem.Code)
			case peer.THeaders:
				s := sc.stream(f.Stream)
				if s.EndStream > 0 {
					s.AfterEnd++
				}
				if s.Blocks == 0 {
					sc.Order = append(sc.Order, f.Stream)
					s.HdrEvent = h.Events
				}
				sc.curBlock, sc.blockBuf, sc.blockES = f.Stream, append([]byte{}, sem.Body...), sem.EndStream
				s.BlockFrames = append(s.BlockFrames, len(f.Payload))
				if sem.EndHeaders {
					sc.finishBlock()
				}
			case peer.TContinuation:
				if sc.curBlock != f.Stream {
					sc.ProtoErrs = append(sc.ProtoErrs, "unexpected "+f.String())
					continue
				}
				sc.blockBuf = append(sc.blockBuf, sem.Body...)
				sc.stream(f.Stream).BlockFrames = append(sc.stream(f.Stream).BlockFrames, len(f.Payload))
				if sem.EndHeaders {
					sc.finishBlock()
				}
			case peer.TData:
				s := sc.stream(f.Stream)
				if s.EndStream > 0 {
					s.AfterEnd++
				}
				s.Data = append(s.Data, sem.Body...)
				s.DataSizes = append(s.DataSizes, len(f.Payload))
				if sem.EndStream {
					s.EndStream++
				}
			}
		}
	}
}

func (sc *SrvConn) finishBlock() {
	s := sc.stream(sc.curBlock)
	s.RawBlock = append([]byte{}, sc.blockBuf...)
	fields, err := sc.dec.DecodeFull(sc.blockBuf)
	if err != nil && sc.HpackErr == "" {
		sc.HpackErr = fmt.Sprintf("request header block on stream %d does not decode: %v (%x)", sc.curBlock, err, sc.blockBuf)
	}
	for _, f := range fields {
		s.Fields = append(s.Fields, [2]string{f.Name, f.Value})
	}
	s.Blocks++
	if sc.blockES {
		s.EndStream++
	}
	sc.curBlock, sc.blockBuf = 0, nil
}

// SetClientTableSize records that the scripted server advertised a header table size.
func (sc *SrvConn) SetClientTableSize(n uint32) { sc.dec.SetAllowedMaxDynamicTableSize(n) }

// RespFrames builds a complete response on stream id: HEADERS(+CONTINUATION at
// split offsets) and DATA chunks.
func (sc *SrvConn) RespFrames(id uint32, fields []ref.Field, choice func(int) ref.EncChoice, splits []int, chunks [][]byte, pad int) []peer.Frame {
	blk := sc.Enc.Block(fields, choice)
	var frags [][]byte
	prev := 0
	for _, off := range splits {
		off = min(max(off, prev), len(blk))
		frags = append(frags, blk[prev:off])
		prev = off
	}
	frags = append(frags, blk[prev:])
	var out []peer.Frame
	out = append(out, peer.Headers(id, frags[0], peer.HeadersOpt{EndStream: len(chunks) == 0, EndHeaders: len(frags) == 1, Pad: -1}))
	for i := 1; i < len(frags); i++ {
		out = append(out, peer.Continuation(id, frags[i], i == len(frags)-1))
	}
	for i, ch := range chunks {
		out = append(out, peer.Data(id, ch, i == len(chunks)-1, pad))
	}
	return out
}

// Live returns the names of unfinished managed goroutines.
func (h *Client) Live() []string { return h.S.LiveNames() }

// Digest for state counting.
func (h *Client) Digest() string {
	var sb strings.Builder
	for _, sc := range h.Conns {
		for _, f := range sc.Out {
			sb.WriteString(f.String())
			sb.WriteByte(';')
		}
		sb.WriteByte('|')
	}
	for _, c := range h.Calls {
		fmt.Fprintf(&sb, "%s done=%v err=%v st=%d;", c.Tag, c.Done, c.Err, c.Status)
	}
	fmt.Fprintf(&sb, "live=%v", h.S.LiveNames())
	return sb.String()
}
