package harness

import (
	"fmt"
	"strings"

	"github.com/valyala/fasthttp"

	"verif/peer"
	"verif/vsched"
)

// SPX support: the environment of a connection (peer script, clock, handler
// releases, Close calls) as managed low-priority threads, so that one
// Sched.Run explores how their steps interleave with the implementation's own
// goroutines. Everything a managed goroutine executes here is //go:norace and
// closure-free: harness bookkeeping must stay invisible to the race detector.

// EnvStep is one step of an environment thread.
type EnvStep struct {
	Kind string // inject | finish | fire | peerclose | close | spawn-caller | capacity
	Conn int    // client role: scripted server index
	// inject
	Bytes       []byte
	WaitHeaders int // client role: wait until the client has written this many HEADERS frames on the connection since the explored phase began
	// finish (server role): release handler call Call with Resp
	Call int
	Resp Resp
	// fire: earliest armed timer whose creation site contains Sub
	Sub string
	// spawn-caller (client role); WaitDone: not before this many callers of the explored phase have returned
	Spec     ReqSpec
	WaitDone int
	// capacity
	N int

	// filled in when the step executes: how many bytes the implementation had
	// written on the connection (since the explored phase began) at that moment,
	// and the step's position in the global order of environment steps
	OutAt int
	Seq   int
	Ran   bool
}

func (st *EnvStep) String() string {
	switch st.Kind {
	case "inject":
		fs, _ := peer.Parse(st.Bytes)
		var names []string
		for _, f := range fs {
			names = append(names, f.String())
		}
		if len(names) == 0 {
			return fmt.Sprintf("inject %d raw bytes", len(st.Bytes))
		}
		return "inject " + strings.Join(names, ",")
	case "finish":
		return fmt.Sprintf("finish#%d", st.Call)
	case "fire":
		return "fire " + st.Sub
	case "spawn-caller":
		return "caller " + st.Spec.Tag
	}
	return st.Kind
}

// EnvThread is a sequence of steps executed by one managed low-priority goroutine.
type EnvThread struct {
	Name  string
	Steps []EnvStep
	hs    *Server
	hc    *Client
	Done  int
}

type envOp struct {
	t  *EnvThread
	st *EnvStep
}

//go:norace
func (o *envOp) Kind() string { return "env:" + o.t.Name + ":" + o.st.Kind }

//go:norace
func (o *envOp) Enabled() bool {
	st := o.st
	switch st.Kind {
	case "finish":
		h := o.t.hs
		return st.Call < len(h.Calls) && !h.Calls[st.Call].Returned && len(h.Calls[st.Call].gate) == 0
	case "fire":
		return o.t.timer(st.Sub) != nil
	case "spawn-caller":
		if st.WaitDone > 0 && o.t.hc != nil {
			n := 0
			for _, c := range o.t.hc.Calls {
				if c.Done && c.Tag != "warm" {
					n++
				}
			}
			return n >= st.WaitDone
		}
	case "inject":
		if o.t.hc != nil {
			if st.Conn >= len(o.t.hc.Conns) {
				return false
			}
			if st.WaitHeaders > 0 {
				return countType(o.t.hc.Conns[st.Conn].C.PeekOut(), peer.THeaders) >= st.WaitHeaders
			}
		}
	}
	return true
}

//go:norace
func (t *EnvThread) sched() *vsched.Sched {
	if t.hs != nil {
		return t.hs.S
	}
	return t.hc.S
}

//go:norace
func (t *EnvThread) nextSeq() int {
	if t.hs != nil {
		t.hs.EnvSeq++
		return t.hs.EnvSeq
	}
	t.hc.EnvSeq++
	return t.hc.EnvSeq
}

//go:norace
func (t *EnvThread) timer(sub string) *vsched.Timer {
	for _, tm := range t.sched().Armed() {
		if sub == "" || strings.Contains(tm.Site, sub) {
			return tm
		}
	}
	return nil
}

// countType counts complete frames of type typ in buf (a client preface at the start is skipped).
//
//go:norace
func countType(buf []byte, typ uint8) int {
	// byte loop, not a string comparison: the runtime's conversion helpers report
	// to the race detector, and this runs on whichever goroutine is scheduling
	if len(buf) >= len(peer.Preface) {
		same := true
		for i := range peer.Preface {
			if buf[i] != peer.Preface[i] {
				same = false
				break
			}
		}
		if same {
			buf = buf[len(peer.Preface):]
		}
	}
	n := 0
	for len(buf) >= 9 {
		l := int(buf[0])<<16 | int(buf[1])<<8 | int(buf[2])
		if len(buf) < 9+l {
			break
		}
		if buf[3] == typ {
			n++
		}
		buf = buf[9+l:]
	}
	return n
}

//go:norace
func (t *EnvThread) run() {
	for i := range t.Steps {
		st := &t.Steps[i]
		if i > 0 { // the thread was started at its first step's point
			vsched.PointOp(&envOp{t, st})
		}
		if vsched.Dying() {
			return
		}
		st.Ran = true
		st.Seq = t.nextSeq()
		if t.hs != nil {
			st.OutAt = len(t.hs.C.PeekOut())
		} else if st.Conn < len(t.hc.Conns) {
			st.OutAt = len(t.hc.Conns[st.Conn].C.PeekOut())
		}
		switch st.Kind {
		case "inject":
			if t.hs != nil {
				t.hs.C.Inject(st.Bytes)
			} else {
				t.hc.Conns[st.Conn].C.Inject(st.Bytes)
			}
		case "finish":
			t.hs.Calls[st.Call].gate <- st.Resp
		case "fire":
			if tm := t.timer(st.Sub); tm != nil {
				t.sched().Fire(tm)
			}
		case "peerclose":
			if t.hs != nil {
				t.hs.C.PeerClose()
			} else {
				t.hc.Conns[st.Conn].C.PeerClose()
			}
		case "capacity":
			t.hs.C.SetOutCapacity(st.N)
		case "close":
			_ = t.hc.Cl.Close()
		case "spawn-caller":
			t.hc.spawnCaller(st.Spec)
		}
		t.Done++
	}
}

// StartEnv spawns the environment threads of a server scenario (does not run them).
func (h *Server) StartEnv(ts ...*EnvThread) {
	for _, t := range ts {
		t.hs = h
		h.S.SpawnAt("env:"+t.Name, t.run, &envOp{t, &t.Steps[0]}, true)
	}
}

// StartEnv spawns the environment threads of a client scenario.
func (h *Client) StartEnv(ts ...*EnvThread) {
	for _, t := range ts {
		t.hc = h
		h.S.SpawnAt("env:"+t.Name, t.run, &envOp{t, &t.Steps[0]}, true)
	}
}

// SpawnCaller starts a caller goroutine without running the scheduler.
func (h *Client) SpawnCaller(spec ReqSpec) *CCall { return h.spawnCaller(spec) }

//go:norace
func (h *Client) spawnCaller(spec ReqSpec) *CCall {
	call := &CCall{Idx: len(h.Calls), Tag: spec.Tag}
	h.Calls = append(h.Calls, call)
	req := fasthttp.AcquireRequest()
	res := fasthttp.AcquireResponse()
	m := spec.Method
	if m == "" {
		m = "GET"
	}
	req.Header.SetMethod(m)
	req.SetRequestURI("https://server" + spec.Path)
	for _, kv := range spec.Headers {
		req.Header.Add(kv[0], kv[1])
	}
	if spec.Stream != nil {
		call.BodyReader = &ReqBody{Chunks: spec.Stream, EOFWithLast: spec.EOFWithLast, OneByte: spec.OneByte}
		req.SetBodyStream(call.BodyReader, spec.Declared)
	} else if spec.Body != nil {
		req.SetBody(spec.Body)
	}
	call.req, call.res = req, res
	h.S.Spawn("caller#"+spec.Tag, (&callRunner{h, call}).run)
	return call
}

// RunExplored runs the scheduler once with decision recording on, following
// prefix, and returns the recorded points.
func RunExplored(s *vsched.Sched, prefix []int) []vsched.Point {
	s.Explore = true
	s.Prefix = prefix
	s.Points = nil
	s.Run()
	s.Explore = false
	return s.Points
}

// Collect parses what the server wrote during an explored phase.
func (h *Server) Collect() {
	if h.S.Overrun {
		panic(fmt.Sprintf("harness: step horizon exceeded in an explored phase; live: %v", h.S.Live()))
	}
	mark := len(h.Out)
	pre := len(h.rest)
	h.collect()
	h.OutOffset = make([]int, len(h.Out))
	off := -pre
	for i := range h.Out {
		if i < mark {
			h.OutOffset[i] = -1
			continue
		}
		h.OutOffset[i] = off
		off += 9 + len(h.Out[i].Payload)
	}
}

// Collect parses what the client wrote during an explored phase.
func (h *Client) Collect() {
	if h.S.Overrun {
		panic(fmt.Sprintf("harness: step horizon exceeded in an explored phase; live: %v", h.S.Live()))
	}
	h.collect()
}

// PoolEvents returns pool tracker events of a client execution.
func (h *Client) PoolEvents() []string {
	var out []string
	for _, e := range h.S.Events {
		if strings.HasPrefix(e, "pool:") {
			out = append(out, e)
		}
	}
	return out
}
