#!/bin/bash
# reconfirm_flaky.sh <seed-id>...: for seeds whose suite run (confirm.log) had failing tests, re-run exactly those
# tests alone, with the seeded change, in a fresh scratch worktree (load-sensitive tests fail on the unchanged tree
# too when the machine is busy). Appends the outcome to confirm.log.
export GOFLAGS=-mod=mod GOPROXY=off
for id in "$@"; do
  log=/verif/seeded/$id/confirm.log
  tests=$(grep -a -- '^--- FAIL: ' $log | grep -v TestSeedDemo | sed 's/^--- FAIL: \([A-Za-z0-9_]*\).*/\1/' | sort -u | tr '\n' '|' | sed 's/|$//')
  [ -z "$tests" ] && { echo "$id: suite was clean"; continue; }
  wt=/tmp/wt/re-$id
  git -C /repo worktree add --detach $wt HEAD -q || continue
  (cd $wt && git apply /verif/seeded/$id/patch.diff && {
     echo "== re-run alone with the change: $tests (3 attempts, pass = any attempt ok for a load-sensitive test)"
     for k in 1 2 3; do go test -vet=off -count=1 -timeout 10m -run "^($tests)\$" . 2>&1 | grep -a "^ok\|^FAIL\|^--- FAIL" | tr '\n' ' '; echo; done
  } >> $log 2>&1)
  git -C /repo worktree remove --force $wt
  echo "$id: $(tail -3 $log | tr '\n' ' ')"
done
