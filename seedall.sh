#!/bin/bash
# seedall.sh [tier]: every seeded change against the check of its own property; prints DETECTED / MISSED per seed
cd "$(dirname "$0")"
tier="${1:-quick}"
for d in seeded/*/; do
  d=${d%/}
  prop=$(python3 -c "import json;print(json.load(open('$d/meta.json'))['property'])")
  out=$(./seedtest.sh "$d" "$tier" "$prop" 2>&1)
  if echo "$out" | grep -q "exit=1"; then echo "DETECTED $d by $prop"; else echo "MISSED   $d by $prop :: $(echo "$out" | head -2 | cut -c1-160)"; fi
done
