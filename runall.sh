#!/bin/bash
# runs every claimed check at the given tier, prints one status line per check
cd "$(dirname "$0")"
tier="${1:-quick}"
for id in $(python3 -c "import json;print(' '.join(c['property_id'] for c in json.load(open('MANIFEST.json'))['checks']))"); do
  start=$(date +%s)
  ./run.sh "$id" "$tier" > ".build/runall-$id.log" 2>&1
  rc=$?
  echo "$id rc=$rc $(( $(date +%s) - start ))s $(grep -c '^VIOLATION' .build/runall-$id.log) violations $(grep -c '^KNOWN-FINDING' .build/runall-$id.log) known"
done
