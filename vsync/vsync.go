// Package vsync replaces "sync" in the rewritten dgrr/http2.
package vsync

import (
	"verif/vsched"
)

type Locker interface {
	Lock()
	Unlock()
}

// Mutex: Lock is a scheduling point enabled while the mutex is free.
type Mutex struct {
	locked bool
	w      int    // writers (always 0/1)
	holder string // Debug only: where the current holder took it
}

type lockOp struct {
	m    *Mutex
	site string
}

//go:norace
func (o *lockOp) Enabled() bool { return !o.m.locked }

//go:norace
func (o *lockOp) Kind() string {
	if o.site != "" {
		return "lock@" + o.site + " held by " + o.m.holder
	}
	return "lock"
}

//go:norace
func (m *Mutex) Lock() {
	if vsched.Dying() {
		return
	}
	op := &lockOp{m: m}
	if vsched.Debugging() {
		op.site = vsched.CallerSite(2)
	}
	vsched.PointOp(op)
	m.locked = true
	if op.site != "" {
		m.holder = op.site
	}
	vsched.RaceAcquire(m)
}

//go:norace
func (m *Mutex) TryLock() bool {
	if vsched.Dying() {
		return true
	}
	vsched.PointOp(tryOp)
	if m.locked {
		return false
	}
	m.locked = true
	vsched.RaceAcquire(m)
	return true
}

var tryOp = vsched.Always("trylock")

//go:norace
func (m *Mutex) Unlock() {
	if vsched.Dying() {
		return
	}
	if !m.locked {
		panic("sync: unlock of unlocked mutex")
	}
	vsched.RaceRelease(m)
	m.locked = false
}

// RWMutex.
type RWMutex struct {
	w       bool
	readers int
}

type rwOp struct {
	m     *RWMutex
	write bool
}

//go:norace
func (o *rwOp) Enabled() bool {
	if o.write {
		return !o.m.w && o.m.readers == 0
	}
	return !o.m.w
}

//go:norace
func (o *rwOp) Kind() string { return "rwlock" }

//go:norace
func (m *RWMutex) Lock() {
	if vsched.Dying() {
		return
	}
	vsched.PointOp(&rwOp{m, true})
	m.w = true
	vsched.RaceAcquire(m)
}

//go:norace
func (m *RWMutex) Unlock() {
	if vsched.Dying() {
		return
	}
	if !m.w {
		panic("sync: Unlock of unlocked RWMutex")
	}
	vsched.RaceRelease(m)
	m.w = false
}

//go:norace
func (m *RWMutex) RLock() {
	if vsched.Dying() {
		return
	}
	vsched.PointOp(&rwOp{m, false})
	m.readers++
	vsched.RaceAcquire(m)
}

//go:norace
func (m *RWMutex) RUnlock() {
	if vsched.Dying() {
		return
	}
	if m.readers == 0 {
		panic("sync: RUnlock of unlocked RWMutex")
	}
	vsched.RaceReleaseMerge(m)
	m.readers--
}

//go:norace
func (m *RWMutex) RLocker() Locker { return (*rlocker)(m) }

type rlocker RWMutex

//go:norace
func (r *rlocker) Lock() { (*RWMutex)(r).RLock() }

//go:norace
func (r *rlocker) Unlock() { (*RWMutex)(r).RUnlock() }

// WaitGroup.
type WaitGroup struct{ n int }

type wgOp struct{ w *WaitGroup }

//go:norace
func (o *wgOp) Enabled() bool { return o.w.n <= 0 }

//go:norace
func (o *wgOp) Kind() string { return "wg.wait" }

//go:norace
func (w *WaitGroup) Add(d int) {
	w.n += d
	if w.n < 0 {
		panic("sync: negative WaitGroup counter")
	}
	vsched.RaceReleaseMerge(w)
}

//go:norace
func (w *WaitGroup) Done() { w.Add(-1) }

//go:norace
func (w *WaitGroup) Wait() {
	if vsched.Dying() {
		return
	}
	vsched.PointOp(&wgOp{w})
	vsched.RaceAcquire(w)
}

//go:norace
func (w *WaitGroup) Go(f func()) {
	w.Add(1)
	vsched.Go((&wgRunner{w, f}).run)
}

type wgRunner struct {
	w *WaitGroup
	f func()
}

//go:norace
func (r *wgRunner) run() {
	defer r.w.Done()
	r.f()
}

// Once.
type Once struct {
	m    Mutex
	done bool
}

//go:norace
func (o *Once) Do(f func()) {
	if vsched.Dying() {
		return
	}
	o.m.Lock()
	defer o.m.Unlock()
	if !o.done {
		defer o.setDone()
		f()
	}
}

//go:norace
func (o *Once) setDone() { o.done = true }

// Pool is the tracked deterministic pool.
type Pool struct {
	New func() any
	p   vsched.Pool
}

//go:norace
func (p *Pool) Get() any {
	p.p.New = p.New
	return p.p.Get()
}

//go:norace
func (p *Pool) Put(x any) { p.p.Put(x) }

// Map is a plain map: accesses happen one at a time under the scheduler.
type Map struct {
	m map[any]any
	k []any
}

//go:norace
func (m *Map) Load(k any) (any, bool) {
	vsched.PointOp(mapOp)
	vsched.RaceAcquire(m)
	v, ok := m.m[k]
	vsched.RaceReleaseMerge(m)
	return v, ok
}

var mapOp = vsched.Always("syncmap")

//go:norace
func (m *Map) Store(k, v any) {
	vsched.PointOp(mapOp)
	if m.m == nil {
		m.m = map[any]any{}
	}
	if _, ok := m.m[k]; !ok {
		m.k = append(m.k, k)
	}
	m.m[k] = v
	vsched.RaceReleaseMerge(m)
}

//go:norace
func (m *Map) LoadOrStore(k, v any) (any, bool) {
	vsched.PointOp(mapOp)
	if old, ok := m.m[k]; ok {
		return old, true
	}
	if m.m == nil {
		m.m = map[any]any{}
	}
	m.k = append(m.k, k)
	m.m[k] = v
	return v, false
}

//go:norace
func (m *Map) LoadAndDelete(k any) (any, bool) {
	vsched.PointOp(mapOp)
	v, ok := m.m[k]
	if ok {
		m.del(k)
	}
	return v, ok
}

//go:norace
func (m *Map) del(k any) {
	delete(m.m, k)
	for i, x := range m.k {
		if x == k {
			m.k = append(m.k[:i], m.k[i+1:]...)
			break
		}
	}
}

//go:norace
func (m *Map) Delete(k any) {
	vsched.PointOp(mapOp)
	if _, ok := m.m[k]; ok {
		m.del(k)
	}
}

//go:norace
func (m *Map) Range(f func(k, v any) bool) {
	keys := append([]any(nil), m.k...)
	for _, k := range keys {
		v, ok := m.m[k]
		if !ok {
			continue
		}
		if !f(k, v) {
			return
		}
	}
}
