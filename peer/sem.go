package peer

import (
	"bytes"
	"encoding/binary"
	"errors"
	"fmt"
)

// Sem is the meaning of a frame under RFC 7540 section 6: the fields an
// application can observe, with padding and reserved bits removed.
type Sem struct {
	Type   uint8
	Stream uint32

	EndStream, EndHeaders, Ack bool
	Padded                     bool
	PadLen                     int
	HasPrio                    bool
	Dep                        uint32
	Excl                       bool
	Weight                     uint8

	Body     []byte // DATA payload / header block fragment / GOAWAY debug data / PING data
	Code     uint32 // RST_STREAM, GOAWAY
	Last     uint32 // GOAWAY last-stream-id
	Inc      uint32 // WINDOW_UPDATE
	Promise  uint32 // PUSH_PROMISE
	Settings []Setting
}

func (s Sem) String() string {
	return fmt.Sprintf("%s[%d] es=%v eh=%v ack=%v pad=%v/%d prio=%v(dep=%d excl=%v w=%d) body=%d bytes code=%d last=%d inc=%d promise=%d settings=%v",
		TypeName(s.Type), s.Stream, s.EndStream, s.EndHeaders, s.Ack, s.Padded, s.PadLen, s.HasPrio, s.Dep, s.Excl, s.Weight, len(s.Body), s.Code, s.Last, s.Inc, s.Promise, s.Settings)
}

var (
	ErrFrameSize = errors.New("frame size is impossible for this type")
	ErrPadding   = errors.New("padding does not fit the payload")
)

// SemOf reads a raw frame according to RFC 7540 section 6. It returns
// ErrFrameSize / ErrPadding when the structure is impossible. Unknown types
// yield a Sem with only Type/Stream/Body set.
func SemOf(f Frame) (Sem, error) {
	s := Sem{Type: f.Type, Stream: f.Stream}
	p := f.Payload
	cutPad := func() error {
		if f.Flags&FPadded == 0 {
			return nil
		}
		if len(p) < 1 {
			return ErrPadding
		}
		s.Padded = true
		s.PadLen = int(p[0])
		p = p[1:]
		if s.PadLen > len(p) {
			return ErrPadding
		}
		p = p[:len(p)-s.PadLen]
		return nil
	}
	switch f.Type {
	case TData:
		s.EndStream = f.Has(FEndStream)
		if err := cutPad(); err != nil {
			return s, err
		}
		s.Body = p
	case THeaders:
		s.EndStream = f.Has(FEndStream)
		s.EndHeaders = f.Has(FEndHeaders)
		// the pad length octet comes first, then the priority fields, and the
		// padding must fit what remains after both
		if f.Flags&FPadded != 0 {
			if len(p) < 1 {
				return s, ErrPadding
			}
			s.Padded = true
			s.PadLen = int(p[0])
			p = p[1:]
		}
		if f.Has(FPriority) {
			if len(p) < 5 {
				return s, ErrFrameSize
			}
			s.HasPrio = true
			d := binary.BigEndian.Uint32(p)
			s.Dep, s.Excl, s.Weight = d&0x7fffffff, d>>31 == 1, p[4]
			p = p[5:]
		}
		if s.PadLen > len(p) {
			return s, ErrPadding
		}
		s.Body = p[:len(p)-s.PadLen]
	case TPriority:
		if len(p) != 5 {
			return s, ErrFrameSize
		}
		d := binary.BigEndian.Uint32(p)
		s.Dep, s.Excl, s.Weight = d&0x7fffffff, d>>31 == 1, p[4]
	case TRstStream:
		if len(p) != 4 {
			return s, ErrFrameSize
		}
		s.Code = binary.BigEndian.Uint32(p)
	case TSettings:
		s.Ack = f.Has(FAck)
		if len(p)%6 != 0 || (s.Ack && len(p) != 0) {
			return s, ErrFrameSize
		}
		s.Settings = ParseSettings(p)
	case TPushPromise:
		s.EndHeaders = f.Has(FEndHeaders)
		if f.Flags&FPadded != 0 {
			if len(p) < 1 {
				return s, ErrPadding
			}
			s.Padded = true
			s.PadLen = int(p[0])
			p = p[1:]
		}
		if len(p) < 4 {
			return s, ErrFrameSize
		}
		s.Promise = binary.BigEndian.Uint32(p) & 0x7fffffff
		p = p[4:]
		if s.PadLen > len(p) {
			return s, ErrPadding
		}
		s.Body = p[:len(p)-s.PadLen]
	case TPing:
		s.Ack = f.Has(FAck)
		if len(p) != 8 {
			return s, ErrFrameSize
		}
		s.Body = p
	case TGoAway:
		if len(p) < 8 {
			return s, ErrFrameSize
		}
		s.Last = binary.BigEndian.Uint32(p) & 0x7fffffff
		s.Code = binary.BigEndian.Uint32(p[4:])
		s.Body = p[8:]
	case TWindowUpdate:
		if len(p) != 4 {
			return s, ErrFrameSize
		}
		s.Inc = binary.BigEndian.Uint32(p) & 0x7fffffff
	case TContinuation:
		s.EndHeaders = f.Has(FEndHeaders)
		s.Body = p
	default:
		s.Body = p
	}
	return s, nil
}

// Equal compares the observable fields of two frames of the same type.
func (s Sem) Equal(o Sem) bool {
	if s.Type != o.Type || s.Stream != o.Stream || s.EndStream != o.EndStream || s.EndHeaders != o.EndHeaders || s.Ack != o.Ack ||
		s.HasPrio != o.HasPrio || s.Code != o.Code || s.Last != o.Last || s.Inc != o.Inc || s.Promise != o.Promise || !bytes.Equal(s.Body, o.Body) {
		return false
	}
	if s.HasPrio || s.Type == TPriority {
		if s.Dep != o.Dep || s.Weight != o.Weight || s.Excl != o.Excl {
			return false
		}
	}
	if len(s.Settings) != len(o.Settings) {
		return false
	}
	for i := range s.Settings {
		if s.Settings[i] != o.Settings[i] {
			return false
		}
	}
	return true
}

// Variant are the degrees of freedom a writer has that do not change meaning.
type Variant struct {
	Reserved  bool  // set the reserved bit of the stream id
	ExtraFlag uint8 // undefined flag bits to set
	PadFill   byte  // content of padding octets (receivers must ignore it)
	InnerR    bool  // set the reserved bit of a 31-bit field inside the payload (GOAWAY last-stream-id, WINDOW_UPDATE increment, PUSH_PROMISE promised id)
}

// Raw builds the wire frame with meaning s.
func Raw(s Sem, v Variant) Frame {
	var f Frame
	pad := -1
	if s.Padded {
		pad = s.PadLen
	}
	switch s.Type {
	case TData:
		f = Data(s.Stream, s.Body, s.EndStream, pad)
	case THeaders:
		f = Headers(s.Stream, s.Body, HeadersOpt{EndStream: s.EndStream, EndHeaders: s.EndHeaders, Pad: pad, Prio: s.HasPrio, Dep: s.Dep, Excl: s.Excl, Weight: s.Weight})
	case TPriority:
		f = Priority(s.Stream, s.Dep, s.Excl, s.Weight)
	case TRstStream:
		f = RstStream(s.Stream, s.Code)
	case TSettings:
		f = Settings(s.Settings...)
		if s.Ack {
			f.Flags |= FAck
		}
	case TPushPromise:
		f = Frame{Type: TPushPromise, Stream: s.Stream}
		var p []byte
		if pad >= 0 {
			f.Flags |= FPadded
			p = append(p, byte(pad))
		}
		p = append(p, u32(s.Promise)...)
		p = append(p, s.Body...)
		if pad > 0 {
			p = append(p, make([]byte, pad)...)
		}
		if s.EndHeaders {
			f.Flags |= FEndHeaders
		}
		f.Payload = p
	case TPing:
		var d [8]byte
		copy(d[:], s.Body)
		f = Ping(s.Ack, d)
	case TGoAway:
		f = GoAway(s.Last, s.Code, string(s.Body))
	case TWindowUpdate:
		f = WindowUpdate(s.Stream, s.Inc)
	case TContinuation:
		f = Continuation(s.Stream, s.Body, s.EndHeaders)
	default:
		f = Frame{Type: s.Type, Stream: s.Stream, Payload: s.Body}
	}
	if v.InnerR {
		switch s.Type {
		case TGoAway, TWindowUpdate:
			f.Payload[0] |= 0x80
		case TPushPromise:
			if s.Padded {
				f.Payload[1] |= 0x80
			} else {
				f.Payload[0] |= 0x80
			}
		}
	}
	f.Stream = s.Stream
	f.R = v.Reserved
	f.Flags |= v.ExtraFlag
	if v.PadFill != 0 && s.Padded && s.PadLen > 0 {
		for i := len(f.Payload) - s.PadLen; i < len(f.Payload); i++ {
			f.Payload[i] = v.PadFill
		}
	}
	return f
}

// DefinedFlags are the flag bits RFC 7540 defines per type.
func DefinedFlags(t uint8) uint8 {
	switch t {
	case TData:
		return FEndStream | FPadded
	case THeaders:
		return FEndStream | FEndHeaders | FPadded | FPriority
	case TSettings, TPing:
		return FAck
	case TPushPromise:
		return FEndHeaders | FPadded
	case TContinuation:
		return FEndHeaders
	}
	return 0
}
