// Package peer is the independent HTTP/2 peer used by the harnesses: a raw
// frame builder/parser written from RFC 7540 (no code shared with dgrr/http2)
// and an HPACK encoder whose every choice is explicit. Header blocks coming
// from the implementation are decoded with golang.org/x/net/http2/hpack.
package peer

import (
	"encoding/binary"
	"fmt"
	"strings"
)

const (
	TData         = 0
	THeaders      = 1
	TPriority     = 2
	TRstStream    = 3
	TSettings     = 4
	TPushPromise  = 5
	TPing         = 6
	TGoAway       = 7
	TWindowUpdate = 8
	TContinuation = 9

	FEndStream  = 0x1
	FAck        = 0x1
	FEndHeaders = 0x4
	FPadded     = 0x8
	FPriority   = 0x20
)

var Preface = []byte("PRI * HTTP/2.0\r\n\r\nSM\r\n\r\n")

var typeNames = []string{"DATA", "HEADERS", "PRIORITY", "RST_STREAM", "SETTINGS", "PUSH_PROMISE", "PING", "GOAWAY", "WINDOW_UPDATE", "CONTINUATION"}

func TypeName(t uint8) string {
	if int(t) < len(typeNames) {
		return typeNames[t]
	}
	return fmt.Sprintf("TYPE_%#x", t)
}

var codeNames = []string{"NO_ERROR", "PROTOCOL_ERROR", "INTERNAL_ERROR", "FLOW_CONTROL_ERROR", "SETTINGS_TIMEOUT", "STREAM_CLOSED", "FRAME_SIZE_ERROR", "REFUSED_STREAM", "CANCEL", "COMPRESSION_ERROR", "CONNECT_ERROR", "ENHANCE_YOUR_CALM", "INADEQUATE_SECURITY", "HTTP_1_1_REQUIRED"}

func CodeName(c uint32) string {
	if int(c) < len(codeNames) {
		return codeNames[c]
	}
	return fmt.Sprintf("CODE_%#x", c)
}

// Frame is a raw frame.
type Frame struct {
	Type    uint8
	Flags   uint8
	Stream  uint32
	Payload []byte
	R       bool // reserved bit of the stream id as seen on the wire
}

func (f Frame) Has(fl uint8) bool { return f.Flags&fl == fl }

func (f Frame) String() string {
	var fl []string
	switch f.Type {
	case TData:
		if f.Has(FEndStream) {
			fl = append(fl, "ES")
		}
		if f.Has(FPadded) {
			fl = append(fl, "PAD")
		}
	case THeaders, TContinuation, TPushPromise:
		if f.Has(FEndStream) && f.Type == THeaders {
			fl = append(fl, "ES")
		}
		if f.Has(FEndHeaders) {
			fl = append(fl, "EH")
		}
		if f.Has(FPadded) && f.Type != TContinuation {
			fl = append(fl, "PAD")
		}
		if f.Has(FPriority) && f.Type == THeaders {
			fl = append(fl, "PRI")
		}
	case TSettings, TPing:
		if f.Has(FAck) {
			fl = append(fl, "ACK")
		}
	}
	extra := ""
	switch f.Type {
	case TRstStream:
		if len(f.Payload) == 4 {
			extra = " " + CodeName(binary.BigEndian.Uint32(f.Payload))
		}
	case TGoAway:
		if len(f.Payload) >= 8 {
			extra = fmt.Sprintf(" last=%d %s", binary.BigEndian.Uint32(f.Payload)&0x7fffffff, CodeName(binary.BigEndian.Uint32(f.Payload[4:])))
		}
	case TWindowUpdate:
		if len(f.Payload) == 4 {
			extra = fmt.Sprintf(" +%d", binary.BigEndian.Uint32(f.Payload)&0x7fffffff)
		}
	}
	return fmt.Sprintf("%s[%d]%s len=%d%s", TypeName(f.Type), f.Stream, "{"+strings.Join(fl, ",")+"}", len(f.Payload), extra)
}

// Append serialises f.
func (f Frame) Append(dst []byte) []byte {
	n := len(f.Payload)
	dst = append(dst, byte(n>>16), byte(n>>8), byte(n), f.Type, f.Flags)
	id := f.Stream & 0x7fffffff
	if f.R {
		id |= 0x80000000
	}
	dst = binary.BigEndian.AppendUint32(dst, id)
	return append(dst, f.Payload...)
}

func (f Frame) Bytes() []byte { return f.Append(nil) }

// RawHeader builds a 9-byte header with an arbitrary length field.
func RawHeader(length int, typ, flags uint8, stream uint32) []byte {
	b := []byte{byte(length >> 16), byte(length >> 8), byte(length), typ, flags}
	return binary.BigEndian.AppendUint32(b, stream)
}

// Parse splits b into whole frames; rest is what is left (an incomplete frame).
func Parse(b []byte) (frames []Frame, rest []byte) {
	for len(b) >= 9 {
		n := int(b[0])<<16 | int(b[1])<<8 | int(b[2])
		if len(b) < 9+n {
			break
		}
		id := binary.BigEndian.Uint32(b[5:9])
		frames = append(frames, Frame{Type: b[3], Flags: b[4], Stream: id & 0x7fffffff, R: id>>31 == 1, Payload: append([]byte(nil), b[9:9+n]...)})
		b = b[9+n:]
	}
	return frames, b
}

func u32(v uint32) []byte { return binary.BigEndian.AppendUint32(nil, v) }

// Setting is one SETTINGS parameter.
type Setting struct {
	ID  uint16
	Val uint32
}

const (
	SHeaderTableSize      = 1
	SEnablePush           = 2
	SMaxConcurrentStreams = 3
	SInitialWindowSize    = 4
	SMaxFrameSize         = 5
	SMaxHeaderListSize    = 6
)

func Settings(ss ...Setting) Frame {
	var p []byte
	for _, s := range ss {
		p = binary.BigEndian.AppendUint16(p, s.ID)
		p = binary.BigEndian.AppendUint32(p, s.Val)
	}
	return Frame{Type: TSettings, Payload: p}
}

func ParseSettings(p []byte) []Setting {
	var out []Setting
	for len(p) >= 6 {
		out = append(out, Setting{binary.BigEndian.Uint16(p), binary.BigEndian.Uint32(p[2:])})
		p = p[6:]
	}
	return out
}

func SettingsAck() Frame { return Frame{Type: TSettings, Flags: FAck} }

func Ping(ack bool, data [8]byte) Frame {
	f := Frame{Type: TPing, Payload: data[:]}
	if ack {
		f.Flags = FAck
	}
	return f
}

func WindowUpdate(stream uint32, inc uint32) Frame {
	return Frame{Type: TWindowUpdate, Stream: stream, Payload: u32(inc)}
}

func RstStream(stream uint32, code uint32) Frame {
	return Frame{Type: TRstStream, Stream: stream, Payload: u32(code)}
}

func GoAway(last uint32, code uint32, debug string) Frame {
	return Frame{Type: TGoAway, Payload: append(append(u32(last), u32(code)...), debug...)}
}

func Priority(stream, dep uint32, excl bool, weight uint8) Frame {
	d := dep
	if excl {
		d |= 0x80000000
	}
	return Frame{Type: TPriority, Stream: stream, Payload: append(u32(d), weight)}
}

// HeadersOpt are the optional parts of a HEADERS frame.
type HeadersOpt struct {
	EndStream  bool
	EndHeaders bool
	Pad        int // <0: not padded; >=0 pad length
	Prio       bool
	Dep        uint32
	Excl       bool
	Weight     uint8
}

func Headers(stream uint32, block []byte, o HeadersOpt) Frame {
	f := Frame{Type: THeaders, Stream: stream}
	if o.EndStream {
		f.Flags |= FEndStream
	}
	if o.EndHeaders {
		f.Flags |= FEndHeaders
	}
	var p []byte
	if o.Pad >= 0 {
		f.Flags |= FPadded
		p = append(p, byte(o.Pad))
	}
	if o.Prio {
		f.Flags |= FPriority
		d := o.Dep
		if o.Excl {
			d |= 0x80000000
		}
		p = append(p, u32(d)...)
		p = append(p, o.Weight)
	}
	p = append(p, block...)
	if o.Pad > 0 {
		p = append(p, make([]byte, o.Pad)...)
	}
	f.Payload = p
	return f
}

func Continuation(stream uint32, block []byte, endHeaders bool) Frame {
	f := Frame{Type: TContinuation, Stream: stream, Payload: append([]byte(nil), block...)}
	if endHeaders {
		f.Flags |= FEndHeaders
	}
	return f
}

// Data builds a DATA frame; pad < 0 means not padded.
func Data(stream uint32, data []byte, endStream bool, pad int) Frame {
	f := Frame{Type: TData, Stream: stream}
	if endStream {
		f.Flags |= FEndStream
	}
	var p []byte
	if pad >= 0 {
		f.Flags |= FPadded
		p = append(p, byte(pad))
	}
	p = append(p, data...)
	if pad > 0 {
		p = append(p, make([]byte, pad)...)
	}
	f.Payload = p
	return f
}

// DataPayload strips padding from a DATA frame read from the implementation.
// ok is false if the padding is invalid.
func DataPayload(f Frame) (data []byte, ok bool) {
	p := f.Payload
	if f.Has(FPadded) {
		if len(p) < 1 || int(p[0]) > len(p)-1 {
			return nil, false
		}
		p = p[1 : len(p)-int(p[0])]
	}
	return p, true
}

// HeaderBlockFragment strips padding and priority from a HEADERS frame.
func HeaderBlockFragment(f Frame) (frag []byte, ok bool) {
	p := f.Payload
	if f.Type == TContinuation {
		return p, true
	}
	pad := 0
	if f.Has(FPadded) {
		if len(p) < 1 {
			return nil, false
		}
		pad = int(p[0])
		p = p[1:]
	}
	if f.Type == THeaders && f.Has(FPriority) {
		if len(p) < 5 {
			return nil, false
		}
		p = p[5:]
	}
	if f.Type == TPushPromise {
		if len(p) < 4 {
			return nil, false
		}
		p = p[4:]
	}
	if pad > len(p) {
		return nil, false
	}
	return p[:len(p)-pad], true
}
