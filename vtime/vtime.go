// Package vtime replaces "time": values and arithmetic are the real ones, the
// clock and every timer are virtual and owned by vsched.
package vtime

import (
	"time"

	"verif/vsched"
)

type (
	Time       = time.Time
	Duration   = time.Duration
	Month      = time.Month
	Weekday    = time.Weekday
	Location   = time.Location
	ParseError = time.ParseError
)

const (
	Nanosecond  = time.Nanosecond
	Microsecond = time.Microsecond
	Millisecond = time.Millisecond
	Second      = time.Second
	Minute      = time.Minute
	Hour        = time.Hour

	RFC1123  = time.RFC1123
	RFC3339  = time.RFC3339
	RFC822   = time.RFC822
	Kitchen  = time.Kitchen
	DateTime = time.DateTime
)

var (
	UTC   = time.UTC
	Local = time.Local
)

//go:norace
func Unix(sec, nsec int64) Time { return time.Unix(sec, nsec) }

//go:norace
func UnixMilli(ms int64) Time { return time.UnixMilli(ms) }

//go:norace
func Date(y int, m Month, d, h, mi, s, ns int, loc *Location) Time {
	return time.Date(y, m, d, h, mi, s, ns, loc)
}

//go:norace
func Parse(l, v string) (Time, error) { return time.Parse(l, v) }

//go:norace
func ParseDuration(s string) (Duration, error) { return time.ParseDuration(s) }

//go:norace
func Now() Time { return vsched.Now() }

//go:norace
func Since(t Time) Duration { return Now().Sub(t) }

//go:norace
func Until(t Time) Duration { return t.Sub(Now()) }

// Timer mirrors time.Timer.
type Timer struct {
	C <-chan Time
	t *vsched.Timer
}

//go:norace
func NewTimer(d Duration) *Timer {
	t := vsched.NewTimer(d, nil, 0)
	return &Timer{C: t.C, t: t}
}

//go:norace
func AfterFunc(d Duration, f func()) *Timer {
	return &Timer{t: vsched.NewTimer(d, f, 0)}
}

//go:norace
func After(d Duration) <-chan Time { return vsched.NewTimer(d, nil, 0).C }

//go:norace
func (t *Timer) Stop() bool {
	if t.t == nil {
		panic("time: Stop called on uninitialized Timer")
	}
	return t.t.Stop()
}

//go:norace
func (t *Timer) Reset(d Duration) bool {
	if t.t == nil {
		panic("time: Reset called on uninitialized Timer")
	}
	return t.t.Reset(d)
}

// Ticker mirrors time.Ticker.
type Ticker struct {
	C <-chan Time
	t *vsched.Timer
}

//go:norace
func NewTicker(d Duration) *Ticker {
	if d <= 0 {
		panic("non-positive interval for NewTicker")
	}
	t := vsched.NewTimer(d, nil, d)
	return &Ticker{C: t.C, t: t}
}

//go:norace
func (t *Ticker) Stop() { t.t.Stop() }

//go:norace
func (t *Ticker) Reset(d Duration) {
	if d <= 0 {
		panic("non-positive interval for Ticker.Reset")
	}
	t.t.Reset(d)
}

//go:norace
func Tick(d Duration) <-chan Time { return NewTicker(d).C }

// Sleep parks the caller until the driver fires its timer.
//
//go:norace
func Sleep(d Duration) {
	if d <= 0 {
		return
	}
	vsched.Recv(After(d))
}
