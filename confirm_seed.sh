#!/bin/bash
# confirm_seed.sh <worktree> <seed-id>: re-confirm a sub-agent's seeded change in its scratch worktree
# (demo fails with the change, passes without; repository suite passes with the change) and store it
# under /verif/seeded/<seed-id>/ (patch.diff, demo, confirm.log). meta.json is written by hand afterwards.
wt="$1"; id="$2"
export GOFLAGS=-mod=mod GOPROXY=off
dst=/verif/seeded/$id; mkdir -p $dst
cd "$wt" || exit 2
git diff -- . ':(exclude)seed_demo_test.go' > $dst/patch.diff
cp seed_demo_test.go $dst/seed_demo_test.go.txt
{
echo "== files changed"; git diff --stat
echo "== demo WITH change (expect FAIL)"
go test -vet=off -count=1 -timeout 5m -run 'TestSeedDemo$' . 2>&1 | tail -5; 
echo "== demo WITHOUT change (expect ok)"
git apply -R $dst/patch.diff
go test -vet=off -count=1 -timeout 5m -run 'TestSeedDemo$' . 2>&1 | tail -3
git apply $dst/patch.diff
echo "== suite WITH change (expect ok; flaky under load: TestStressManyClients, TestClientStreamedBodyDoesNotBuffer)"
go build ./... && go test -vet=off -count=1 -timeout 25m -skip 'TestSeedDemo$' ./... 2>&1 | grep -v "^\s*$" | grep -a "^ok\|^FAIL\|^--- FAIL\|panic" | head
} > $dst/confirm.log 2>&1
echo "confirmed $id -> $dst/confirm.log"
