// Package vatomic replaces "sync/atomic": each operation is a scheduling
// point followed by the real atomic operation on the real address (so the race
// detector sees the program's own synchronisation).
package vatomic

import (
	"sync/atomic"
	"unsafe"

	"verif/vsched"
)

var op = vsched.Always("atomic")

//go:norace
func pt() { vsched.PointOp(op) }

//go:norace
func LoadInt32(a *int32) int32 { pt(); return atomic.LoadInt32(a) }

//go:norace
func LoadInt64(a *int64) int64 { pt(); return atomic.LoadInt64(a) }

//go:norace
func LoadUint32(a *uint32) uint32 { pt(); return atomic.LoadUint32(a) }

//go:norace
func LoadUint64(a *uint64) uint64 { pt(); return atomic.LoadUint64(a) }

//go:norace
func LoadUintptr(a *uintptr) uintptr { pt(); return atomic.LoadUintptr(a) }

//go:norace
func LoadPointer(a *unsafe.Pointer) unsafe.Pointer { pt(); return atomic.LoadPointer(a) }

//go:norace
func StoreInt32(a *int32, v int32) { pt(); atomic.StoreInt32(a, v) }

//go:norace
func StoreInt64(a *int64, v int64) { pt(); atomic.StoreInt64(a, v) }

//go:norace
func StoreUint32(a *uint32, v uint32) { pt(); atomic.StoreUint32(a, v) }

//go:norace
func StoreUint64(a *uint64, v uint64) { pt(); atomic.StoreUint64(a, v) }

//go:norace
func StoreUintptr(a *uintptr, v uintptr) { pt(); atomic.StoreUintptr(a, v) }

//go:norace
func StorePointer(a *unsafe.Pointer, v unsafe.Pointer) { pt(); atomic.StorePointer(a, v) }

//go:norace
func AddInt32(a *int32, d int32) int32 { pt(); return atomic.AddInt32(a, d) }

//go:norace
func AddInt64(a *int64, d int64) int64 { pt(); return atomic.AddInt64(a, d) }

//go:norace
func AddUint32(a *uint32, d uint32) uint32 { pt(); return atomic.AddUint32(a, d) }

//go:norace
func AddUint64(a *uint64, d uint64) uint64 { pt(); return atomic.AddUint64(a, d) }

//go:norace
func AddUintptr(a *uintptr, d uintptr) uintptr { pt(); return atomic.AddUintptr(a, d) }

//go:norace
func SwapInt32(a *int32, v int32) int32 { pt(); return atomic.SwapInt32(a, v) }

//go:norace
func SwapInt64(a *int64, v int64) int64 { pt(); return atomic.SwapInt64(a, v) }

//go:norace
func SwapUint32(a *uint32, v uint32) uint32 { pt(); return atomic.SwapUint32(a, v) }

//go:norace
func SwapUint64(a *uint64, v uint64) uint64 { pt(); return atomic.SwapUint64(a, v) }

//go:norace
func CompareAndSwapInt32(a *int32, o, n int32) bool { pt(); return atomic.CompareAndSwapInt32(a, o, n) }

//go:norace
func CompareAndSwapInt64(a *int64, o, n int64) bool { pt(); return atomic.CompareAndSwapInt64(a, o, n) }

//go:norace
func CompareAndSwapUint32(a *uint32, o, n uint32) bool {
	pt()
	return atomic.CompareAndSwapUint32(a, o, n)
}

//go:norace
func CompareAndSwapUint64(a *uint64, o, n uint64) bool {
	pt()
	return atomic.CompareAndSwapUint64(a, o, n)
}

//go:norace
func CompareAndSwapPointer(a *unsafe.Pointer, o, n unsafe.Pointer) bool {
	pt()
	return atomic.CompareAndSwapPointer(a, o, n)
}

type Int32 struct{ v atomic.Int32 }

//go:norace
func (x *Int32) Load() int32 { pt(); return x.v.Load() }

//go:norace
func (x *Int32) Store(v int32) { pt(); x.v.Store(v) }

//go:norace
func (x *Int32) Add(d int32) int32 { pt(); return x.v.Add(d) }

//go:norace
func (x *Int32) Swap(v int32) int32 { pt(); return x.v.Swap(v) }

//go:norace
func (x *Int32) CompareAndSwap(o, n int32) bool { pt(); return x.v.CompareAndSwap(o, n) }

type Int64 struct{ v atomic.Int64 }

//go:norace
func (x *Int64) Load() int64 { pt(); return x.v.Load() }

//go:norace
func (x *Int64) Store(v int64) { pt(); x.v.Store(v) }

//go:norace
func (x *Int64) Add(d int64) int64 { pt(); return x.v.Add(d) }

//go:norace
func (x *Int64) Swap(v int64) int64 { pt(); return x.v.Swap(v) }

//go:norace
func (x *Int64) CompareAndSwap(o, n int64) bool { pt(); return x.v.CompareAndSwap(o, n) }

type Uint32 struct{ v atomic.Uint32 }

//go:norace
func (x *Uint32) Load() uint32 { pt(); return x.v.Load() }

//go:norace
func (x *Uint32) Store(v uint32) { pt(); x.v.Store(v) }

//go:norace
func (x *Uint32) Add(d uint32) uint32 { pt(); return x.v.Add(d) }

//go:norace
func (x *Uint32) Swap(v uint32) uint32 { pt(); return x.v.Swap(v) }

//go:norace
func (x *Uint32) CompareAndSwap(o, n uint32) bool { pt(); return x.v.CompareAndSwap(o, n) }

type Uint64 struct{ v atomic.Uint64 }

//go:norace
func (x *Uint64) Load() uint64 { pt(); return x.v.Load() }

//go:norace
func (x *Uint64) Store(v uint64) { pt(); x.v.Store(v) }

//go:norace
func (x *Uint64) Add(d uint64) uint64 { pt(); return x.v.Add(d) }

//go:norace
func (x *Uint64) Swap(v uint64) uint64 { pt(); return x.v.Swap(v) }

//go:norace
func (x *Uint64) CompareAndSwap(o, n uint64) bool { pt(); return x.v.CompareAndSwap(o, n) }

type Bool struct{ v atomic.Bool }

//go:norace
func (x *Bool) Load() bool { pt(); return x.v.Load() }

//go:norace
func (x *Bool) Store(v bool) { pt(); x.v.Store(v) }

//go:norace
func (x *Bool) Swap(v bool) bool { pt(); return x.v.Swap(v) }

//go:norace
func (x *Bool) CompareAndSwap(o, n bool) bool { pt(); return x.v.CompareAndSwap(o, n) }

type Pointer[T any] struct{ v atomic.Pointer[T] }

//go:norace
func (x *Pointer[T]) Load() *T { pt(); return x.v.Load() }

//go:norace
func (x *Pointer[T]) Store(v *T) { pt(); x.v.Store(v) }

//go:norace
func (x *Pointer[T]) Swap(v *T) *T { pt(); return x.v.Swap(v) }

//go:norace
func (x *Pointer[T]) CompareAndSwap(o, n *T) bool { pt(); return x.v.CompareAndSwap(o, n) }

type Value struct{ v atomic.Value }

//go:norace
func (x *Value) Load() any { pt(); return x.v.Load() }

//go:norace
func (x *Value) Store(v any) { pt(); x.v.Store(v) }

//go:norace
func (x *Value) Swap(v any) any { pt(); return x.v.Swap(v) }

//go:norace
func (x *Value) CompareAndSwap(o, n any) bool { pt(); return x.v.CompareAndSwap(o, n) }
