// check is the single driver binary: `check <Cnn> --tier quick|thorough`,
// `check replay <file>`. It is always built through the vrewrite overlay from
// the current working tree of /repo (see run.sh).
package main

import (
	"verif/checks"
	"verif/fw"
)

func main() {
	checks.DescribeSpxFamilies()
	fw.Main()
}
