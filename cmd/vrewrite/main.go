// vrewrite generates the build overlay that puts every source of
// nondeterminism of dgrr/http2 behind a seam owned by verif/vsched.
//
// It is a general source-to-source pass (type-checked with go/types, export
// data from `go list -export`), not a list of patched lines, so it keeps
// working when /repo is edited:
//
//	import "sync"           -> verif/vsync      import "sync/atomic" -> verif/vatomic
//	import "time"           -> verif/vtime      import "crypto/tls"  -> verif/vtls
//	fastrand, crypto/rand (http2utils only) -> verif/vrand
//	go f(x)                 -> vsched.Go(func(){...})
//	ch <- v, <-ch, v,ok:=<-ch, close(ch), make(chan T,n) -> vsched.Send/Recv/Recv2/Close/MakeChan
//	select {...}            -> switch vsched.Select(hasDefault, cases...) {...}
//	for k,v := range <map>  -> range vsched.RangeMap(m)   (ascending key order)
//	for v := range <chan>   -> range vsched.RangeChan(ch)
//
// Usage: vrewrite -repo /repo -out /verif/.build/ov -inject /verif/inject -tags verif
package main

import (
	"bytes"
	"encoding/json"
	"flag"
	"fmt"
	"go/ast"
	"go/format"
	"go/importer"
	"go/parser"
	"go/token"
	"go/types"
	"io"
	"os"
	"os/exec"
	"path/filepath"
	"reflect"
	"strconv"
	"strings"
)

type listPkg struct {
	ImportPath string
	Dir        string
	GoFiles    []string
	Export     string
	Standard   bool
}

var importMap = map[string]struct{ path, name string }{
	"sync":        {"verif/vsync", "sync"},
	"sync/atomic": {"verif/vatomic", "atomic"},
	"time":        {"verif/vtime", "time"},
	"crypto/tls":  {"verif/vtls", "tls"},
}

var utilsImportMap = map[string]struct{ path, name string }{
	"github.com/valyala/fastrand": {"verif/vrand", "fastrand"},
	"crypto/rand":                 {"verif/vrand", "rand"},
}

func die(format string, a ...any) {
	fmt.Fprintf(os.Stderr, "vrewrite: "+format+"\n", a...)
	os.Exit(2)
}

func main() {
	repo := flag.String("repo", "/repo", "")
	out := flag.String("out", "", "")
	inject := flag.String("inject", "", "")
	tags := flag.String("tags", "verif", "")
	plain := flag.Bool("plain", false, "no rewriting: overlay only adds the inject files")
	flag.Parse()
	if *out == "" {
		die("-out required")
	}
	os.RemoveAll(*out)
	if err := os.MkdirAll(*out, 0o755); err != nil {
		die("%v", err)
	}

	targets := []string{"github.com/dgrr/http2", "github.com/dgrr/http2/http2utils"}
	cmd := exec.Command("go", append([]string{"list", "-json", "-export", "-deps", "-tags", *tags}, targets...)...)
	cmd.Stderr = os.Stderr
	raw, err := cmd.Output()
	if err != nil {
		die("go list failed (the repository does not build?): %v", err)
	}
	pkgs := map[string]*listPkg{}
	dec := json.NewDecoder(bytes.NewReader(raw))
	for {
		var p listPkg
		if err := dec.Decode(&p); err == io.EOF {
			break
		} else if err != nil {
			die("go list output: %v", err)
		}
		pp := p
		pkgs[p.ImportPath] = &pp
	}

	overlay := map[string]string{}
	fset := token.NewFileSet()
	imp := importer.ForCompiler(fset, "gc", func(path string) (io.ReadCloser, error) {
		p := pkgs[path]
		if p == nil || p.Export == "" {
			return nil, fmt.Errorf("no export data for %s", path)
		}
		return os.Open(p.Export)
	})

	for _, tp := range targets {
		p := pkgs[tp]
		if p == nil {
			die("package %s not listed", tp)
		}
		if !strings.HasPrefix(p.Dir, *repo) {
			die("package %s resolves to %s, not under %s", tp, p.Dir, *repo)
		}
		var files []*ast.File
		for _, f := range p.GoFiles {
			af, err := parser.ParseFile(fset, filepath.Join(p.Dir, f), nil, parser.ParseComments|parser.SkipObjectResolution)
			if err != nil {
				die("parse: %v", err)
			}
			files = append(files, af)
		}
		info := &types.Info{Types: map[ast.Expr]types.TypeAndValue{}, Uses: map[*ast.Ident]types.Object{}, Defs: map[*ast.Ident]types.Object{}}
		conf := types.Config{Importer: imp, Error: func(err error) {}}
		if _, err := conf.Check(tp, fset, files, info); err != nil {
			die("type check %s: %v", tp, err)
		}
		sub := filepath.Join(*out, strings.ReplaceAll(strings.TrimPrefix(tp, "github.com/dgrr/"), "/", "_"))
		os.MkdirAll(sub, 0o755)
		for i, af := range files {
			if !*plain {
				r := &rw{info: info, fset: fset, utils: strings.HasSuffix(tp, "http2utils")}
				r.file(af)
			}
			stripComments(af)
			var buf bytes.Buffer
			if err := format.Node(&buf, fset, af); err != nil {
				die("print %s: %v", p.GoFiles[i], err)
			}
			dst := filepath.Join(sub, p.GoFiles[i])
			if err := os.WriteFile(dst, buf.Bytes(), 0o644); err != nil {
				die("%v", err)
			}
			overlay[filepath.Join(p.Dir, p.GoFiles[i])] = dst
		}
	}

	if *inject != "" {
		ents, _ := os.ReadDir(*inject)
		for _, e := range ents {
			if strings.HasSuffix(e.Name(), ".go.txt") {
				name := "zz_verif_" + strings.TrimSuffix(e.Name(), ".txt")
				overlay[filepath.Join(pkgs[targets[0]].Dir, name)] = filepath.Join(*inject, e.Name())
			}
		}
	}
	body, _ := json.MarshalIndent(map[string]any{"Replace": overlay}, "", " ")
	if err := os.WriteFile(filepath.Join(*out, "overlay.json"), body, 0o644); err != nil {
		die("%v", err)
	}
}

type rw struct {
	info     *types.Info
	fset     *token.FileSet
	utils    bool
	useSched bool
	tmp      int
}

func (r *rw) fresh(p string) *ast.Ident {
	r.tmp++
	return ast.NewIdent(fmt.Sprintf("vr%s%d", p, r.tmp))
}

func sel(pkg, name string) ast.Expr {
	return &ast.SelectorExpr{X: ast.NewIdent(pkg), Sel: ast.NewIdent(name)}
}

func (r *rw) sched(name string, args ...ast.Expr) *ast.CallExpr {
	r.useSched = true
	return &ast.CallExpr{Fun: sel("vsched", name), Args: args}
}

func (r *rw) file(f *ast.File) {
	// imports
	for _, is := range f.Imports {
		path, _ := strconv.Unquote(is.Path.Value)
		m, ok := importMap[path]
		if r.utils {
			m, ok = utilsImportMap[path]
		}
		if !ok {
			continue
		}
		is.Path.Value = strconv.Quote(m.path)
		if is.Name == nil {
			is.Name = ast.NewIdent(m.name)
		}
	}
	if r.utils {
		return
	}
	r.walk(reflect.ValueOf(f).Elem())
	if r.useSched {
		spec := &ast.ImportSpec{Name: ast.NewIdent("vsched"), Path: &ast.BasicLit{Kind: token.STRING, Value: strconv.Quote("verif/vsched")}}
		decl := &ast.GenDecl{Tok: token.IMPORT, Specs: []ast.Spec{spec}}
		f.Decls = append([]ast.Decl{decl}, f.Decls...)
		f.Imports = append(f.Imports, spec)
	}
}

var (
	exprType = reflect.TypeOf((*ast.Expr)(nil)).Elem()
	stmtType = reflect.TypeOf((*ast.Stmt)(nil)).Elem()
)

// walk visits every node slot reachable from v and replaces nodes in place.
func (r *rw) walk(v reflect.Value) {
	switch v.Kind() {
	case reflect.Interface:
		if v.IsNil() {
			return
		}
		switch v.Type() {
		case stmtType:
			s := v.Interface().(ast.Stmt)
			if ns := r.stmt(s); ns != nil {
				v.Set(reflect.ValueOf(ns))
			}
			return
		case exprType:
			e := v.Interface().(ast.Expr)
			if ne := r.expr(e); ne != nil {
				v.Set(reflect.ValueOf(ne))
			}
			return
		}
		r.walk(v.Elem())
	case reflect.Ptr:
		if v.IsNil() {
			return
		}
		switch v.Interface().(type) {
		case *ast.Object, *ast.Scope, *ast.CommentGroup, *ast.Comment:
			return
		}
		r.walk(v.Elem())
	case reflect.Struct:
		for i := 0; i < v.NumField(); i++ {
			r.walk(v.Field(i))
		}
	case reflect.Slice:
		for i := 0; i < v.Len(); i++ {
			r.walk(v.Index(i))
		}
	}
}

func (r *rw) children(n ast.Node) {
	r.walk(reflect.ValueOf(n).Elem())
}

func (r *rw) isChan(e ast.Expr) bool {
	t := r.info.TypeOf(e)
	if t == nil {
		return false
	}
	_, ok := t.Underlying().(*types.Chan)
	return ok
}

func (r *rw) isBuiltin(e ast.Expr, name string) bool {
	id, ok := e.(*ast.Ident)
	if !ok || id.Name != name {
		return false
	}
	_, ok = r.info.Uses[id].(*types.Builtin)
	return ok
}

// expr returns a replacement for e (children already rewritten), or nil.
func (r *rw) expr(e ast.Expr) ast.Expr {
	switch n := e.(type) {
	case *ast.UnaryExpr:
		r.children(n)
		if n.Op == token.ARROW {
			return r.sched("Recv", n.X)
		}
		return nil
	case *ast.CallExpr:
		isClose := r.isBuiltin(n.Fun, "close") && len(n.Args) == 1
		isMake := r.isBuiltin(n.Fun, "make") && len(n.Args) >= 1
		if r.isBuiltin(n.Fun, "recover") && len(n.Args) == 0 {
			// recover() -> vsched.NoteRecover(recover()): still called directly by the deferred function, and a
			// recovered panic is recorded whatever the code then does with it (log text, silence)
			return r.sched("NoteRecover", n)
		}
		var chanElem ast.Expr
		if isMake {
			if ct, ok := n.Args[0].(*ast.ChanType); ok && ct.Dir == ast.SEND|ast.RECV {
				chanElem = ct.Value
			} else if t := r.info.TypeOf(n.Args[0]); t != nil {
				if _, ok := t.Underlying().(*types.Chan); ok {
					// make(NamedChanType, n): leave it; lazily registered by the shim
				}
			}
		}
		r.children(n)
		if isClose {
			return r.sched("Close", n.Args[0])
		}
		if chanElem != nil {
			r.useSched = true
			size := ast.Expr(&ast.BasicLit{Kind: token.INT, Value: "0"})
			if len(n.Args) > 1 {
				size = n.Args[1]
			}
			return &ast.CallExpr{Fun: &ast.IndexExpr{X: sel("vsched", "MakeChan"), Index: chanElem}, Args: []ast.Expr{size}}
		}
		return nil
	}
	r.children(e)
	return nil
}

// stmt returns a replacement for s, or nil.
func (r *rw) stmt(s ast.Stmt) ast.Stmt {
	switch n := s.(type) {
	case *ast.SendStmt:
		r.children(n)
		return &ast.ExprStmt{X: r.sched("Send", n.Chan, n.Value)}
	case *ast.AssignStmt:
		// v, ok := <-ch
		if len(n.Lhs) == 2 && len(n.Rhs) == 1 {
			if u, ok := n.Rhs[0].(*ast.UnaryExpr); ok && u.Op == token.ARROW {
				r.walk(reflect.ValueOf(&u.X).Elem())
				for i := range n.Lhs {
					r.walk(reflect.ValueOf(&n.Lhs[i]).Elem())
				}
				n.Rhs[0] = r.sched("Recv2", u.X)
				return nil
			}
		}
		r.children(n)
		return nil
	case *ast.DeclStmt:
		// var v, ok = <-ch
		if gd, ok := n.Decl.(*ast.GenDecl); ok && gd.Tok == token.VAR {
			for _, sp := range gd.Specs {
				vs := sp.(*ast.ValueSpec)
				if len(vs.Names) == 2 && len(vs.Values) == 1 {
					if u, ok := vs.Values[0].(*ast.UnaryExpr); ok && u.Op == token.ARROW {
						r.walk(reflect.ValueOf(&u.X).Elem())
						vs.Values[0] = r.sched("Recv2", u.X)
						continue
					}
				}
				r.children(vs)
			}
			return nil
		}
		r.children(n)
		return nil
	case *ast.DeferStmt:
		// DeferStmt.Call is a *ast.CallExpr, not an ast.Expr slot: rewrite it here
		isClose := r.isBuiltin(n.Call.Fun, "close") && len(n.Call.Args) == 1
		r.children(n)
		if isClose {
			n.Call = r.sched("Close", n.Call.Args[0])
		}
		return nil
	case *ast.GoStmt:
		isClose := r.isBuiltin(n.Call.Fun, "close") && len(n.Call.Args) == 1
		r.children(n)
		if isClose {
			n.Call = r.sched("Close", n.Call.Args[0])
		}
		return r.goStmt(n)
	case *ast.RangeStmt:
		t := r.info.TypeOf(n.X)
		r.children(n)
		if t != nil {
			switch t.Underlying().(type) {
			case *types.Map:
				n.X = r.sched("RangeMap", n.X)
			case *types.Chan:
				n.X = r.sched("RangeChan", n.X)
			}
		}
		return nil
	case *ast.SelectStmt:
		return r.selectStmt(n, nil)
	case *ast.LabeledStmt:
		if ss, ok := n.Stmt.(*ast.SelectStmt); ok {
			return r.selectStmt(ss, n.Label)
		}
		r.children(n)
		return nil
	}
	r.children(s)
	return nil
}

func (r *rw) goStmt(n *ast.GoStmt) ast.Stmt {
	call := n.Call
	var pre []ast.Stmt
	fun := call.Fun
	if _, isLit := fun.(*ast.FuncLit); !isLit {
		f := r.fresh("f")
		pre = append(pre, &ast.AssignStmt{Lhs: []ast.Expr{f}, Tok: token.DEFINE, Rhs: []ast.Expr{fun}})
		fun = f
	}
	var args []ast.Expr
	for _, a := range call.Args {
		if _, ok := a.(*ast.BasicLit); ok {
			args = append(args, a)
			continue
		}
		t := r.fresh("a")
		pre = append(pre, &ast.AssignStmt{Lhs: []ast.Expr{t}, Tok: token.DEFINE, Rhs: []ast.Expr{a}})
		args = append(args, t)
	}
	inner := &ast.CallExpr{Fun: fun, Args: args, Ellipsis: call.Ellipsis}
	lit := &ast.FuncLit{Type: &ast.FuncType{Params: &ast.FieldList{}}, Body: &ast.BlockStmt{List: []ast.Stmt{&ast.ExprStmt{X: inner}}}}
	if fl, ok := call.Fun.(*ast.FuncLit); ok && len(call.Args) == 0 && (fl.Type.Results == nil || len(fl.Type.Results.List) == 0) {
		lit = fl
	}
	goCall := &ast.ExprStmt{X: r.sched("Go", lit)}
	if len(pre) == 0 {
		return goCall
	}
	return &ast.BlockStmt{List: append(pre, goCall)}
}

func (r *rw) selectStmt(n *ast.SelectStmt, label *ast.Ident) ast.Stmt {
	var pre []ast.Stmt
	var caseVars []ast.Expr
	var clauses []ast.Stmt
	hasDefault := false
	idx := 0
	for _, cs := range n.Body.List {
		cc := cs.(*ast.CommClause)
		// rewrite the body first
		for i := range cc.Body {
			r.walk(reflect.ValueOf(&cc.Body[i]).Elem())
		}
		if cc.Comm == nil {
			hasDefault = true
			clauses = append(clauses, &ast.CaseClause{List: nil, Body: cc.Body})
			continue
		}
		cv := r.fresh("c")
		var ctor ast.Expr
		var head []ast.Stmt
		switch c := cc.Comm.(type) {
		case *ast.SendStmt:
			r.walk(reflect.ValueOf(&c.Chan).Elem())
			r.walk(reflect.ValueOf(&c.Value).Elem())
			ctor = r.sched("SendCase", c.Chan, c.Value)
		case *ast.ExprStmt:
			u := unparen(c.X).(*ast.UnaryExpr)
			r.walk(reflect.ValueOf(&u.X).Elem())
			ctor = r.sched("RecvCase", u.X)
		case *ast.AssignStmt:
			u := unparen(c.Rhs[0]).(*ast.UnaryExpr)
			r.walk(reflect.ValueOf(&u.X).Elem())
			ctor = r.sched("RecvCase", u.X)
			for i := range c.Lhs {
				r.walk(reflect.ValueOf(&c.Lhs[i]).Elem())
			}
			get := "Get"
			if len(c.Lhs) == 2 {
				get = "Get2"
			}
			as := &ast.AssignStmt{Lhs: c.Lhs, Tok: c.Tok, Rhs: []ast.Expr{&ast.CallExpr{Fun: &ast.SelectorExpr{X: cv, Sel: ast.NewIdent(get)}}}}
			head = append(head, as)
			if c.Tok == token.DEFINE {
				// a variable declared in the comm clause may be unused in the body
				for _, l := range c.Lhs {
					if id, ok := l.(*ast.Ident); ok && id.Name != "_" {
						head = append(head, &ast.AssignStmt{Lhs: []ast.Expr{ast.NewIdent("_")}, Tok: token.ASSIGN, Rhs: []ast.Expr{ast.NewIdent(id.Name)}})
					}
				}
			}
		default:
			die("unsupported select comm clause %T", cc.Comm)
		}
		pre = append(pre, &ast.AssignStmt{Lhs: []ast.Expr{cv}, Tok: token.DEFINE, Rhs: []ast.Expr{ctor}})
		caseVars = append(caseVars, cv)
		clauses = append(clauses, &ast.CaseClause{
			List: []ast.Expr{&ast.BasicLit{Kind: token.INT, Value: strconv.Itoa(idx)}},
			Body: append(head, cc.Body...),
		})
		idx++
	}
	hd := "false"
	if hasDefault {
		hd = "true"
	} else {
		// keep the statement terminating where the select was (a select whose
		// clauses all return is a terminating statement; a switch needs a default)
		clauses = append(clauses, &ast.CaseClause{List: nil, Body: []ast.Stmt{
			&ast.ExprStmt{X: r.sched("Unreachable")},
			&ast.ExprStmt{X: &ast.CallExpr{Fun: ast.NewIdent("panic"), Args: []ast.Expr{&ast.BasicLit{Kind: token.STRING, Value: strconv.Quote("vsched: select returned no clause")}}}},
		}})
	}
	args := append([]ast.Expr{ast.NewIdent(hd)}, caseVars...)
	var sw ast.Stmt = &ast.SwitchStmt{Tag: r.sched("Select", args...), Body: &ast.BlockStmt{List: clauses}}
	if label != nil {
		sw = &ast.LabeledStmt{Label: label, Stmt: sw}
	}
	return &ast.BlockStmt{List: append(pre, sw)}
}

func unparen(e ast.Expr) ast.Expr {
	for {
		p, ok := e.(*ast.ParenExpr)
		if !ok {
			return e
		}
		e = p.X
	}
}

// stripComments drops every comment except directive comments (//go:...):
// new nodes carry no positions, and a free-floating comment printed in the
// middle of a rewritten statement could comment code out.
func stripComments(f *ast.File) {
	var keep []*ast.CommentGroup
	for _, cg := range f.Comments {
		var lines []*ast.Comment
		for _, c := range cg.List {
			if strings.HasPrefix(c.Text, "//go:") && !strings.HasPrefix(c.Text, "//go:build") {
				lines = append(lines, c)
			}
		}
		if len(lines) > 0 {
			cg.List = lines
			keep = append(keep, cg)
		}
	}
	f.Comments = keep
	f.Doc = nil
	ast.Inspect(f, func(n ast.Node) bool {
		switch d := n.(type) {
		case *ast.GenDecl:
			d.Doc = onlyKept(d.Doc, keep)
		case *ast.FuncDecl:
			d.Doc = onlyKept(d.Doc, keep)
		case *ast.Field:
			d.Doc, d.Comment = nil, nil
		case *ast.ValueSpec:
			d.Doc, d.Comment = nil, nil
		case *ast.TypeSpec:
			d.Doc, d.Comment = nil, nil
		case *ast.ImportSpec:
			d.Doc, d.Comment = nil, nil
		}
		return true
	})
}

func onlyKept(cg *ast.CommentGroup, keep []*ast.CommentGroup) *ast.CommentGroup {
	for _, k := range keep {
		if k == cg {
			return cg
		}
	}
	return nil
}
