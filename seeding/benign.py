import sys,json
wt, side = sys.argv[1], sys.argv[2]
ids = {'server':['C01','C06','C08','C09','C10','C13','C14','C17','C18','C20'], 'client':['C02','C07','C11','C12','C14','C18','C20','C03','C04','C05','C16']}[side]
props = "\n\n".join(open('/tmp/props/%s.json'%i).read() for i in ids)
print(f"""You are helping evaluate a verification framework for the Go library dgrr/http2 (HTTP/2 for fasthttp). The framework must NEVER raise an alarm on code for which the semantic properties below still hold. Your job: produce a set of 8 independent BENIGN variants of the library: each a small source change (a few lines) that CHANGES OBSERVABLE BEHAVIOUR (bytes on the wire, frame sizes/ordering/timing, error codes chosen, pooling/allocation pattern, internal scheduling, encodings chosen) but stays entirely WITHIN the latitude that RFC 7540/7541 and the property statements leave, so that every property below is still true. These are the kind of changes a maintainer makes as a refactor, tuning or alternative-but-legal protocol choice. A verification harness whose oracle is over-fitted to the current behaviour would wrongly flag them; that is what we want to find out.

Focus side: {side}.

Work ONLY inside your scratch git worktree: {wt} (a worktree of the library at its current HEAD). Do NOT read, list or touch /verif or /repo, or other directories under /tmp/wt, or /root/.vp. Do not commit.

Go environment (no network; use exactly this for every go command):
  export GOFLAGS=-mod=mod GOPROXY=off
(do NOT set GOSUMDB or GOTOOLCHAIN).

Examples of the kind of latitude meant (do not limit yourself to these; pick ones touching DIFFERENT mechanisms): DATA frames cut at a smaller size than the peer's maximum; WINDOW_UPDATE sent at a different threshold / per frame / also for stream windows in a different lump; choosing a different RFC-allowed error code, or a connection error where the RFC (and property C08) allows answering a stream error with a connection error of the same kind, or RST_STREAM vs ignoring a frame on a closed stream where both are allowed; HPACK encoder choosing Huffman / not indexing / literal names / emitting a redundant table size update at the start of a block; padding added to frames sent; SETTINGS sent in a different order or with extra (legal) parameters, ACK written before or after another queued frame where ordering is not constrained; END_STREAM carried on an empty DATA frame rather than on the last DATA frame with data (or vice versa); client starting at stream id 3 or skipping ids; not returning an object to a sync.Pool (letting GC take it) or allocating fresh instead of pooling; an extra goroutine hop or a buffered channel of a different capacity; answering PING at a different moment; sending GOAWAY with a larger (still truthful) last-stream-id; sending GOAWAY(NO_ERROR) before closing on idle timeout vs just closing (if the property allows), client sending RST_STREAM(CANCEL) in more situations, etc.

The properties that must remain TRUE under each variant (JSON):
{props}

For each variant i=1..8:
 - make the change from a clean tree (git checkout -- . between variants),
 - confirm `go build ./...` and that the existing suite still passes: `go test -vet=off -count=1 -timeout 25m ./...` (2-4 min; machine is shared, re-run a failing timing-sensitive test alone before blaming your change). If the suite's tests pin the old behaviour (fail because of the variant), drop that variant and choose another,
 - save it as /tmp/wt/benign-{side}/v<i>.diff (git diff) and /tmp/wt/benign-{side}/v<i>.txt (2-4 lines: what changes observably, and why each possibly affected property still holds — be rigorous: if you cannot argue a property still holds, do not use the variant).
Finish with `git checkout -- .` so the worktree is clean. Final answer: the list of variants (one line each) and the suite result for each.""")
