import sys,json
import os
pid, wt, prior = sys.argv[1], sys.argv[2], sys.argv[3:]
focus = os.environ.get('FOCUS','')
pf='/tmp/props/prior/%s.txt'%pid
if not prior and os.path.exists(pf):
    prior=[l for l in open(pf).read().split('\n') if l.strip()]
prop = open('/tmp/props/%s.json'%pid).read()
print(f"""You are helping evaluate a verification framework for the Go library dgrr/http2 (HTTP/2 for fasthttp). Your job: craft ONE realistic, subtle defect ("seeded change") in the library that BREAKS the semantic property below, while the library still compiles and its existing test suite still passes.

Work ONLY inside your own scratch git worktree: {wt}   (a worktree of the library at its current HEAD). Do NOT read, list or touch /verif or /repo, or any other directory under /tmp/wt; do not look at /root/.vp either. Do not commit anything; leave your change as an uncommitted working-tree modification plus new files.

Go environment (no network; use exactly this for every go command, nothing else):
  export GOFLAGS=-mod=mod GOPROXY=off
(do NOT set GOSUMDB or GOTOOLCHAIN, they break the toolchain switch here).

The property (JSON; 'anchors' points at the code that implements it — line numbers may have drifted a little):
{prop}

What I need from you:
1. Read the anchored code and understand how the property is maintained.
2. Make a change to the library's non-test source (a few lines; it must look like a plausible refactor/optimisation/bug a maintainer could introduce) such that the property is violated ONLY under something specific: a particular interleaving or order of events, a fault at a particular point, a multi-step sequence of operations, an unusual-but-legal input, a boundary value, or two cooperating sites that each look fine alone. NOT something ordinary use exposes at once. Do not touch *_test.go files of the repository and do not change exported API signatures.
3. The existing test suite must still pass with your change: run
     cd {wt} && go build ./... && go test -vet=off -count=1 -timeout 25m ./...
   (takes 2-4 minutes; other jobs share the machine, so if a timing-sensitive test fails once, re-run it alone with -run to see whether it is flaky without your change too — a test that fails BECAUSE of your change disqualifies the change; pick another).
4. Write a demonstration: a new test file {wt}/seed_demo_test.go (package http2; may use unexported identifiers, net.Pipe, golang.org/x/net/http2 and hpack which are in the module cache, etc.) with one test `TestSeedDemo` that FAILS with your change and PASSES without it (verify both: use `git diff > {wt}.seed.diff; git checkout <files>` then `git apply {wt}.seed.diff` to re-apply — NEVER `git stash`: the stash is shared by all worktrees of the repository and other agents are working in sibling worktrees). The demo must show the property itself being violated as an external observer would see it (wrong bytes on the wire / wrong value delivered / hang / panic / double ownership), deterministic enough to fail on every run.
5. Ideas already used by earlier seeds for this property — do something DIFFERENT in mechanism and in code location:
{chr(10).join('   - '+p for p in prior) if prior else '   (none)'}

{('EXTRA GUIDANCE FOR THIS ROUND: '+focus) if focus else ''}

Final answer (plain text): (a) the unified diff of the source change (`git diff` excluding the demo test), (b) the name of the demo file, (c) one paragraph: what breaks, and exactly what is needed for it to manifest, (d) the commands you ran and their outcome (suite with change: pass; demo with change: fail; demo without: pass). Leave the worktree with the change APPLIED and the demo file present.""")
