package ref

import (
	"errors"
	"fmt"
)

// Field is a header field as RFC 7541 sees it.
type Field struct {
	Name, Value string
	Sensitive   bool // encoded as "never indexed"
}

func (f Field) Size() int { return len(f.Name) + len(f.Value) + 32 }

// StaticTable is RFC 7541 Appendix A (index 1..61).
var StaticTable = []Field{
	{Name: ":authority"}, {Name: ":method", Value: "GET"}, {Name: ":method", Value: "POST"},
	{Name: ":path", Value: "/"}, {Name: ":path", Value: "/index.html"}, {Name: ":scheme", Value: "http"},
	{Name: ":scheme", Value: "https"}, {Name: ":status", Value: "200"}, {Name: ":status", Value: "204"},
	{Name: ":status", Value: "206"}, {Name: ":status", Value: "304"}, {Name: ":status", Value: "400"},
	{Name: ":status", Value: "404"}, {Name: ":status", Value: "500"}, {Name: "accept-charset"},
	{Name: "accept-encoding", Value: "gzip, deflate"}, {Name: "accept-language"}, {Name: "accept-ranges"},
	{Name: "accept"}, {Name: "access-control-allow-origin"}, {Name: "age"}, {Name: "allow"},
	{Name: "authorization"}, {Name: "cache-control"}, {Name: "content-disposition"}, {Name: "content-encoding"},
	{Name: "content-language"}, {Name: "content-length"}, {Name: "content-location"}, {Name: "content-range"},
	{Name: "content-type"}, {Name: "cookie"}, {Name: "date"}, {Name: "etag"}, {Name: "expect"}, {Name: "expires"},
	{Name: "from"}, {Name: "host"}, {Name: "if-match"}, {Name: "if-modified-since"}, {Name: "if-none-match"},
	{Name: "if-range"}, {Name: "if-unmodified-since"}, {Name: "last-modified"}, {Name: "link"}, {Name: "location"},
	{Name: "max-forwards"}, {Name: "proxy-authenticate"}, {Name: "proxy-authorization"}, {Name: "range"},
	{Name: "referer"}, {Name: "refresh"}, {Name: "retry-after"}, {Name: "server"}, {Name: "set-cookie"},
	{Name: "strict-transport-security"}, {Name: "transfer-encoding"}, {Name: "user-agent"}, {Name: "vary"},
	{Name: "via"}, {Name: "www-authenticate"},
}

// Table is a dynamic table (newest entry first) with its two limits.
type Table struct {
	Ents        []Field
	Max         int // current maximum size (changed by size updates)
	SettingsMax int // limit set by SETTINGS_HEADER_TABLE_SIZE: a size update may not exceed it
}

func NewTable() *Table { return &Table{Max: 4096, SettingsMax: 4096} }

func (t *Table) Clone() *Table {
	c := *t
	c.Ents = append([]Field(nil), t.Ents...)
	return &c
}

func (t *Table) Size() int {
	n := 0
	for _, e := range t.Ents {
		n += e.Size()
	}
	return n
}

func (t *Table) evict() {
	for len(t.Ents) > 0 && t.Size() > t.Max {
		t.Ents = t.Ents[:len(t.Ents)-1]
	}
}

// Add inserts f (RFC 7541 4.4: an entry larger than the table empties it).
func (t *Table) Add(f Field) {
	f.Sensitive = false
	t.Ents = append([]Field{f}, t.Ents...)
	t.evict()
}

// SetMax applies a dynamic table size update.
func (t *Table) SetMax(n int) {
	t.Max = n
	t.evict()
}

// Lookup returns the entry at RFC index i (1-based; 62.. is dynamic).
func (t *Table) Lookup(i uint64) (Field, bool) {
	if i >= 1 && i <= uint64(len(StaticTable)) {
		return StaticTable[i-1], true
	}
	j := i - uint64(len(StaticTable)) - 1
	if i > uint64(len(StaticTable)) && j < uint64(len(t.Ents)) {
		return t.Ents[j], true
	}
	return Field{}, false
}

// Find returns the index of a full match and of a name match (0 = none),
// preferring the static table, lowest index first.
func (t *Table) Find(name, value string) (full, nameOnly uint64) {
	for i, e := range StaticTable {
		if e.Name == name {
			if nameOnly == 0 {
				nameOnly = uint64(i + 1)
			}
			if e.Value == value && full == 0 {
				full = uint64(i + 1)
			}
		}
	}
	for i, e := range t.Ents {
		if e.Name == name {
			if nameOnly == 0 {
				nameOnly = uint64(62 + i)
			}
			if e.Value == value && full == 0 {
				full = uint64(62 + i)
			}
		}
	}
	return
}

func (t *Table) String() string {
	s := fmt.Sprintf("max=%d/%d[", t.Max, t.SettingsMax)
	for i, e := range t.Ents {
		if i > 0 {
			s += " | "
		}
		s += e.Name + ": " + e.Value
	}
	return s + "]"
}

// Rep is a header field representation (RFC 7541 6).
type Rep int

const (
	RepIndexed Rep = iota
	RepIncremental
	RepWithout
	RepNever
	RepSizeUpdate
)

func (r Rep) String() string {
	return [...]string{"indexed", "incremental", "without-indexing", "never-indexed", "size-update"}[r]
}

// Decoding errors, by class.
var (
	ErrIndexZero      = errors.New("hpack: index 0")
	ErrIndexRange     = errors.New("hpack: index past the table")
	ErrSizeOverLimit  = errors.New("hpack: size update above the SETTINGS limit")
	ErrSizeAfterField = errors.New("hpack: size update after a field")
	ErrTruncated      = errors.New("hpack: truncated")
	ErrIntOverflow    = errors.New("hpack: integer overflow")
	ErrHuffman        = errors.New("hpack: invalid huffman string")
)

// DecInt decodes a prefix integer (RFC 7541 5.1). Values that do not fit 32
// bits are reported as overflow: no HPACK quantity (index, string length,
// table size) may legitimately be that large within a frame.
func DecInt(b []byte, prefix uint) (v uint64, rest []byte, err error) {
	if len(b) == 0 {
		return 0, b, ErrTruncated
	}
	mask := uint64(1)<<prefix - 1
	v = uint64(b[0]) & mask
	b = b[1:]
	if v < mask {
		return v, b, nil
	}
	shift := uint(0)
	over := false
	for {
		if len(b) == 0 {
			return 0, b, ErrTruncated
		}
		c := b[0]
		b = b[1:]
		if shift <= 49 {
			v += uint64(c&0x7f) << shift
		} else if c&0x7f != 0 {
			over = true
		}
		shift += 7
		if c&0x80 == 0 {
			break
		}
	}
	if over || v > 1<<32-1 {
		return 0, b, ErrIntOverflow
	}
	return v, b, nil
}

// EncInt appends v with the given prefix width; high holds the pattern bits.
func EncInt(dst []byte, high byte, prefix uint, v uint64) []byte {
	mask := uint64(1)<<prefix - 1
	if v < mask {
		return append(dst, high|byte(v))
	}
	dst = append(dst, high|byte(mask))
	v -= mask
	for v >= 128 {
		dst = append(dst, byte(v&0x7f)|0x80)
		v >>= 7
	}
	return append(dst, byte(v))
}

func decString(b []byte) (s string, rest []byte, err error) {
	if len(b) == 0 {
		return "", b, ErrTruncated
	}
	huff := b[0]&0x80 != 0
	n, b, err := DecInt(b, 7)
	if err != nil {
		return "", b, err
	}
	if uint64(len(b)) < n {
		return "", b, ErrTruncated
	}
	raw := b[:n]
	b = b[n:]
	if huff {
		d, err := HuffDecode(raw)
		if err != nil {
			return "", b, ErrHuffman
		}
		return string(d), b, nil
	}
	return string(raw), b, nil
}

// EncString appends a string literal, Huffman coded or raw.
func EncString(dst []byte, s string, huff bool) []byte {
	if huff {
		h := HuffEncode([]byte(s))
		dst = EncInt(dst, 0x80, 7, uint64(len(h)))
		return append(dst, h...)
	}
	dst = EncInt(dst, 0, 7, uint64(len(s)))
	return append(dst, s...)
}

// DecField is one decoded representation.
type DecField struct {
	Field
	Rep     Rep
	NameIdx uint64 // 0: literal name
	NewMax  int    // for RepSizeUpdate
}

// DecodeBlock decodes one complete header block against t (mutating it) with
// every RFC 7541 check: size updates only at the start of the block (4.2) and
// never above the SETTINGS limit (6.3), index 0 and indices past the table are
// errors (6.1, 2.3.3), integers and strings must be complete.
func DecodeBlock(t *Table, b []byte) (fields []DecField, err error) {
	seenField := false
	for len(b) > 0 {
		c := b[0]
		switch {
		case c&0x80 != 0:
			var i uint64
			if i, b, err = DecInt(b, 7); err != nil {
				return fields, err
			}
			if i == 0 {
				return fields, ErrIndexZero
			}
			f, ok := t.Lookup(i)
			if !ok {
				return fields, ErrIndexRange
			}
			f.Sensitive = false
			fields = append(fields, DecField{Field: f, Rep: RepIndexed, NameIdx: i})
			seenField = true
		case c&0xe0 == 0x20:
			var n uint64
			if n, b, err = DecInt(b, 5); err != nil {
				return fields, err
			}
			if seenField {
				return fields, ErrSizeAfterField
			}
			if n > uint64(t.SettingsMax) {
				return fields, ErrSizeOverLimit
			}
			t.SetMax(int(n))
			fields = append(fields, DecField{Rep: RepSizeUpdate, NewMax: int(n)})
		default:
			rep, prefix := RepWithout, uint(4)
			if c&0xc0 == 0x40 {
				rep, prefix = RepIncremental, 6
			} else if c&0xf0 == 0x10 {
				rep = RepNever
			}
			var i uint64
			if i, b, err = DecInt(b, prefix); err != nil {
				return fields, err
			}
			var f Field
			if i == 0 {
				if f.Name, b, err = decString(b); err != nil {
					return fields, err
				}
			} else {
				e, ok := t.Lookup(i)
				if !ok {
					return fields, ErrIndexRange
				}
				f.Name = e.Name
			}
			if f.Value, b, err = decString(b); err != nil {
				return fields, err
			}
			f.Sensitive = rep == RepNever
			if rep == RepIncremental {
				t.Add(f)
			}
			fields = append(fields, DecField{Field: f, Rep: rep, NameIdx: i})
			seenField = true
		}
	}
	return fields, nil
}

// EncChoice spells out every choice an encoder has for one field.
type EncChoice struct {
	Rep       Rep
	NameIndex bool // refer to the name by index when the table has it
	HuffName  bool
	HuffValue bool
}

// EncodeField appends f under choice ch, updating t like the peer's decoder
// will. RepIndexed falls back to RepIncremental when there is no full match.
func EncodeField(dst []byte, t *Table, f Field, ch EncChoice) []byte {
	full, nameOnly := t.Find(f.Name, f.Value)
	rep := ch.Rep
	if rep == RepIndexed {
		if full != 0 {
			return EncInt(dst, 0x80, 7, full)
		}
		rep = RepIncremental
	}
	idx := uint64(0)
	if ch.NameIndex {
		idx = nameOnly
	}
	switch rep {
	case RepIncremental:
		dst = EncInt(dst, 0x40, 6, idx)
	case RepWithout:
		dst = EncInt(dst, 0x00, 4, idx)
	case RepNever:
		dst = EncInt(dst, 0x10, 4, idx)
	}
	if idx == 0 {
		dst = EncString(dst, f.Name, ch.HuffName)
	}
	dst = EncString(dst, f.Value, ch.HuffValue)
	if rep == RepIncremental {
		t.Add(f)
	}
	return dst
}

// EncodeSizeUpdate appends a dynamic table size update and applies it to t.
func EncodeSizeUpdate(dst []byte, t *Table, n int) []byte {
	t.SetMax(n)
	return EncInt(dst, 0x20, 5, uint64(n))
}
