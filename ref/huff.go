// Package ref holds the reference models used as oracles: RFC 7541 Huffman
// and HPACK, written from the RFC text, kept boring, and cross-validated
// against golang.org/x/net where x/net implements the same thing.
package ref

import "errors"

// HuffCode returns the code and bit length of symbol b.
func HuffCode(b byte) (uint32, uint8) { return huffmanCodes[b], huffmanCodeLen[b] }

// HuffEncode is RFC 7541 5.2: codes concatenated MSB first, padded with 1 bits.
func HuffEncode(s []byte) []byte {
	var out []byte
	var acc uint64
	var n uint
	for _, b := range s {
		acc = acc<<huffmanCodeLen[b] | uint64(huffmanCodes[b])
		n += uint(huffmanCodeLen[b])
		for n >= 8 {
			out = append(out, byte(acc>>(n-8)))
			n -= 8
		}
	}
	if n > 0 {
		pad := 8 - n
		out = append(out, byte(acc<<pad)|byte(1<<pad-1))
	}
	return out
}

// HNode is a node of the code tree. Leaves have Sym >= 0 (256 = EOS).
type HNode struct {
	Kid   [2]*HNode
	Sym   int
	ID    int  // internal nodes are numbered 0.. in BFS order; root is 0
	Depth int  // bits from the root
	Ones  bool // the path from the root is all 1 bits (a prefix of EOS)
}

var HuffRoot, HuffNodes = buildTree()

func buildTree() (*HNode, []*HNode) {
	root := &HNode{Sym: -1, Ones: true}
	add := func(code uint32, n uint8, sym int) {
		cur := root
		for i := int(n) - 1; i >= 0; i-- {
			bit := (code >> uint(i)) & 1
			if cur.Kid[bit] == nil {
				cur.Kid[bit] = &HNode{Sym: -1, Depth: cur.Depth + 1, Ones: cur.Ones && bit == 1}
			}
			cur = cur.Kid[bit]
		}
		cur.Sym = sym
	}
	for s := 0; s < 256; s++ {
		add(huffmanCodes[s], huffmanCodeLen[s], s)
	}
	add(0x3fffffff, 30, 256) // EOS
	var internal []*HNode
	q := []*HNode{root}
	for len(q) > 0 {
		n := q[0]
		q = q[1:]
		if n.Sym >= 0 {
			continue
		}
		n.ID = len(internal)
		internal = append(internal, n)
		for _, k := range n.Kid {
			if k != nil {
				q = append(q, k)
			}
		}
	}
	return root, internal
}

var (
	ErrHuffEOS     = errors.New("huffman: EOS symbol in string")
	ErrHuffPadding = errors.New("huffman: invalid padding")
)

// HuffStep feeds one byte to the decoding automaton: from internal node n it
// returns the node reached, the symbols emitted, and whether EOS was decoded.
func HuffStep(n *HNode, b byte) (next *HNode, out []byte, eos bool) {
	for i := 7; i >= 0; i-- {
		n = n.Kid[(b>>uint(i))&1]
		if n.Sym >= 0 {
			if n.Sym == 256 {
				return nil, out, true
			}
			out = append(out, byte(n.Sym))
			n = HuffRoot
		}
	}
	return n, out, false
}

// HuffAccept: the string may end in state n iff the pending bits are at most 7
// and all ones.
func HuffAccept(n *HNode) bool { return n.Depth <= 7 && n.Ones }

// HuffDecode is the strict decoder of RFC 7541 5.2.
func HuffDecode(src []byte) ([]byte, error) {
	n := HuffRoot
	out := []byte{}
	for _, b := range src {
		var o []byte
		var eos bool
		n, o, eos = HuffStep(n, b)
		out = append(out, o...)
		if eos {
			return nil, ErrHuffEOS
		}
	}
	if !HuffAccept(n) {
		return nil, ErrHuffPadding
	}
	return out, nil
}
