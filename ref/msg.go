package ref

import "strings"

// RequestWellFormed is RFC 7540 8.1.2 for a request (CONNECT excluded):
// lower-case names; only the four request pseudo-headers, each at most once,
// all before regular fields, :method/:scheme/:path present and :path non-empty;
// no connection-specific fields; TE only "trailers"; content-length (if any)
// a number equal to the number of DATA bytes; no pseudo-headers in trailers.
// It returns "" if well-formed, otherwise the first rule broken.
func RequestWellFormed(fields []Field, bodyLen int, trailers []Field) string {
	seen := map[string]int{}
	regular := false
	var cl []string
	for _, f := range fields {
		for i := 0; i < len(f.Name); i++ {
			if c := f.Name[i]; c >= 'A' && c <= 'Z' {
				return "uppercase-name"
			}
		}
		if strings.HasPrefix(f.Name, ":") {
			if regular {
				return "pseudo-after-regular"
			}
			switch f.Name {
			case ":method", ":scheme", ":path", ":authority":
			case ":status":
				return "response-pseudo-header"
			default:
				return "unknown-pseudo-header"
			}
			seen[f.Name]++
			if seen[f.Name] > 1 {
				return "duplicate-pseudo-header"
			}
			continue
		}
		regular = true
		switch f.Name {
		case "connection", "keep-alive", "proxy-connection", "transfer-encoding", "upgrade":
			return "connection-specific"
		case "te":
			if f.Value != "trailers" {
				return "te-not-trailers"
			}
		case "content-length":
			cl = append(cl, f.Value)
		}
	}
	if seen[":method"] == 0 || seen[":scheme"] == 0 || seen[":path"] == 0 {
		return "missing-pseudo-header"
	}
	for _, f := range fields {
		if f.Name == ":path" && f.Value == "" {
			return "empty-path"
		}
	}
	for _, v := range cl {
		if v == "" {
			return "content-length-not-a-number"
		}
		n := 0
		over := false
		for i := 0; i < len(v); i++ {
			if v[i] < '0' || v[i] > '9' {
				return "content-length-not-a-number"
			}
			if n > (1<<62)/10 {
				over = true
			}
			n = n*10 + int(v[i]-'0')
		}
		if over || n != bodyLen {
			return "content-length-mismatch"
		}
	}
	for _, f := range trailers {
		if strings.HasPrefix(f.Name, ":") {
			return "pseudo-header-in-trailers"
		}
		for i := 0; i < len(f.Name); i++ {
			if c := f.Name[i]; c >= 'A' && c <= 'Z' {
				return "uppercase-name"
			}
		}
	}
	return ""
}

// ResponseWellFormed is RFC 7540 8.1.2.4 for a response header block: exactly
// one :status, first, a three-digit number; no other pseudo-header; lower-case
// names; no connection-specific fields; content-length numeric.
func ResponseWellFormed(fields []Field) string {
	regular := false
	status := 0
	for _, f := range fields {
		for i := 0; i < len(f.Name); i++ {
			if c := f.Name[i]; c >= 'A' && c <= 'Z' {
				return "uppercase-name"
			}
		}
		if strings.HasPrefix(f.Name, ":") {
			if regular {
				return "pseudo-after-regular"
			}
			if f.Name != ":status" {
				return "request-pseudo-header"
			}
			status++
			if status > 1 {
				return "duplicate-status"
			}
			if len(f.Value) != 3 {
				return "status-not-three-digits"
			}
			for i := 0; i < 3; i++ {
				if f.Value[i] < '0' || f.Value[i] > '9' {
					return "status-not-a-number"
				}
			}
			if f.Value[0] == '0' {
				return "status-not-three-digits"
			}
			continue
		}
		regular = true
		switch f.Name {
		case "connection", "keep-alive", "proxy-connection", "transfer-encoding", "upgrade":
			return "connection-specific"
		case "content-length":
			if f.Value == "" {
				return "content-length-not-a-number"
			}
			for i := 0; i < len(f.Value); i++ {
				if f.Value[i] < '0' || f.Value[i] > '9' {
					return "content-length-not-a-number"
				}
			}
		}
	}
	if status == 0 {
		return "missing-status"
	}
	return ""
}
