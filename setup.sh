#!/bin/bash
# MANIFEST.setup_cmd: build the framework from files on disk only (offline) and
# warm the build cache so that checks pay only the incremental rebuild.
set -eu
cd "$(dirname "$0")"
export GOFLAGS=-mod=mod GOPROXY=off
mkdir -p .build evidence replays
cp /repo/go.sum go.sum 2>/dev/null || true
go build -o .build/vrewrite ./cmd/vrewrite
./.build/vrewrite -repo "${VERIF_REPO:-/repo}" -out "$PWD/.build/ov" -inject "$PWD/inject" -tags verif
go build -tags verif -overlay .build/ov/overlay.json -o .build/check ./cmd/check
go build -tags verif -race -overlay .build/ov/overlay.json -o .build/check-race ./cmd/check
echo "setup ok: $(./.build/check list)"
