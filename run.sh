#!/bin/bash
# Entry point named in MANIFEST.json: ./run.sh <property-id> <quick|thorough>
#                                     ./run.sh replay <file>
# Rebuilds the overlay and the check binary from the CURRENT working tree of
# /repo on every call, then runs the check (16 worker processes).
# exit 0: property held on everything explored (KNOWN-FINDING lines allowed)
# exit 1: VIOLATION property=<id> replay=<path>
# exit 2: BROKEN (build failure or harness failure) — never a verdict
set -u
cd "$(dirname "$0")"
export GOFLAGS=-mod=mod GOPROXY=off
export VERIF_ROOT="$PWD"
REPO="${VERIF_REPO:-/repo}"
mkdir -p .build evidence replays
id="${1:?usage: run.sh <id> <tier>}"
tier="${2:-quick}"

build() { # $1 = extra go build flags, $2 = output
  go build -tags verif $1 -overlay .build/ov/overlay.json -o "$2" ./cmd/check 2>.build/build.err || {
    echo "BROKEN build: check binary does not build against the current /repo tree" >&2
    head -40 .build/build.err >&2
    exit 2
  }
}

(
  flock 9
  go build -o .build/vrewrite ./cmd/vrewrite || { echo "BROKEN build: vrewrite" >&2; exit 2; }
  ./.build/vrewrite -repo "$REPO" -out "$PWD/.build/ov" -inject "$PWD/inject" -tags verif || { echo "BROKEN build: vrewrite failed on $REPO" >&2; exit 2; }
  build "" .build/check
) 9>.build/lock || exit 2

if [ "$id" = "replay" ]; then
  prop="$(sed -n 's/.*"property": *"\([A-Z0-9]*\)".*/\1/p' "$tier" | head -1)"
  if [ -n "$prop" ] && [ "$(./.build/check israce "$prop")" = "yes" ]; then
    ( flock 9; build "-race" .build/check-race ) 9>.build/lock || exit 2
    exec ./.build/check-race replay "$tier"
  fi
  exec ./.build/check replay "$tier"
fi
if [ "$(./.build/check israce "$id")" = "yes" ]; then
  ( flock 9; build "-race" .build/check-race ) 9>.build/lock || exit 2
  exec ./.build/check-race "$id" --tier "$tier"
fi
exec ./.build/check "$id" --tier "$tier"
