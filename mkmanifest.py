#!/usr/bin/env python3
"""Regenerates MANIFEST.json from the table below (single source of truth)."""
import json, subprocess

ALL = ["C%02d" % i for i in range(1, 21)]

# id -> (technique, level text, level_note, design_ref)
CHECKS = {
 "C15": ("bounded-exhaustive input enumeration + explicit-state search over the RFC 7541 decoding automaton, executed on the real HuffmanEncode/HuffmanDecode",
         "Every byte string up to 2 (quick) / 3 (thorough) bytes through the real encoder and decoder, plus a transition cover of the 256-state byte-level decoding automaton with 7 distinguishing completions and two access strings per state, all compared with an RFC 7541 reference and x/net. Decides table, canonical padding, losslessness and decode strictness for all strings whose treatment depends only on (tree position, pending bits).",
         "Trusted: ref/hufftab.go (Appendix B transcribed from x/net; cross-checked against x/net at run time). Strings longer than the BX bound are covered only through the automaton argument.",
         "DESIGN.md §4 C15"),
 "C03": ("explicit-state search over the RFC 7541 decoder state (dynamic table x limits) executed on the real HPACK decoder, plus bounded-exhaustive byte strings for the rejection half",
         "BFS over reference decoder states to depth 2 (quick) / 3 (thorough) header blocks under two table limits (4096 and 100, so evictions and oversized entries occur); from every state every block of the alphabet (all representations x indexed/literal name x Huffman x value-length classes incl. length==first byte, 127/128/300, size updates incl. shrink-then-grow) is decoded by the real decoder through the server's block-level step and through public Next and compared with the reference (fields, sensitivity, dynamic table, limits). Rejection half: all byte strings up to 2/3 bytes as complete blocks at three table states and a catalogue of invalid forms.",
         "Trusted: ref/hpack.go (RFC 7541), cross-checked against x/net's decoder on every generated block. Size-update-only blocks and over-long non-overflowing integers are outside the enumerated domain. Unexported access through the injected file (inject/README).",
         "DESIGN.md §4 C03"),
 "C04": ("explicit-state search over (peer decoder table, allowed size, pending announcement) executed on the real HPACK encoder; every emitted block decoded by a strict RFC 7541 reference and x/net",
         "BFS over the connection state to depth 2/3 header blocks and 2/3 SetMaxTableSize calls in 4 configurations (DisableCompression x DisableDynamicTable); transitions are blocks of 1-2 AppendHeader calls over an alphabet with static hits, dynamic hits, empty/NUL-terminated/'00000000' names, value lengths 0,1,127,128,300, store and sensitive flags. After every block: decodes to the same fields, sensitive fields never-indexed and not stored, size reductions announced first, encoder table == peer decoder table, table within the allowed size.",
         "Trusted: ref/hpack.go and x/net (both decode every block). The peer is assumed to apply SETTINGS_HEADER_TABLE_SIZE when SetMaxTableSize is called.",
         "DESIGN.md §4 C04"),
 "C05": ("bounded-exhaustive enumeration of a boundary grid of frame values through the real serialisers and parsers against an independent RFC 7540 section 6 codec (validated against x/net's Framer)",
         "Write side: every frame meaning of the grid (10 types x stream ids x flag setters x payload lengths 0..16384 x every pad length (thorough) x priority x boundary field values, SETTINGS via every subset of setters at boundary values) built through the public setters, serialised by WriteTo (twice), read by the independent parser. Read side: the independent writer's frames (x reserved bit x undefined flags x pad fill x reserved bits inside payload fields) read by ReadFrameFrom followed by a sentinel: same fields, exactly 9+length bytes consumed.",
         "Trusted: peer/sem.go (RFC 7540 section 6 reader/writer), compared with x/net's Framer on every generated frame. Stream ids >= 2^31 are outside the write-side domain (documented API behaviour).",
         "DESIGN.md §4 C05"),
 "C16": ("bounded-exhaustive enumeration of frame headers x payloads and of all truncation offsets of a recorded stream through the real readers, with the pool tracker of the controlled runtime as ownership oracle",
         "Frame header grid (17 lengths x 16 types x flags x 5 stream ids x 2 size limits) with all payloads up to 2 bytes and structural-byte sweeps beyond, each followed by a sentinel frame: never panics; error or a correct reading of exactly 9+length bytes; must-error for oversize, impossible fixed sizes and padding; unknown types skipped and positioned at the sentinel; allocation bounded by the limit; deterministic LIFO pools report double release and two acquirers never get the same object. Every cut offset of a 13-frame stream. HPACK: every byte string up to 2/3 bytes through Next at two table states: progress or error, bounded output.",
         "Trusted: peer.SemOf; vsched.Pool (deterministic LIFO + double-release tracker) replaces sync.Pool through the overlay. Allocation is measured for lengths >= 16384 only.",
         "DESIGN.md §4 C16"),
 "C08": ("exhaustive event-sequence exploration (ELX) of the real ServeConn under the controlled scheduler, run to exact quiescence after every frame, against an RFC 7540 5.1/6 reference with all leniencies",
         "Every sequence of up to 3 (quick) / 4 (thorough) environment events over ~130 role-named frames (HEADERS/CONTINUATION/DATA/trailers variants, RST_STREAM, WINDOW_UPDATE 0/1/exact-max/overflow, PRIORITY other/self, on roles opened-earlier / next id / id after a gap / skipped id / even id / closed in the prelude, plus PING, SETTINGS, ACKs, connection WINDOW_UPDATE, unknown types, handler completions) under three preludes, and a single-stream alphabet to depth 5 / 7. After each event the reaction (RST_STREAM code, GOAWAY code, close, dispatch, ACKs) must be in the allowed set; legal request sequences must be dispatched exactly once and nothing else may be.",
         "Trusted: the allowed-reaction table in checks/c08.go (DESIGN.md §4 C08 lists every leniency). Between events the implementation runs under the canonical internal schedule; other internal schedules are explored by the SPX harnesses of C19.",
         "DESIGN.md §4 C08"),
 "C01": ("exhaustive enumeration (ELX) of single-deviation encodings/fragmentations and of all linear extensions x handler completion orders x response shapes for 2-3 multiplexed streams on the real ServeConn, with an x/net-HPACK peer",
         "Family 'encoding': each vocabulary request with every single deviation from the default encoding (4 representations x indexed/literal name x Huffman per field; every HEADERS/CONTINUATION split offset incl. empty fragments and, thorough, every pair of offsets; size update at block start split everywhere; pad lengths 0/1/255; priority section; every composition of the body into <= 3 DATA frames incl. empty and padded ones; END_STREAM on last DATA / empty DATA / trailers incl. trailers+CONTINUATION). Family 'interleave': 2 (quick) / 3 (thorough) streams of [block, DATA, DATA+ES] where later blocks use dynamic-table entries of earlier ones: all linear extensions x all handler completion orders x 9 response shapes (buffered small/large, streamed declared/unknown/empty, EOF with last chunk, one byte per read, connection-specific and non-letter header names) x 2 preludes. Oracle: one handler invocation per request with exactly the fields/body/trailers sent; per stream HEADERS then DATA equal to the handler's response with END_STREAM exactly once.",
         "Header names compared case-insensitively, order only among same-name fields (fasthttp API); cookie crumbs joined with '; '. Canonical internal schedule between events.",
         "DESIGN.md §4 C01"),
 "C09": ("exhaustive enumeration (ELX) of a catalogue of stream-scoped offences x offence points x all interleavings with a concurrent well-formed stream x handler completion orders on the real ServeConn",
         "22 offences (malformed field first/middle/last of a block that inserts dynamic-table entries, connection-specific, bad pseudo-header, TE, content-length; oversized body; length mismatch; refused stream over the limit; peer RST_STREAM before body / mid-body / handler running / response flow-blocked; handler panic; stream WINDOW_UPDATE 0 / overflow; DATA, trailers(+CONTINUATION), WINDOW_UPDATE in flight after the server's reset), each with and without a CONTINUATION split, interleaved in every way with a victim stream opened before, followed by a victim whose header block references the entries the offending block inserted. Oracle: victims dispatched once and intact, responses intact, no GOAWAY, connection open, no panic, pools clean.",
         "The peer keeps sending what it had queued before the server's RST_STREAM (frames in flight). Canonical internal schedule between events.",
         "DESIGN.md §4 C09"),
 "C20": ("bounded-exhaustive enumeration of request header lists over a valid/invalid vocabulary, each executed on the real ServeConn (ELX) between two well-formed neighbours, judged by an RFC 7540 8.1.2 predicate",
         "Every subset of <= 2 (quick) / <= 3 (thorough) of 28 vocabulary items applied to a base request x body {0,5} x trailers {none, valid, with pseudo-header} x position {first, middle, last}: well-formed <=> dispatched exactly once and intact; malformed => never dispatched and only that stream gets RST_STREAM(PROTOCOL_ERROR) or a 4xx; neighbours dispatched and answered intact; no GOAWAY.",
         "ref/msg.go is the RFC 7540 8.1.2 predicate restricted to the vocabulary (no CONNECT, no token grammar). Blocks are encoded without dynamic-table references (HPACK accounting of rejected blocks is C09's). Client half (checks/c20client.go): every subset of <= 2 / <= 3 of 27 response vocabulary items (:status dropped / duplicated / after a regular field / 20, 2000, abc, 2x0, empty, 404; request pseudo-headers; upper case; connection-specific fields; content-length forms; repeated fields; set-cookie) x body {0,5} x trailers {none, valid, with :status} x position among three concurrent requests, plus every cut offset of the block and dynamic-table encodings: well-formed <=> delivered intact; malformed => that request alone fails, neighbours intact, connection kept. An overflowing content-length may go either way.",
         "DESIGN.md §4 C20"),
 "C06": ("exhaustive event-sequence exploration (ELX) of window grants, SETTINGS changes, resets and handler completions on the real ServeConn against the peer's authoritative flow-control ledger",
         "Peer INITIAL_WINDOW_SIZE in {0,1,5}; a prelude response leaves the connection window at 5 bytes so both windows bind with tiny numbers; 6 (quick) / 10 (thorough) configurations of 1-3 streams with response sizes from {0,1,3,6,16384,16385,40000}, buffered or streamed; every sequence to depth 4 / 5 over {handler returns, stream WINDOW_UPDATE 1|2|big, connection WINDOW_UPDATE 1|3|big, SETTINGS_INITIAL_WINDOW_SIZE 0|1|4|70000 (negative windows), RST_STREAM}, each followed by a closing phase that grants everything. Oracle: ledger never negative at a DATA frame, no DATA above 16384, never stuck with both windows positive, every response complete with END_STREAM once.",
         "DATA frames are charged in the order received. Canonical internal schedule between events.",
         "DESIGN.md §4 C06"),
 "C14": ("exhaustive enumeration of upload leak classes against a conforming sender model on the real ServeConn (ELX), each driven to more than twice the advertised connection window",
         "Sender model sends DATA only within its ledger and blocks exactly when a window is exhausted. Leak classes: accepted uploads on 1-3 interleaved streams, bodies over the limit (stream error), length mismatch, peer reset mid-body, refused streams with DATA in flight, DATA in flight after the server's reset, padding-only frames, empty DATA frames x chunk sizes x padding. Oracle: increments > 0, windows <= 2^31-1, sender never starved at quiescence, and the connection window returns to the same peak after every refill (a sinking peak is credit leaking, detected long before it starves). The client half (downloads) is added with the client harness.",
         "The volume (2x the advertised window) is a deterministic repetition of each enumerated class, not a sample. The sender stops on a stream after flushing what was in flight when RST_STREAM arrived.",
         "DESIGN.md §4 C14"),
 "C13": ("exhaustive event-sequence exploration (ELX) of adversarial moves with gated handlers on the real ServeConn, with pool gauges of the controlled runtime as the memory oracle, plus pumped repetitions",
         "MaxConcurrentStreams=2, MaxRequestBodySize=8, MaxHeaderListSize=400. Every sequence to depth 5 (quick) / 7 (thorough) over 13 adversarial moves (request, half-open request, RST of the newest stream, PRIORITY / WINDOW_UPDATE on new idle ids, open header block, CONTINUATION with more fields, DATA over the limit, mis-declared content-length, PING, SETTINGS, oldest handler returns); live sequences are also repeated x8 and x32. Invariants at every quiescent state: handlers running <= limit, body/header list seen by handlers within limits, Stream / RequestCtx objects held <= limit+2, queued frames bounded, and no gauge larger after 32 repetitions than after 8.",
         "Per-connection memory is observed as outstanding objects of the deterministic pools substituted for sync.Pool; the closed-stream ring (constant cap in the code) is not observable this way.",
         "DESIGN.md §4 C13"),
 "C10": ("exhaustive enumeration (ELX) of a catalogue of connection-scoped offences x history x trailing traffic x peer behaviour on the real ServeConn with virtual timers",
         "22 offences (wrong fixed sizes, oversized frame, CONTINUATION sequencing, PING/SETTINGS on a stream, invalid SETTINGS values, connection window overflow / zero increment, HPACK errors, even id, idle id, lower id) x 0-2 requests dispatched before x handlers returned / still running x trailing traffic (none, a new request, 140 PINGs, a half frame, 140 DATA or 140 requests already on the wire behind the offending frame) x peer silent / closes / stopped reading; idle-timeout firing at every point of a request's life. Oracle: GOAWAY or close with an allowed code; every GOAWAY's last-stream-id >= highest stream ever dispatched; nothing dispatched after the error; after handlers return and armed virtual timers fire ServeConn has returned and no goroutine is left.",
         "'Bounded time' = after finitely many virtual timer firings. Timer-vs-request races at lock granularity are C19's.",
         "DESIGN.md §4 C10"),
 "C17": ("exhaustive fault enumeration (ELX) on the real ServeConn: every cut offset of a recorded client byte stream, every single structural mutation, all short frame-soup sequences, every failing transport write",
         "A recorded 17-frame client conversation (CONTINUATION, padding, priority, trailers, WINDOW_UPDATE, PING, RST_STREAM) cut at every byte with handlers returning before or after the cut; every single mutation (delete/duplicate/swap frame, each flag bit, each type 0..10, stream id 0/+2/-2/even, length +-1; a deterministic slice of pairs in thorough); every sequence of <= 3 frames from a 28-frame soup with malformed sizes (and depth 4 over the 11 frames that keep a connection alive in thorough); the server's k-th Write failing for k=1..14; a peer that stops reading. Oracle: no recover() line, no unrecovered panic, ServeConn returns once the peer is gone and handlers returned and virtual timers fired, no goroutine left, pool tracker silent (double release, context recycled while its handler runs).",
         "Canonical internal schedule between events; teardown races at lock granularity are C19's.",
         "DESIGN.md §4 C17"),
 "C18": ("exhaustive enumeration (ELX) of SETTINGS sequences x positions x exchange sizes on the real ServeConn and the real Client under the controlled scheduler, with the scripted peer enforcing its own limits (strict RFC 7541 decoder, frame sizes, open-stream count)",
         "Both roles. Every sequence of <= 2 SETTINGS frames (all pairs in thorough) from a 20-frame alphabet (each of the six parameters at boundary and invalid values, two parameters in one frame, a repeated id, an unknown id, empty) delivered at every position of a timeline of 1-2 exchanges (before / between / during), as separate events and as one burst, x header lists of 100 B / 32 KB x bodies of 0 / 20 KB. Oracle: one ACK per valid SETTINGS frame, none for an invalid one or later (server: GOAWAY with the RFC's code; client: no further stream on the connection); every frame after the ACK within the peer's MAX_FRAME_SIZE (header blocks cut into CONTINUATION frames); a stream opened only while fewer than the peer's MAX_CONCURRENT_STREAMS are open; every header block decodes in a strict RFC 7541 decoder holding the peer's limits, the first block after a HEADER_TABLE_SIZE reduction starts with a size update at or below the lowest value, the table never above the limit; the endpoint's own SETTINGS are on the wire (ENABLE_PUSH=0, MAX_CONCURRENT_STREAMS) and enforced (frame above the advertised size, PUSH_PROMISE with push disabled); exchanges complete intact under valid SETTINGS.",
         "The peer applies a value it advertised as soon as it has sent the SETTINGS frame. An ACK still queued when a connection error ends the connection may be lost. SETTINGS_MAX_HEADER_LIST_SIZE of the peer is advisory and not enforced on the sender. Canonical internal schedule between events (SETTINGS-vs-write races at lock granularity: C19).",
         "DESIGN.md §4 C18"),
 "C19": ("stateless deviation-bounded schedule exploration (SPX) of the real goroutines under the controlled scheduler, built with -race on a race-transparent runtime; the race detector and the pool ownership tracker are the per-schedule oracles",
         "Eight harnesses after a canonical prelude (handshake + one warm exchange): server S1 SETTINGS(table, window, frame size) vs handler completions vs next request vs PING; S2 RST_STREAM vs running handler vs next request; S3 ping / idle / request timers vs half-open request vs peer close; S4 streamed response vs WINDOW_UPDATEs vs disconnect in mid-frame; client S5 two callers vs responses vs Close; S6 request timeout vs late response vs new caller (Ctx reuse) vs SETTINGS; S7 GOAWAY vs new request vs close; S8 streamed upload vs window grants vs SETTINGS vs RST_STREAM. The environment (peer script, clock, handler releases, Close, new callers) runs as low-priority threads: the default schedule runs every environment step to quiescence; every other choice at a decision point (all channel ops, selects, mutex and atomic operations, transport reads/writes, goroutine starts, timer firings) is a deviation. All schedules with <= 2 (server) / <= 1 (client) deviations in quick, <= 3 / <= 2 in thorough, each under two pool policies (one LIFO list: maximal reuse, Put->Get edge reported to the detector; per-goroutine lists: no edge through the pool). Oracles on every schedule: race detector reports (read back from its log after each execution), pool tracker (double release, release of a context a handler still owns), no unrecovered panic, exactly-once resolution, prefix replay never diverges.",
         "Race detection is happens-before over the program's own synchronisation as the shims report it (real atomics; mutex, RWMutex, WaitGroup, unbuffered channel, pool, timer and goroutine-start edges annotated; buffered channels are real channels). The detector keeps 4 accesses per 8-byte word, so a single execution of a racy schedule can stay silent (replay retries 5 times); weak-memory effects are not modelled. Unwinding of parked goroutines at the end of an execution is excluded.",
         "DESIGN.md §4 C19"),
 "C02": ("exhaustive enumeration (ELX) of server response encodings, fragmentations and interleavings against the real Client.RoundTrip path (dial, handshake, both loops) under the controlled scheduler",
         "Request shapes (none / buffered / streamed declared / unknown / empty bodies, connection-specific fields) each checked at the scripted server; response header block split into HEADERS+CONTINUATION at every offset (pairs in thorough), every representation x Huffman choice, every chunking of a 3-byte body incl. empty and padded DATA frames and END_STREAM on an empty frame, a 40000-byte body; 2 (quick) / 3 (thorough) concurrent requests with every frame-level interleaving of their responses. Oracle: each request arrives once on the next odd id, intact; each caller gets exactly the status, fields and body sent on its own stream.",
         "Callers are started one at a time (submission races: C19). Derived fasthttp request headers (user-agent, content-length, content-type) are tolerated.",
         "DESIGN.md §4 C02"),
 "C07": ("exhaustive event-sequence exploration (ELX) of server grants and SETTINGS changes against the real Client uploading, with the scripted server keeping the authoritative ledger",
         "Server INITIAL_WINDOW_SIZE in {0,1,5,70000}; a prelude upload leaves the connection window at 5; 7 (quick) / 11 (thorough) configurations of 1-3 uploads (sizes 0..40000, buffered / streamed declared / streamed unknown); every sequence to depth 3 / 4 over {stream WINDOW_UPDATE 1|2|big, connection WINDOW_UPDATE 1|3|big, SETTINGS_INITIAL_WINDOW_SIZE 0|1|4|70000, SETTINGS_MAX_FRAME_SIZE 16384|20000, other SETTINGS}, each followed by a closing phase. Oracle: ledger never negative at a DATA frame, no frame above the MAX_FRAME_SIZE in force, never stuck with both windows positive, every body complete with END_STREAM once and every caller resolved.",
         "Canonical internal schedule between events; grant-vs-spend races at lock granularity are C19's.",
         "DESIGN.md §4 C07"),
 "C11": ("exhaustive enumeration (ELX) of GOAWAY positions, last-stream-ids and follow-up event orders against the real Client with scripted servers",
         "1-2 (quick) / 1-3 (thorough) requests in flight in every combination of progress (HEADERS sent / response HEADERS received / partial body) x last-stream-id in {0, each in-flight id, above all} x code {NO_ERROR, PROTOCOL_ERROR} x every ordering (depth 2-3) of {complete a promised response, REFUSED_STREAM, a new request, server closes}. Oracle: disclaimed requests end with an error at the quiescent state after the GOAWAY (or are re-sent on a new connection), never succeed; HEADERS of a request reach servers at most once unless disclaimed; retryable only if disclaimed; no new stream on the connection after GOAWAY; promised requests answered by the script complete with that answer.",
         "'Promptly' = at the quiescent state after the GOAWAY, without any timer firing.",
         "DESIGN.md §4 C11"),
 "C12": ("exhaustive fault enumeration (ELX) against the real Client: every cut offset and single mutation of a recorded server byte stream, scripted hostile servers, failing writes, Close at every point, with virtual timers",
         "A recorded 11-frame server conversation answering two requests cut at every byte; 230+ single structural mutations; 15 hostile behaviours (RST_STREAM, REFUSED_STREAM, GOAWAY variants, oversized frame, garbage, PUSH_PROMISE, silence until the virtual timeout, late responses after a timeout followed by a new exchange, window overflow, invalid SETTINGS, unknown stream, DATA before HEADERS, PING flood); the client's k-th Write failing; Client.Close after every frame. Timers then fire until nothing is pending. Oracle: every RoundTrip returns exactly once; success only with the body the faulted script completed before END_STREAM; no unrecovered panic; after Close no goroutine and no queued request is left.",
         "'Within its timeout' = after the request's virtual MaxResponseTime timer and the ping ticker have fired. Close racing Write at lock granularity is C19's.",
         "DESIGN.md §4 C12"),
}

NOT_YET = "check not built yet (work in progress; see DESIGN.md §6 build order)"

def main():
    hooks_commits = []
    try:
        out = subprocess.run(["git", "-C", "/repo", "log", "--format=%H %s"], capture_output=True, text=True).stdout
        for line in out.splitlines():
            h, _, s = line.partition(" ")
            if s.startswith("verif hook") or s.startswith("hook:"):
                hooks_commits.append(h)
    except Exception:
        pass
    m = {
        "version": 1,
        "setup_cmd": "./setup.sh",
        "hooks": {
            "guard": "verif",
            "enable": "go build -tags verif -overlay /verif/.build/ov/overlay.json (overlay generated by cmd/vrewrite from the current /repo tree; see run.sh)",
            "baseline_off_cmd": "cd /repo && GOFLAGS=-mod=mod GOPROXY=off go test -json -vet=off -count=1 -timeout 25m ./...",
            "source_commits": hooks_commits,
            "add_only": True,
        },
        "engines": [
            {"name": "vrewrite+vsched", "path": "cmd/vrewrite, vsched, vsync, vatomic, vtime, vtls, vrand",
             "serves_properties": sorted(CHECKS.keys()),
             "kind_free_text": "source-to-source overlay that routes every goroutine, channel op, select, mutex, atomic, timer, map iteration and transport call of dgrr/http2 through a controlled scheduler (stateless deviation-bounded exploration of the real implementation); codec checks use the same build without a live scheduler"},
            {"name": "fw", "path": "fw, cmd/check, run.sh", "serves_properties": sorted(CHECKS.keys()),
             "kind_free_text": "sharded worker driver, evidence writer, known-findings classifier, replay"},
        ],
        "checks": [],
        "not_applicable": [],
        "notes": "Every command rebuilds the overlay and the check binary from /repo's current working tree. Exit 2 = BROKEN (harness/build failure), never a verdict.",
    }
    for cid in ALL:
        if cid in CHECKS:
            tech, text, note, ref = CHECKS[cid]
            m["checks"].append({
                "property_id": cid,
                "quick_cmd": "./run.sh %s quick" % cid,
                "thorough_cmd": "./run.sh %s thorough" % cid,
                "evidence_file": "/verif/evidence/%s.json" % cid,
                "replay_cmd_template": "./run.sh replay {path}",
                "engine": "vrewrite+vsched",
                "level_claimed": {"category": "model_checking", "text": text, "design_ref": ref},
                "level_note": note,
                "technique": tech,
            })
        else:
            m["not_applicable"].append({"property_id": cid, "reason": NOT_YET})
    json.dump(m, open("/verif/MANIFEST.json", "w"), indent=1)
    print("MANIFEST.json: %d checks, %d not_applicable" % (len(m["checks"]), len(m["not_applicable"])))

main()
